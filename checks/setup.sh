#!/bin/sh
# MANIFEST.setup_cmd: build the Lean development (models, theorems, driver) from files on disk only.
set -e
cd "$(dirname "$0")/../lean"
lake build driver
lake build StraxModel
