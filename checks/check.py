#!/venv/bin/python
"""Entry point: checks/check.py <Cxx> [--tier quick|thorough] [--replay file]  (DESIGN.md §2.1)"""
import os
import sys

sys.path.insert(0, os.path.dirname(os.path.abspath(__file__)))
os.environ.setdefault("NUMBA_DISABLE_PERFORMANCE_WARNINGS", "1")
from lib import engine  # noqa: E402

if __name__ == "__main__":
    sys.exit(engine.main())
