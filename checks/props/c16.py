"""C16 — copying, rechunking, recompressing and per-chunk merging preserve the data.

Model: lean/StraxModel/Model/Copy.lean (copyData / copyLoop + copyToAll (a loader per destination frontend) /
rechunkPlan + runOps over a store of directories / rechunkOnLoad / perChunkJob + perChunkMerge / chunk_number
lineage tagging) on top of the saver-loader protocol of C03 and the chunk algebra / rechunker of C07;
theorems: Props/C16.lean (the preservation theorems are `…_partial`: ordinary-run data, see its header).
Tie: the REAL `Context.copy_to_frontend` (1-3 destination frontends in one call), `strax.rechunker` (serial /
"thread" / a few "process" cases in both tiers), `rechunk_on_load` through `Context.get_iter` and through the
frontend loader, per-chunk
`Context.make(chunk_number=…)` + `merge_per_chunk_storage`, `Context.key_for(chunk_number=…)`, all on data
stored by real plugins of a real Context in scratch directories, against the compiled driver ops `c16.*`:
canonicalised destination metadata (c03.py's format without the filesize flag), the directory listing with independently decompressed
contents, the loaded chunks, the sequence of directory-level operations of the stand-alone rechunker
(traced by rebinding `os` / `shutil` / `save_file` names inside strax) and the equality pattern of keys; a
subset of all operations is repeated with every time shifted to epoch scale (T0 = 1.7e18 ns, above 2**53).
Oracle (independent of the model): loaded rows bit-identical to the original / the directly-made data
(raw bytes), metadata consistent with the new files (n, nbytes, filesize, start/end, first/last times,
compressor, target size), source directory listing + file hashes unchanged at EVERY traced operation unless
replace — and with replace unchanged until a complete destination exists.
"""
from __future__ import annotations

import atexit
import contextlib
import hashlib
import io
import itertools
import json
import logging
import os
import shutil
import tempfile
import threading
import time
import warnings
from collections import Counter
from concurrent.futures import Future

import numpy as np

from lib import gen
from lib import straxlib as sl
from lib.straxlib import strax
from props import c03

ID = "C16"
LEAN_MODULES = ["StraxModel.Props.C16"]
TRUSTED = [
    "modelled not verified: the four codecs (identity on rows in the model; every file is decompressed independently of strax.load_file "
    "and compared byte-wise), np.frombuffer, dtype.descr <-> literal_eval, json round trip",
    "directory-level operations of strax.rechunker are observed by rebinding `os` / `shutil` inside strax.storage.files and "
    "strax.storage.file_rechunker and `strax.save_file` (thread mode: real ThreadPoolExecutor + mailbox threads, OS scheduling not "
    "enumerated; process mode: chunk writes happen in worker processes and are not traced, the remaining operations and final states are)",
    "the Lean model is the serial protocol: parallel='thread' / 'process' of the rechunker and the threaded processor are tied by "
    "correspondence of traces / final states only",
    "lineage hashing (sha1/base32 of the json lineage) is assumed injective on the lineages that occur; the model takes an injective "
    "hash as a parameter and the check compares equality patterns of keys",
]
ASSUMPTIONS = [
    "stored layouts are ORDINARY-run data (plain run id, chunks without subruns): the composed theorems rest on C07 rechunk_stream_partial / "
    "C03 roundtrip_rechunk_partial, which are proved for un-annotated streams, and are therefore named …_partial; super-run data is neither "
    "generated nor covered by the totality theorems (per-chunk processing of super-runs is refused by strax itself); the safety half (whenever the "
    "operation returns and its result loads, the rows are the stored rows in order: copy_never_alters_rows, standalone_rechunk_never_alters_rows, "
    "rechunk_on_load_never_alters_rows, per_chunk_merge_never_alters_rows, per_chunk_merge_grouping_independent) is proved for EVERY loadable "
    "directory, super-run and annotated data included",
    "translator: the plain-key test of merge_per_chunk_storage, _move_directories and the position of the dest-is-source guard / the move in "
    "rechunker() are regenerated from /repo's AST into Generated/RechunkDecisions.lean on every run and proved equal to the model's (generated_*)",
    "metadata is compared with the model without the filesize flag (it depends on serial / executor saving); nbytes / filesize / compressor / "
    "target size are checked by the oracle against the real files",
    "rows are identified by an opaque id; bit-identity of all other bytes is checked by the oracle on the real arrays (4 dtypes in both tiers)",
    "target_size_mb / chunk_target_size_mb / chunk_source_size_mb are mapped monotonically to a row count",
    "per-chunk processing is modelled for plugins that compute chunk by chunk without state (LoopPlugin / OverlapWindowPlugin are "
    "refused by strax itself); the harness target plugin is a row filter",
    "key tagging is compared on plugin graphs whose plugins have at most one dependency (the connector checks of multi-dependency "
    "plugins are outside the model)",
]

logging.disable(logging.CRITICAL)
COMPRESSORS = c03.COMPRESSORS
ENCS = c03.ENCS
RUN = "r"
SRC, TGT = "src", "tgt"
KIND = "things"

# ----------------------------------------------------------------------------- translator (round 5)
# Scalar decisions of the anchored source, re-translated from the Python AST of /repo on every run into
# lean/StraxModel/Generated/RechunkDecisions.lean; Props/C16.lean proves them equal to the model's
# (`generated_*` theorems), so a change of the source breaks a proof obligation:
#   * merge_per_chunk_storage: the test that decides whether the merged data gets the PLAIN key
#     (`min(...) == 0 and max(...) == len(chunks) - 1`)                 -> Generated.mergeDropsChunkNumber lo hi n
#   * file_rechunker._move_directories: what is done to source / destination after saving  -> Generated.moveDirectories replace
#   * file_rechunker.rechunker: the destination-is-source guard (fix D24) raises ValueError BEFORE the saver is
#     created, and the directories are moved only AFTER the generator was exhausted        -> Generated.destGuardBeforeSaver / moveAfterSave

class Untranslatable(Exception):
    pass


GENERATED_NAME = "RechunkDecisions"


def _tr_int(e):
    import ast
    if isinstance(e, ast.Constant) and isinstance(e.value, int) and not isinstance(e.value, bool):
        return str(e.value) if e.value >= 0 else f"({e.value})"
    if isinstance(e, ast.UnaryOp) and isinstance(e.op, ast.USub):
        return f"(-{_tr_int(e.operand)})"
    if isinstance(e, ast.BinOp) and isinstance(e.op, (ast.Add, ast.Sub)):
        return f"({_tr_int(e.left)} {'+' if isinstance(e.op, ast.Add) else '-'} {_tr_int(e.right)})"
    if isinstance(e, ast.Call) and isinstance(e.func, ast.Name) and len(e.args) == 1 and not e.keywords \
            and isinstance(e.args[0], ast.Name):
        atom = {("min", "combined_chunk_numbers"): "lo", ("max", "combined_chunk_numbers"): "hi",
                ("len", "chunks"): "n"}.get((e.func.id, e.args[0].id))
        if atom:
            return atom
    raise Untranslatable(ast.dump(e)[:80])


def _tr_test(e):
    import ast
    if isinstance(e, ast.BoolOp):
        op = " ∨ " if isinstance(e.op, ast.Or) else " ∧ "
        return "(" + op.join(_tr_test(v) for v in e.values) + ")"
    if isinstance(e, ast.UnaryOp) and isinstance(e.op, ast.Not):
        return f"(¬ {_tr_test(e.operand)})"
    if isinstance(e, ast.Compare) and len(e.ops) == 1:
        sym = {ast.Lt: "<", ast.LtE: "≤", ast.Gt: ">", ast.GtE: "≥", ast.Eq: "=", ast.NotEq: "≠"}.get(type(e.ops[0]))
        if sym:
            return f"({_tr_int(e.left)} {sym} {_tr_int(e.comparators[0])})"
    raise Untranslatable(ast.dump(e)[:80])


def _is_assign_none(st, name):
    import ast
    return (isinstance(st, ast.Assign) and len(st.targets) == 1 and isinstance(st.targets[0], ast.Name)
            and st.targets[0].id == name and isinstance(st.value, ast.Constant) and st.value.value is None)


def _tr_merge_key(tree):
    """the `if <test>: _chunk_number = None else: _chunk_number = {...}` of merge_per_chunk_storage"""
    import ast
    fn = next((n for n in ast.walk(tree) if isinstance(n, ast.FunctionDef) and n.name == "merge_per_chunk_storage"), None)
    if fn is None:
        raise Untranslatable("merge_per_chunk_storage not found")
    hits = [n for n in ast.walk(fn) if isinstance(n, ast.If) and len(n.body) == 1 and _is_assign_none(n.body[0], "_chunk_number")
            and len(n.orelse) == 1 and isinstance(n.orelse[0], ast.Assign) and isinstance(n.orelse[0].value, ast.Dict)]
    if len(hits) != 1:
        raise Untranslatable(f"{len(hits)} candidates for the plain-key test")
    return _tr_test(hits[0].test)


def _call_name(e):
    import ast
    parts = []
    while isinstance(e, ast.Attribute):
        parts.append(e.attr)
        e = e.value
    if isinstance(e, ast.Name):
        parts.append(e.id)
        return ".".join(reversed(parts))
    return None


def _tr_move(tree):
    """_move_directories(replace, source_directory, dest_directory, _temp_dir) -> op kinds issued when `replace`"""
    import ast
    fn = next((n for n in ast.walk(tree) if isinstance(n, ast.FunctionDef) and n.name == "_move_directories"), None)
    if fn is None or [a.arg for a in fn.args.args] != ["replace", "source_directory", "dest_directory", "_temp_dir"]:
        raise Untranslatable("_move_directories: signature")
    branches = {"replace": None}
    for st in fn.body:
        if isinstance(st, ast.Expr) and isinstance(st.value, ast.Constant):
            continue
        if not (isinstance(st, ast.If) and isinstance(st.test, ast.Name) and not st.orelse):
            raise Untranslatable("_move_directories: statement " + type(st).__name__)
        ops = []
        for b in st.body:
            if not (isinstance(b, ast.Expr) and isinstance(b.value, ast.Call)):
                raise Untranslatable("_move_directories: body " + type(b).__name__)
            name = _call_name(b.value.func)
            args = [a.id if isinstance(a, ast.Name) else "?" for a in b.value.args]
            if name == "print":
                continue
            if name == "shutil.rmtree" and args == ["source_directory"]:
                ops.append("rm")
            elif name == "shutil.move" and args == ["dest_directory", "source_directory"]:
                ops.append("mv")
            elif name == "_temp_dir.cleanup" and not args and st.test.id == "_temp_dir":
                continue          # removes the (by then empty) TemporaryDirectory; not a data directory
            else:
                raise Untranslatable(f"_move_directories: call {name}({', '.join(args)})")
        if st.test.id == "replace":
            if branches["replace"] is not None:
                raise Untranslatable("_move_directories: two `if replace`")
            branches["replace"] = ops
        elif ops:
            raise Untranslatable(f"_move_directories: data directories touched under `if {st.test.id}`")
    ops = branches["replace"] or []
    return "[" + ", ".join(f'"{o}"' for o in ops) + "]"


def _tr_order(tree):
    """statement order inside rechunker(): (guard raises ValueError before the saver exists, move after save)"""
    import ast
    fn = next((n for n in ast.walk(tree) if isinstance(n, ast.FunctionDef) and n.name == "rechunker"), None)
    if fn is None:
        raise Untranslatable("rechunker not found")

    def calls(st):
        return {_call_name(c.func) for c in ast.walk(st) if isinstance(c, ast.Call)} - {None}

    def is_guard(st):
        if not (isinstance(st, ast.If) and isinstance(st.test, ast.Compare) and len(st.test.ops) == 1
                and isinstance(st.test.ops[0], ast.Eq) and not st.orelse):
            return False
        sides = [st.test.left, st.test.comparators[0]]
        if not all(isinstance(x, ast.Call) and _call_name(x.func) == "os.path.realpath" and len(x.args) == 1
                   and isinstance(x.args[0], ast.Name) for x in sides):
            return False
        if {x.args[0].id for x in sides} != {"dest_directory", "source_directory"}:
            return False
        r = st.body[-1]
        exc = r.exc.func if isinstance(r, ast.Raise) and isinstance(r.exc, ast.Call) else getattr(r, "exc", None)
        return isinstance(r, ast.Raise) and isinstance(exc, ast.Name) and exc.id == "ValueError" and len(st.body) == 1

    idx = {"guard": None, "saver": None, "exhaust": None, "move": None, "dest": None}
    for i, st in enumerate(fn.body):
        if isinstance(st, ast.FunctionDef):
            continue
        c = calls(st)
        if is_guard(st) and idx["guard"] is None:
            idx["guard"] = i
        if "backend._saver" in c and idx["saver"] is None:
            idx["saver"] = i
        if "_exhaust_generator" in c and idx["exhaust"] is None:
            idx["exhaust"] = i
        if "_move_directories" in c and idx["move"] is None:
            idx["move"] = i
        if "_get_dest_and_tempdir" in c:
            idx["dest"] = i          # the LAST (re)definition of dest_directory must precede the guard
    if idx["saver"] is None or idx["exhaust"] is None or idx["move"] is None:
        raise Untranslatable("rechunker: saver / _exhaust_generator / _move_directories call not found at top level")
    guard = idx["guard"] is not None and idx["dest"] is not None and idx["dest"] < idx["guard"] < idx["saver"]
    move_after = idx["saver"] < idx["exhaust"] < idx["move"]
    return ("true" if guard else "false"), ("true" if move_after else "false")


def regen(ctx):
    """Regenerate Generated/RechunkDecisions.lean from the current source of strax/context.py (merge_per_chunk_storage)
    and strax/storage/file_rechunker.py (_move_directories, rechunker)."""
    import ast
    from lib.engine import LEAN, REPO
    out = LEAN / "StraxModel" / "Generated" / f"{GENERATED_NAME}.lean"
    parts = {}
    failed = False
    for name, path, f in [("merge_per_chunk_storage", REPO / "strax" / "context.py", _tr_merge_key),
                          ("_move_directories", REPO / "strax" / "storage" / "file_rechunker.py", _tr_move),
                          ("rechunker", REPO / "strax" / "storage" / "file_rechunker.py", _tr_order)]:
        try:
            parts[name] = f(ast.parse(path.read_text()))
            ctx.translator[name] = "translated"
        except (Untranslatable, SyntaxError, OSError) as e:
            failed = True
            ctx.translator[name] = f"untranslatable: {e}"
            ctx.violation(f"translator:{name}", "translator", None, {"reason": str(e)},
                          f"translator regenerates Generated.{GENERATED_NAME} from the source of {name}", False)
    if failed:
        return
    guard, move_after = parts["rechunker"]
    text = ("-- GENERATED by checks/props/c16.py:regen from /repo/strax/context.py (merge_per_chunk_storage) and\n"
            "-- /repo/strax/storage/file_rechunker.py (_move_directories, rechunker). Do not edit.\n"
            "import StraxModel.Model.Basic\n"
            "namespace Strax.Generated\n"
            "/-- `_chunk_number = None` (plain key) iff this holds; lo = min(combined), hi = max(combined), n = len(chunks) -/\n"
            f"def mergeDropsChunkNumber (lo hi n : Int) : Bool :=\n  decide {parts['merge_per_chunk_storage']}\n"
            "/-- directory-level operations of `_move_directories`, in order -/\n"
            f"def moveDirectories (replace : Bool) : List String :=\n  if replace then {parts['_move_directories']} else []\n"
            "/-- `rechunker`: realpath(dest) == realpath(source) raises ValueError after the destination is resolved and before the saver is created -/\n"
            f"def destGuardBeforeSaver : Bool := {guard}\n"
            "/-- `rechunker`: saver created, then the generator exhausted, then `_move_directories` -/\n"
            f"def moveAfterSave : Bool := {move_after}\n"
            "end Strax.Generated\n")
    if not out.exists() or out.read_text() != text:
        out.write_text(text)


# ----------------------------------------------------------------------------- scratch space
_ROOT = None


def scratch_root():
    global _ROOT
    if _ROOT is None:
        _ROOT = tempfile.mkdtemp(prefix="verif_c16_", dir=os.environ.get("TMPDIR") or None)
        pid = os.getpid()
        atexit.register(lambda: shutil.rmtree(_ROOT, ignore_errors=True) if os.getpid() == pid else None)
    return _ROOT


@contextlib.contextmanager
def quiet():
    with warnings.catch_warnings():
        warnings.simplefilter("ignore")
        with contextlib.redirect_stdout(io.StringIO()), contextlib.redirect_stderr(io.StringIO()):
            yield


# ----------------------------------------------------------------------------- the tiny real plugins
def mk_classes(case):
    """the plugin classes of one case; class names are constant so that lineages (hence directory names) are stable"""
    enc = case["enc"]
    dt = c03.dtype_of(enc)
    layout = [(a, b, [tuple(r) for r in rows]) for a, b, rows in case["layout"]]

    class C16Src(strax.Plugin):
        provides = SRC
        depends_on = ()
        dtype = dt
        data_kind = KIND
        rechunk_on_save = False
        __version__ = "1"
        compressor = case.get("src_comp", "blosc")
        chunk_target_size_mb = sl.target_mb(case.get("src_target", 1000), dt.itemsize)
        rechunk_on_load = bool(case.get("rol", False))
        chunk_source_size_mb = sl.target_mb(case.get("source_size", 1000), dt.itemsize)

        def is_ready(self, chunk_i):
            return chunk_i < len(layout)

        def source_finished(self):
            return True

        def compute(self, chunk_i):
            a, b, rows = layout[chunk_i]
            return self.chunk(start=a, end=b, data=c03.mk_array(rows, enc))

    m = int(case.get("mod", 3))

    class C16Tgt(strax.Plugin):
        provides = TGT
        depends_on = (SRC,)
        dtype = dt
        data_kind = KIND
        rechunk_on_save = bool(case.get("ros", True))
        __version__ = "1"
        compressor = case.get("tgt_comp", "blosc")
        chunk_target_size_mb = sl.target_mb(case.get("tgt_target", 1000), dt.itemsize)

        def compute(self, things):
            return things[things["id"] % m != 0].copy()

    return [C16Src, C16Tgt]


def new_context(case, dirs):
    return strax.Context(storage=[strax.DataDirectory(d) for d in dirs], register=mk_classes(case), allow_multiprocess=False,
                         timeout=60)


def raw_layout(case, data_type=SRC, target_key="src_target"):
    return [sl.raw_chunk(data_type=data_type, kind=KIND, run_id=RUN, start=a, end=b, rows=rows, target=case.get(target_key, 1000))
            for a, b, rows in case["layout"]]


def all_rows(case):
    return [tuple(r) for _a, _b, rows in case["layout"] for r in rows]


def orig_bytes(case):
    return c03.mk_array(all_rows(case), case["enc"]).tobytes()


# ----------------------------------------------------------------------------- directories
def snapshot(dirname):
    """listing + content hashes of a directory, or None"""
    if not os.path.isdir(dirname):
        return None
    out = {}
    for fn in sorted(os.listdir(dirname)):
        p = os.path.join(dirname, fn)
        if os.path.isfile(p):
            with open(p, "rb") as f:
                out[fn] = hashlib.sha1(f.read()).hexdigest()
        else:
            out[fn] = "<dir>"
    return out


def read_dir(dirname, dt):
    """(md, md_name, files) with the compressor taken from the directory's own metadata; None if the directory is absent"""
    if not os.path.isdir(dirname):
        return None
    prefix = strax.storage.files.dirname_to_prefix(dirname)
    md_name = strax.RUN_METADATA_PATTERN % prefix
    with open(os.path.join(dirname, md_name)) as f:
        comp = json.load(f)["compressor"]
    return c03.read_dir(dirname, comp, dt)


def show_meta(md):
    """== Driver/C16.lean `showMeta16`: c03's canonical metadata without the `filesize` flag (checked by the oracle only)"""
    o = c03._o
    infos = ["/".join([o(c.get("chunk_i")), o(c.get("n")), o(c.get("start")), o(c.get("end")), o(c.get("run_id")),
                       c03.show_runs_sorted(c.get("subruns")), o(c.get("first_time")), o(c.get("first_endtime")), o(c.get("last_time")),
                       o(c.get("last_endtime")), o(c.get("filename")), o(c.get("nbytes"))]) for c in md.get("chunks", [])]
    return (f"start={o(md.get('start'))} end={o(md.get('end'))} we={int('writing_ended' in md)} exc={int('exception' in md)} "
            f"chunks=" + (";".join(infos) if infos else "-"))


def show_dir(d):
    if d is None:
        return "absent"
    md, _name, files = d
    return f"{show_meta(md)} ## {c03.show_files(files)}"


def load_chunks(loader_iter):
    out = []
    for c in loader_iter:
        if isinstance(c, Future):
            c = c.result()
        out.append(c)
    return out


def show_loaded(f):
    """f() -> list of chunks; canonical `ok …` / `err Kind`"""
    try:
        chunks = f()
    except Exception as e:  # noqa: BLE001
        return "err " + sl.err_name(e), None
    return "ok " + (" ".join(sl.show_chunk(c) for c in chunks) if chunks else "-"), chunks


def attempt(msgs, what, f):
    """run a call of the real code inside the oracle part of an adapter; a failure is a message, never a crash"""
    try:
        return f()
    except Exception as e:  # noqa: BLE001
        msgs.append(f"{what} failed: {type(e).__name__}: {str(e)[:160]}")
        return None


def meta_msgs(msgs, md, files, dt, dirname, data_type, comp, serial=True, what=""):
    """metadata-versus-files consistency of one directory (c03's oracle), prefixed"""
    sub = []
    c03.oracle_meta(sub, dict(run_id=RUN, data_type=data_type, kind=KIND, comp=comp, save_exec=0 if serial else 1), md, files, dt, dirname)
    msgs.extend(f"{what}{m}" for m in sub)


def bytes_of_chunks(chunks, dt):
    return c03.raw_bytes([c.data for c in chunks], dt)


def boundary_msgs(msgs, case, chunks, what, only_split=False):
    """range, contiguity and the boundary rule of a re-chunked stream against the stored layout"""
    lay = case["layout"]
    if not chunks:
        msgs.append(f"{what}: nothing loaded")
        return
    if (chunks[0].start, chunks[-1].end) != (lay[0][0], lay[-1][1]):
        msgs.append(f"{what}: overall time range changed from [{lay[0][0]}, {lay[-1][1]}) to [{chunks[0].start}, {chunks[-1].end})")
    if any(a.end != b.start for a, b in zip(chunks[:-1], chunks[1:])):
        msgs.append(f"{what}: loaded chunks are not contiguous")
    rows = all_rows(case)
    old = {a for a, _b, _r in lay} | {lay[-1][1]}
    for t in [c.start for c in chunks] + [chunks[-1].end]:
        if t not in old and any(a <= t <= b for a, b, _k in rows):
            msgs.append(f"{what}: new chunk boundary {t} is neither an old boundary nor strictly inside a row-free gap")
    if only_split and not old <= ({c.start for c in chunks} | {chunks[-1].end}):
        msgs.append(f"{what}: a stored chunk boundary disappeared although rechunk-on-load only splits")
    for c in chunks:
        if any(not (c.start <= t < e <= c.end) for t, e, _k in sl.rows_of(c.data)):
            msgs.append(f"{what}: a loaded row lies outside its chunk")


_SIDE = {}
OBS = Counter()      # observations outside the property's quantifier, reported as an evidence note


def case_key(case):
    return json.dumps(case, sort_keys=True)


def hdr_op(case, data_type, target, pfx):
    return [RUN, data_type, KIND, str(target), str(c03.dtype_of(case["enc"]).itemsize), pfx]


def pfx_for(st, data_type, chunk_number=None):
    return f"{data_type}-{st.key_for(RUN, data_type, chunk_number=chunk_number).lineage_hash}"


def dir_for(st, base, data_type, chunk_number=None):
    return os.path.join(base, str(st.key_for(RUN, data_type, chunk_number=chunk_number)))


# ============================================================================= 1. copy_to_frontend
def impl_copy(case):
    side = _SIDE[case_key(case)] = {"msgs": []}
    msgs = side["msgs"]
    dt = c03.dtype_of(case["enc"])
    root = tempfile.mkdtemp(dir=scratch_root())
    a_dir = os.path.join(root, "A")
    nt = int(case.get("ntargets", 1))
    t_dirs = [os.path.join(root, f"B{k}") for k in range(nt)]
    try:
        with quiet():
            st = new_context(case, [a_dir])
            st.make(RUN, SRC, processor=case["proc"])
            side["pfx"] = pfx_for(st, SRC)
            src_dir = dir_for(st, a_dir, SRC)
            before = snapshot(src_dir)
            for d_ in t_dirs:
                st.storage.append(strax.DataDirectory(d_))
            try:
                # one explicit target (index 1) or ALL frontends that do not have the data yet (target_frontend_id=None)
                st.copy_to_frontend(RUN, SRC, target_frontend_id=1 if case.get("explicit", nt == 1) else None,
                                    target_compressor=case["dst_comp"], rechunk=bool(case["rechunk"]),
                                    rechunk_to_mb=sl.target_mb(case["rechunk_to"], dt.itemsize))
            except Exception as e:  # noqa: BLE001
                msgs.append(f"copy_to_frontend of a law-abiding stored layout failed: {type(e).__name__}: {e}")
                return "err " + sl.err_name(e)
            if snapshot(src_dir) != before:
                msgs.append("source directory changed by copy_to_frontend")
            outs = []
            for k, b_dir in enumerate(t_dirs):
                what = f"destination {k}: "
                dst_dir = dir_for(st, b_dir, SRC)
                d = read_dir(dst_dir, dt)
                if d is None:
                    msgs.append(what + "directory does not exist after copy_to_frontend")
                    outs.append("ok absent")
                    continue
                md, _n, files = d
                comp = case["dst_comp"] or case["src_comp"]
                meta_msgs(msgs, md, files, dt, dst_dir, SRC, comp, what=what)
                exp_t = case["rechunk_to"] if case["rechunk"] else case["src_target"]
                if sl.target_rows(md.get("chunk_target_size_mb", 0), dt.itemsize) != exp_t:
                    msgs.append(what + f"chunk_target_size_mb = {md.get('chunk_target_size_mb')} is not the one in force ({exp_t} rows)")
                # what a context that only knows this destination loads
                st_b = new_context(case, [b_dir])
                loaded_s, chunks = show_loaded(lambda: load_chunks(st_b.storage[0].loader(st_b.key_for(RUN, SRC))))
                if chunks is None:
                    msgs.append(what + f"loading the copy failed: {loaded_s}")
                else:
                    arr = attempt(msgs, what + "get_array of the copy", lambda: st_b.get_array(RUN, SRC, progress_bar=False))
                    if arr is not None and (arr.tobytes() != orig_bytes(case) or bytes_of_chunks(chunks, dt) != orig_bytes(case)):
                        msgs.append(what + "rows loaded from the copy are not bit-identical to the original rows")
                    if not case["rechunk"]:
                        if [(c.start, c.end) for c in chunks] != [(a, b) for a, b, _r in case["layout"]]:
                            msgs.append(what + "chunk boundaries changed by a copy without rechunking")
                    else:
                        boundary_msgs(msgs, case, chunks, what + "copy with rechunk")
                outs.append(f"ok {show_dir(d)} ## {loaded_s}")
            return " @@ ".join(outs)
    finally:
        shutil.rmtree(root, ignore_errors=True)


def op_copy(case):
    pfx = _SIDE.get(case_key(case), {}).get("pfx", "src-x")
    return " ".join(["c16.copy", str(int(case.get("ntargets", 1))), str(int(case["rechunk"])), str(case["rechunk_to"]),
                     *hdr_op(case, SRC, case["src_target"], pfx), *[sl.raw_chunk_op(rc) for rc in raw_layout(case)]])


# ============================================================================= 2. the stand-alone rechunker
class _Proxy:
    def __init__(self, real, overrides):
        object.__setattr__(self, "_real", real)
        object.__setattr__(self, "_ov", overrides)

    def __getattr__(self, name):
        ov = object.__getattribute__(self, "_ov")
        if name in ov:
            return ov[name]
        return getattr(object.__getattribute__(self, "_real"), name)


@contextlib.contextmanager
def traced_fs(events, src_dir, before, trace_writes):
    """rebinding of os / shutil / save_file names inside strax; every directory-level operation is recorded together with
    whether the source directory is (still) byte-identical to what it was"""
    lock = threading.Lock()
    files_mod = strax.storage.files
    rech_mod = strax.storage.file_rechunker

    def rec(kind, **extra):
        with lock:
            events.append(dict(kind=kind, intact=snapshot(src_dir) == before, **extra))

    def makedirs(path, *a, **k):
        if str(path).endswith("_temp"):
            rec("init")
        return os.makedirs(path, *a, **k)

    def rename(a, b, *x, **k):
        if str(a).endswith("_temp"):
            r = os.rename(a, b, *x, **k)
            rec("close")
            return r
        return os.rename(a, b, *x, **k)

    def rmtree_files(path, *a, **k):
        rec("init-rm", same_as_source=os.path.realpath(path) == os.path.realpath(src_dir))
        return shutil.rmtree(path, *a, **k)

    def rmtree_rech(path, *a, **k):
        dest = events_dest[0]
        complete = False
        if dest and os.path.isdir(dest) and not os.path.exists(dest + "_temp"):
            try:
                prefix = files_mod.dirname_to_prefix(dest)
                with open(os.path.join(dest, strax.RUN_METADATA_PATTERN % prefix)) as f:
                    md = json.load(f)
                complete = "writing_ended" in md and "exception" not in md and all(
                    c["n"] == 0 or os.path.isfile(os.path.join(dest, c["filename"])) for c in md["chunks"])
            except Exception:  # noqa: BLE001
                complete = False
        rec("rm", dest_complete=complete)
        return shutil.rmtree(path, *a, **k)

    def move(a, b, *x, **k):
        r = shutil.move(a, b, *x, **k)
        rec("mv")
        return r

    real_save_file = strax.save_file

    def save_file(f, *a, **k):
        r = real_save_file(f, *a, **k)
        rec("w")
        return r

    events_dest = [None]
    old = (files_mod.os, files_mod.shutil, rech_mod.shutil, strax.save_file)
    files_mod.os = _Proxy(os, dict(makedirs=makedirs, rename=rename))
    files_mod.shutil = _Proxy(shutil, dict(rmtree=rmtree_files))
    rech_mod.shutil = _Proxy(shutil, dict(rmtree=rmtree_rech, move=move))
    if trace_writes:
        strax.save_file = save_file
    try:
        yield events_dest
    finally:
        files_mod.os, files_mod.shutil, rech_mod.shutil, strax.save_file = old


def impl_rechunk(case):
    side = _SIDE[case_key(case)] = {"msgs": []}
    msgs = side["msgs"]
    dt = c03.dtype_of(case["enc"])
    root = tempfile.mkdtemp(dir=scratch_root())
    a_dir, b_dir = os.path.join(root, "A"), os.path.join(root, "B")
    par = {"serial": False, "thread": "thread", "process": "process"}[case["parallel"]]
    try:
        with quiet():
            st = new_context(case, [a_dir])
            st.make(RUN, SRC)
            side["pfx"] = pfx_for(st, SRC)
            src_dir = dir_for(st, a_dir, SRC)
            before = snapshot(src_dir)
            where = case["dest"]          # "new" | "none" (replace into a temp dir) | "parent" | "self"
            dest_arg = {"new": b_dir, "none": None, "parent": a_dir, "self": src_dir}[where]
            aliased = where in ("parent", "self")
            dst_dir = os.path.join(b_dir, os.path.basename(src_dir)) if where == "new" else None
            events = []
            err = None
            with traced_fs(events, src_dir, before, trace_writes=case["parallel"] != "process") as dest_box:
                dest_box[0] = dst_dir
                if where == "none":
                    # the temporary destination is only known inside rechunker(); find it from the close event
                    real_mkdtemp = tempfile.TemporaryDirectory

                    class TD(real_mkdtemp):
                        def __init__(self, *a, **k):
                            super().__init__(*a, **k)
                            dest_box[0] = os.path.join(self.name, os.path.basename(src_dir))
                    strax.storage.file_rechunker.tempfile = _Proxy(tempfile, dict(TemporaryDirectory=TD))
                try:
                    strax.rechunker(source_directory=src_dir, dest_directory=dest_arg, replace=bool(case["replace"]),
                                    compressor=case["dst_comp"], target_size_mb=None if case["target"] is None else sl.target_mb(
                                        case["target"], dt.itemsize), rechunk=bool(case["rechunk"]), progress_bar=True,
                                    parallel=par, max_workers=2, _timeout=60)
                except Exception as e:  # noqa: BLE001
                    err = sl.err_name(e)
                    side["err_text"] = f"{type(e).__name__}: {e}"
                finally:
                    strax.storage.file_rechunker.tempfile = tempfile
            kinds = [e["kind"] for e in events if e["kind"] != "init-rm"]
            side.update(events=events, err=err)
            after = snapshot(src_dir)
            src_state = read_dir(src_dir, dt)
            dst_state = read_dir(dst_dir, dt) if dst_dir else None
            tmp_exists = bool(dst_dir and os.path.exists(dst_dir + "_temp")) or os.path.exists(src_dir + "_temp")
            result_dir = src_dir if (case["replace"] or aliased) else dst_dir
            loaded_s, chunks = ("absent", None) if not os.path.isdir(result_dir) else show_loaded(
                lambda: load_chunks(strax.FileSytemBackend().loader(result_dir)))
            # ---- the property's own wording
            ever_changed = any(not e["intact"] for e in events) or after != before
            if not case["replace"]:
                if ever_changed:
                    first = next((e["kind"] for e in events if not e["intact"]), "end")
                    msgs.append(f"source directory modified (first seen at operation '{first}') although replace was not requested"
                                + (" [destination resolves to the source directory]" if aliased else ""))
            else:
                for e in events:
                    if e["kind"] == "rm":
                        if not e["intact"]:
                            msgs.append("source directory was modified before it was removed for replacement")
                        if not e.get("dest_complete"):
                            msgs.append("source removed for replacement before a complete destination existed")
                        break
                    if not e["intact"]:
                        msgs.append(f"source directory modified at operation '{e['kind']}', before the destination was complete"
                                    + (" [destination resolves to the source directory]" if aliased else ""))
                        break
            if err is not None and not aliased:
                msgs.append(f"rechunker failed on a law-abiding stored layout: {side['err_text']}")
            if err is None:
                if chunks is None:
                    msgs.append(f"loading the rewritten data failed: {loaded_s}")
                else:
                    if bytes_of_chunks(chunks, dt) != orig_bytes(case):
                        msgs.append("rows loaded from the rewritten data are not bit-identical to the original rows")
                    if case["rechunk"]:
                        boundary_msgs(msgs, case, chunks, "rechunker")
                    elif [(c.start, c.end) for c in chunks] != [(a, b) for a, b, _r in case["layout"]]:
                        msgs.append("chunk boundaries changed although rechunk=False")
                res = read_dir(result_dir, dt)
                if res is not None:
                    md, _n, files = res
                    meta_msgs(msgs, md, files, dt, result_dir, SRC, case["dst_comp"] or case["src_comp"],
                              serial=case["parallel"] == "serial", what="rewritten data: ")
                    exp_t = case["target"] if case["target"] is not None else case["src_target"]
                    if sl.target_rows(md.get("chunk_target_size_mb", 0), dt.itemsize) != exp_t:
                        msgs.append(f"chunk_target_size_mb = {md.get('chunk_target_size_mb')} is not the one in force ({exp_t} rows)")
                if case["replace"] and where == "new" and dst_state is not None:
                    msgs.append("destination directory still exists after it was moved over the source")
                if tmp_exists:
                    msgs.append("a _temp directory is left behind")
            return (f"{' '.join(kinds)} ## e={err or '-'} ## src={show_dir(src_state)} ## dst={show_dir(dst_state)} ## "
                    f"tmp={'present' if tmp_exists else 'absent'} ## {loaded_s}")
    finally:
        shutil.rmtree(root, ignore_errors=True)


def op_rechunk(case):
    pfx = _SIDE.get(case_key(case), {}).get("pfx", "src-x")
    return " ".join(["c16.rechunk", str(int(case["replace"])), str(int(case["rechunk"])), "-" if case["target"] is None else str(case["target"]),
                     str(int(case["dest"] in ("parent", "self"))), *hdr_op(case, SRC, case["src_target"], pfx),
                     *[sl.raw_chunk_op(rc) for rc in raw_layout(case)]])


def strip_writes(model_out):
    head, sep, rest = model_out.partition(" ## ")
    return " ".join(t for t in head.split(" ") if t != "w") + sep + rest


# ============================================================================= 3. rechunk on load
def impl_rol(case):
    side = _SIDE[case_key(case)] = {"msgs": []}
    msgs = side["msgs"]
    dt = c03.dtype_of(case["enc"])
    root = tempfile.mkdtemp(dir=scratch_root())
    try:
        with quiet():
            st = new_context(case, [root])
            st.make(RUN, SRC)
            side["pfx"] = pfx_for(st, SRC)
            src_dir = dir_for(st, root, SRC)
            before = snapshot(src_dir)
            if case["via"] == "context":
                f = lambda: list(st.get_iter(RUN, SRC, progress_bar=False, processor=case["proc"], max_workers=case["workers"]))  # noqa: E731
            else:
                f = lambda: load_chunks(st.storage[0].loader(st.key_for(RUN, SRC), rechunk=True,  # noqa: E731
                                                             source_size_mb=sl.target_mb(case["source_size"], dt.itemsize)))
            loaded_s, chunks = show_loaded(f)
            if snapshot(src_dir) != before:
                msgs.append("stored data changed by loading it with rechunk_on_load")
            if chunks is None:
                side["load_err"] = loaded_s
                msgs.append(f"loading with rechunk_on_load failed: {loaded_s} (processor={case['proc']}, max_workers={case['workers']}, via={case['via']})")
            else:
                if bytes_of_chunks(chunks, dt) != orig_bytes(case):
                    msgs.append("rows loaded with rechunk_on_load are not bit-identical to the stored rows")
                boundary_msgs(msgs, case, chunks, "rechunk on load", only_split=True)
            return loaded_s
    finally:
        shutil.rmtree(root, ignore_errors=True)


def op_rol(case):
    pfx = _SIDE.get(case_key(case), {}).get("pfx", "src-x")
    return " ".join(["c16.rol", str(case["source_size"]), *hdr_op(case, SRC, case["src_target"], pfx),
                     *[sl.raw_chunk_op(rc) for rc in raw_layout(case)]])


# ============================================================================= 4. per-chunk make + merge
def group_numbers(sizes):
    out, k = [], 0
    for n in sizes:
        out.append(list(range(k, k + n)))
        k += n
    return out


def is_consecutive(l):
    return all(b - a == 1 for a, b in zip(l[:-1], l[1:]))


def impl_merge(case):
    side = _SIDE[case_key(case)] = {"msgs": []}
    msgs = side["msgs"]
    dt = c03.dtype_of(case["enc"])
    root = tempfile.mkdtemp(dir=scratch_root())
    a_dir, c_dir = os.path.join(root, "A"), os.path.join(root, "C")
    groups = group_numbers(case["sizes"])
    sel = case["sel"]
    proper = sel == list(range(len(groups)))
    try:
        with quiet():
            st = new_context(case, [a_dir])
            st.make(RUN, SRC)
            src_dir = dir_for(st, a_dir, SRC)
            before = snapshot(src_dir)
            side["spfx"] = pfx_for(st, SRC)
            side["jpfx"] = [pfx_for(st, TGT, {SRC: g}) for g in groups]
            combined = [i for k in sel for i in groups[k]]
            n_chunks = len(case["layout"])
            plain = bool(combined) and min(combined) == 0 and max(combined) == n_chunks - 1
            if plain:
                side["tpfx"] = pfx_for(st, TGT)
            elif is_consecutive(combined) and combined:
                side["tpfx"] = pfx_for(st, TGT, {SRC: combined})
            else:
                side["tpfx"] = "tgt-x"
            for g in groups:
                try:
                    st.make(RUN, TGT, chunk_number={SRC: g}, processor=case["proc"], max_workers=case["workers"])
                except Exception as e:  # noqa: BLE001
                    msgs.append(f"per-chunk make of chunks {g} failed: {type(e).__name__}: {e}")
                    return "err-job " + sl.err_name(e)
            if st.is_stored(RUN, TGT):
                msgs.append("the target counts as stored after per-chunk jobs only (per-chunk key equals the plain key)")
            keys = [str(st.key_for(RUN, TGT, chunk_number={SRC: g})) for g in groups] + [str(st.key_for(RUN, TGT))]
            if len(set(keys)) != len(keys):
                msgs.append(f"per-chunk keys are not pairwise distinct and distinct from the merged key: {keys}")
            try:
                st.merge_per_chunk_storage(RUN, TGT, SRC, chunk_number_group=[groups[k] for k in sel], rechunk=bool(case["rechunk"]),
                                           rechunk_to_mb=sl.target_mb(case["rechunk_to"], dt.itemsize), target_compressor=case["dst_comp"])
            except Exception as e:  # noqa: BLE001
                if proper:
                    msgs.append(f"merge_per_chunk_storage of a proper grouping failed: {type(e).__name__}: {e}")
                return "err " + sl.err_name(e)
            if snapshot(src_dir) != before:
                msgs.append("the dependency's stored data changed during per-chunk processing / merging")
            key_s = "plain" if plain else "+".join(map(str, combined))
            if not plain and attempt(msgs, "is_stored", lambda: st.is_stored(RUN, TGT)):
                msgs.append(f"per-chunk results {combined} of {n_chunks} dependency chunks (not starting at chunk 0 or not reaching the last one) "
                            "were stored under the plain key of the target: the truncated data passes for the complete data type")
            if not plain and not is_consecutive(combined):
                msgs.append(f"merge_per_chunk_storage accepted the non-consecutive selection {combined} without an error")
                return f"ok key={key_s} ## unknown"
            cn = None if plain else {SRC: combined}
            t_dir = dir_for(st, a_dir, TGT, cn)
            d = read_dir(t_dir, dt)
            if d is None:
                msgs.append("merged data directory does not exist")
                return f"ok key={key_s} ## absent"
            md, _n, files = d
            loaded_s, chunks = show_loaded(lambda: load_chunks(st.storage[0].loader(st.key_for(RUN, TGT, chunk_number=cn))))
            if not proper and plain and chunks is not None:
                # observation (outside the quantifier): a selection that is not the ordered partition of all chunks but passes the
                # min/max completeness test is stored under the plain key; count how often the stored rows are NOT the direct ones
                OBS["odd selections stored under the plain key"] += 1
                st_o = new_context(case, [c_dir])
                direct_o = attempt([], "direct", lambda: (st_o.make(RUN, SRC), st_o.get_array(RUN, TGT, progress_bar=False))[1])
                if direct_o is not None and bytes_of_chunks(chunks, dt) != direct_o.tobytes():
                    OBS["… of which the stored rows differ from the directly made data (hole or wrong order)"] += 1
            if proper:
                if not st.is_stored(RUN, TGT):
                    msgs.append("target is not stored after merging all per-chunk results")
                meta_msgs(msgs, md, files, dt, t_dir, TGT, md.get("compressor"), what="merged data: ")
                # directly made, in a directory of its own
                st_c = new_context(case, [c_dir])
                st_c.make(RUN, SRC)
                direct = st_c.get_array(RUN, TGT, progress_bar=False)
                side["direct_n"] = len(direct)
                if chunks is None:
                    msgs.append(f"loading the merged data failed: {loaded_s}")
                else:
                    if bytes_of_chunks(chunks, dt) != direct.tobytes():
                        msgs.append("rows of the merged per-chunk results are not bit-identical to the directly made data")
                    merged_arr = attempt(msgs, "get_array of the merged data", lambda: st.get_array(RUN, TGT, progress_bar=False))
                    if merged_arr is not None and merged_arr.tobytes() != direct.tobytes():
                        msgs.append("get_array of the merged data differs from the directly made data")
                    lay = case["layout"]
                    if (chunks[0].start, chunks[-1].end) != (lay[0][0], lay[-1][1]):
                        msgs.append("merged data does not cover the time range of the dependency")
                    if any(a.end != b.start for a, b in zip(chunks[:-1], chunks[1:])):
                        msgs.append("merged chunks are not contiguous")
            return f"ok key={key_s} ## {show_dir(d)} ## {loaded_s}"
    finally:
        shutil.rmtree(root, ignore_errors=True)


def op_merge(case):
    side = _SIDE.get(case_key(case), {})
    n = len(case["sizes"])
    return " ".join(["c16.merge", str(int(case["ros"])), str(int(case["rechunk"])), str(case["rechunk_to"]), str(case["mod"]),
                     str(c03.dtype_of(case["enc"]).itemsize), RUN, TGT,
                     str(case["tgt_target"]), side.get("tpfx", "tgt-x"), "+".join(map(str, case["sizes"])),
                     ",".join(side.get("jpfx", [f"tgt-j{k}" for k in range(n)])), "+".join(map(str, case["sel"])) or "-",
                     str(case["src_target"]), side.get("spfx", "src-x"), *[sl.raw_chunk_op(rc) for rc in raw_layout(case)]])


# ============================================================================= 5. chunk_number in the lineage
DT_K = sl.DT_END


def key_classes():
    def mk(name, deps):
        return type("C16K" + name, (strax.Plugin,), dict(provides=name, depends_on=tuple(deps), dtype=DT_K, data_kind="kk", __version__="1",
                                                        compute=(lambda self, chunk_i: None) if not deps else (lambda self, kk: kk)))
    return [mk("ka", ()), mk("kb", ("ka",)), mk("kc", ("kb",)), mk("kd", ("ka",)), mk("ke", ("kc",))]


KEY_GRAPH = {"ka": [], "kb": ["ka"], "kc": ["kb"], "kd": ["ka"], "ke": ["kc"]}
_KEY_CTX = []


def key_ctx():
    if not _KEY_CTX:
        _KEY_CTX.append(strax.Context(storage=[], register=key_classes()))
    return _KEY_CTX[0]


def lineage_order(st, target):
    return list(st.lineage(RUN, target).keys())


def impl_keys(case):
    side = _SIDE[case_key(case)] = {"msgs": []}
    st = key_ctx()
    target = case["target"]
    side["order"] = lineage_order(st, target)
    seen, toks, plain_key, tagged = [], [], None, {}
    for req in case["reqs"]:
        try:
            with quiet():
                k = st.key_for(RUN, target, chunk_number=None if req is None else {d: list(g) for d, g in req})
            h = k.lineage_hash
        except Exception as e:  # noqa: BLE001
            toks.append(sl.err_name(e))
            continue
        if h not in seen:
            seen.append(h)
        toks.append(str(seen.index(h)))
        if req is None:
            plain_key = h
        else:
            tagged[json.dumps(req)] = h
    # the property's wording: a request that names a direct dependency of some plugin in the lineage gives a key different
    # from the plain one, and two such requests with different numbers give different keys
    if plain_key is None:
        plain_key = st.key_for(RUN, target).lineage_hash
    deps_in_lineage = {d for p in side["order"] for d in KEY_GRAPH[p]}
    for rj, h in tagged.items():
        req = json.loads(rj)
        if any(d in deps_in_lineage for d, _g in req) and h == plain_key:
            side["msgs"].append(f"per-chunk key for {req} equals the plain key of {target}")
    items = list(tagged.items())
    for (r1, h1), (r2, h2) in itertools.combinations(items, 2):
        e1 = sorted((d, g) for d, g in json.loads(r1) if d in deps_in_lineage)
        e2 = sorted((d, g) for d, g in json.loads(r2) if d in deps_in_lineage)
        if e1 != e2 and h1 == h2:
            side["msgs"].append(f"different per-chunk requests {r1} / {r2} give the same key")
    return "ok " + " ".join(toks)


def op_keys(case):
    st = key_ctx()
    order = lineage_order(st, case["target"])
    entries = ",".join(f"{p}:{'+'.join(KEY_GRAPH[p]) or '-'}" for p in order)
    reqs = ["-" if r is None else "&".join(f"{d}={'+'.join(map(str, g)) or '-'}" for d, g in r) for r in case["reqs"]]
    return " ".join(["c16.keys", entries, *reqs])


# ============================================================================= dispatch
IMPL = {"copy": impl_copy, "rechunk": impl_rechunk, "rol": impl_rol, "merge": impl_merge, "keys": impl_keys}
OPS = {"copy": op_copy, "rechunk": op_rechunk, "rol": op_rol, "merge": op_merge, "keys": op_keys}


def impl(case):
    try:
        return IMPL[case["op"]](case)
    except Exception as e:  # noqa: BLE001  (the real code failed somewhere around the operation under test)
        side = _SIDE.setdefault(case_key(case), {"msgs": []})
        side.setdefault("msgs", []).append(f"the real code failed while preparing or inspecting the case: {type(e).__name__}: {str(e)[:200]}")
        return "err-setup " + sl.err_name(e)


def to_op(case):
    return OPS[case["op"]](case)


def oracle(case, out):
    side = _SIDE.get(case_key(case))
    if side is None:
        return "internal: no side record"
    msgs = side["msgs"]
    return "; ".join(msgs[:4]) if msgs else None


# ============================================================================= generators
def gen_layout(rng, style=None, n_rows=None):
    """a law-abiding stored layout: list of [start, end, rows]; rows with gaps > 1000 ns so that the rechunker has choices"""
    style = style or rng.choice(["tiny", "giant", "empties", "mixed", "mixed"])
    n_rows = rng.randint(0, 12) if n_rows is None else n_rows
    rows = gen.gen_rows(rng, n_rows, big_gap_p=rng.choice([0.2, 0.4, 0.7]))
    s, e = gen.run_of(rng, rows)
    if e == s:
        e = s + rng.randint(1, 5)
    if style == "giant":
        parts = [(s, e, rows)]
    elif style == "tiny":
        parts = gen.random_chunking(rng, rows, s, e, p_cut=0.9, p_dup=0.0)
    elif style == "empties":
        parts = gen.random_chunking(rng, rows, s, e, p_cut=0.5, p_dup=0.5)
    else:
        parts = gen.random_chunking(rng, rows, s, e, p_cut=rng.choice([0.1, 0.3, 0.6]), p_dup=rng.choice([0.0, 0.2]))
    return [[a, b, [list(r) for r in rs]] for a, b, rs in parts], style


_ENCS = {"use": ENCS}     # all four dtypes in both tiers


def base(rng, op, **kw):
    layout, style = gen_layout(rng, kw.pop("style", None), kw.pop("n_rows", None))
    case = dict(op=op, enc=rng.choice(_ENCS["use"]), layout=layout, style=style, src_comp=rng.choice(COMPRESSORS), src_target=rng.randint(1, 6))
    case.update(kw)
    return case


T0 = 1_700_000_000_000_000_137     # epoch-scale nanoseconds, odd, above 2**53: float64 arithmetic is off by up to 128 ns here


def shifted(case, t0=T0):
    """the same case with every time moved by t0 (int64-safe)"""
    c = dict(case)
    c["layout"] = [[a + t0, b + t0, [[t + t0, e + t0, k] for t, e, k in rows]] for a, b, rows in case["layout"]]
    c["t0"] = t0
    return c


def compositions(n):
    """all ways to cut range(n) into consecutive non-empty groups (sizes)"""
    if n == 0:
        return [[]]
    out = []
    for first in range(1, n + 1):
        for rest in compositions(n - first):
            out.append([first, *rest])
    return out


def run(ctx):
    rng = ctx.rng
    dist = Counter()
    timing = []
    _ENCS["use"] = ENCS

    def nontriv(c, o):
        return len(c.get("layout", [0, 0])) >= 2 and sum(len(x[2]) for x in c.get("layout", [])) >= 2

    def go(name, cases, rule, branch, exhaustive=False, model_post=None, nontrivial=nontriv, inside=True):
        for c in cases:
            for k in ("enc", "src_comp", "dst_comp", "style", "proc", "parallel"):
                if k in c:
                    dist[f"{k}={c[k]}"] += 1
        t0 = time.time()
        outs, _ = ctx.correspond(name, cases, impl, to_op, oracle, nontrivial=nontrivial, rule=rule, exhaustive=exhaustive, branch=branch,
                                 model_post=model_post, in_hyp=lambda c, o: inside)
        for c in cases:
            _SIDE.pop(case_key(c), None)
        timing.append(f"{name}:{len(cases)}:{time.time() - t0:.0f}s")
        return outs

    def n_out(o, k):
        parts = o.split(" ## ")
        if len(parts) <= k or not parts[k].startswith("ok "):
            return "?"
        return len(parts[k].split(" ")) - 1

    # ---- 1. copy_to_frontend
    cases = []
    for _ in range(ctx.pick(130, 800)):
        nt = rng.choice([1, 1, 2, 3])
        cases.append(base(rng, "copy", dst_comp=rng.choice(COMPRESSORS + [None]), rechunk=rng.randint(0, 1), rechunk_to=rng.randint(1, 7),
                          proc=rng.choice(["single_thread", "threaded_mailbox"]), ntargets=nt, explicit=bool(nt == 1 and rng.random() < 0.5)))
    go("copy/frontend", cases,
       "stored layouts (tiny / giant / with empty and zero-duration chunks / mixed; 0..12 rows; gaps > 1000 ns with p in {.2,.4,.7}) made by a real "
       "source plugin (both processors) x 4 dtypes x source compressor x destination compressor (4 + unchanged) x rechunk off/on (targets 1..7 rows) x "
       "1 destination frontend (explicit index or target_frontend_id=None) or 2-3 destination frontends filled in ONE call: metadata, files and loaded "
       "chunks of EVERY destination compared with the model; non-trivial = >= 2 stored chunks and >= 2 rows",
       branch=lambda c, o: f"targets{c['ntargets']}:re{c['rechunk']}:" + ("err" if not o.startswith("ok") else
                                                                           ("same" if n_out(o.split(" @@ ")[0], 2) == len(c["layout"]) else "changed")))

    # ---- 2. the stand-alone rechunker
    def rech_case(parallel, dest=None, replace=None):
        dest = dest or rng.choice(["new", "new", "none"])
        replace = (dest == "none" or rng.random() < 0.4) if replace is None else replace
        return base(rng, "rechunk", dst_comp=rng.choice(COMPRESSORS + [None]), rechunk=int(rng.random() < 0.8),
                    target=rng.choice([None, *range(1, 8)]), replace=int(replace), dest=dest, parallel=parallel)

    def rech_branch(c, o):
        return f"{c['parallel']}:{c['dest']}:rep{c['replace']}:re{c['rechunk']}:" + ("err" if " e=- " not in o else "ok")

    cases = [rech_case("serial") for _ in range(ctx.pick(120, 700))]
    go("rechunker/serial", cases,
       "strax.rechunker in serial mode on the same layouts x compressor (4 + unchanged) x target size (1..7 rows + unchanged) x rechunk on/off x "
       "{new location, new location + replace, in place (temp dir) + replace}: the traced sequence of directory-level operations, the final source / "
       "destination / temp directories and the loaded chunks compared with the model; per-operation source snapshots feed the oracle",
       branch=rech_branch)
    cases = [rech_case("thread") for _ in range(ctx.pick(40, 250))]
    go("rechunker/thread", cases, "the same through parallel='thread' (mailbox + ThreadPoolExecutor(2))", branch=rech_branch)
    if True:
        cases = [rech_case("process") for _ in range(ctx.pick(3, 16))]
        go("rechunker/process", cases, "the same through parallel='process' (writes happen in worker processes: the operation trace is compared "
           "without the chunk writes)", branch=rech_branch, model_post=strip_writes)
    # destination = the source directory itself (known finding rechunker-dest-is-source)
    cases = [rech_case("serial", dest=rng.choice(["parent", "self"]), replace=rng.randint(0, 1)) for _ in range(ctx.pick(12, 40))]
    go("rechunker/dest-is-source", cases,
       "dest_directory = the data directory that holds the source, or the source directory itself, with and without replace (refused since fix D24: "
       "ValueError, nothing touched)", branch=rech_branch, inside=False)

    # ---- 3. rechunk on load
    cases = []
    for _ in range(ctx.pick(130, 800)):
        via = rng.choice(["context", "context", "loader"])
        proc = rng.choice(["single_thread", "threaded_mailbox"]) if via == "context" else "-"
        cases.append(base(rng, "rol", rol=1, source_size=rng.randint(1, 7), via=via, proc=proc,
                          workers=rng.choice([1, 1, 2]) if via == "context" else 1))
    go("rechunk-on-load", cases,
       "the same layouts loaded with rechunk_on_load (chunk_source_size_mb = 1..7 rows) through Context.get_iter (both processors, max_workers 1 / 2) "
       "and through the frontend loader: yielded chunks compared with the model",
       branch=lambda c, o: f"{c['via']}:{c['proc']}:w{c['workers']}:" + ("err" if not o.startswith("ok") else
                                                                           ("same" if n_out(o, 0) == len(c["layout"]) else "split")))

    # ---- 4. per-chunk make + merge
    cases = []
    n_lay = ctx.pick(16, 50)
    for _ in range(n_lay):
        proto = base(rng, "merge", style=rng.choice(["tiny", "empties", "mixed", "giant"]), n_rows=rng.randint(1, 10))
        n = len(proto["layout"])
        if n <= ctx.pick(4, 5):
            comps = compositions(n)
        else:
            comps = []
            for _k in range(ctx.pick(4, 8)):
                cuts = sorted(rng.sample(range(1, n), rng.randint(0, min(n - 1, 4))))
                comps.append([b - a for a, b in zip([0, *cuts], [*cuts, n])])
        for sizes in comps:
            cases.append(dict(proto, sizes=sizes, sel=list(range(len(sizes))), ros=rng.randint(0, 1), rechunk=int(rng.random() < 0.7),
                              rechunk_to=rng.randint(1, 7), mod=rng.choice([1, 2, 3, 3, 5]), tgt_target=rng.randint(1, 6),
                              tgt_comp=rng.choice(COMPRESSORS), dst_comp=rng.choice(COMPRESSORS + [None]),
                              proc=rng.choice(["single_thread", "threaded_mailbox"]), workers=rng.choice([1, 2])))
    go("per-chunk/merge", cases,
       f"{n_lay} stored layouts of the dependency x ALL groupings of its chunks into consecutive per-chunk jobs when it has few chunks (random groupings "
       "otherwise) x both processors x max_workers 1/2 x rechunk_on_save x merge rechunk on/off x targets 1..7 rows x row filter id % m (m = 1 gives empty "
       "results): merged metadata, files, loaded chunks compared with the model; oracle against the directly made target in another directory",
       branch=lambda c, o: f"{c['proc']}:w{c['workers']}:jobs{min(len(c['sizes']), 4)}:re{c['rechunk']}:" + ("ok" if o.startswith("ok") else o.split(" ")[0]))
    # odd selections: out of order, incomplete, duplicated groups (correspondence only: outside the property's quantifier)
    odd = []
    for _ in range(ctx.pick(25, 120)):
        proto = base(rng, "merge", style=rng.choice(["tiny", "mixed"]), n_rows=rng.randint(2, 8))
        n = len(proto["layout"])
        if n < 2:
            continue
        cuts = sorted(rng.sample(range(1, n), rng.randint(1, min(n - 1, 3))))
        sizes = [b - a for a, b in zip([0, *cuts], [*cuts, n])]
        k = len(sizes)
        sel = rng.choice([rng.sample(range(k), k), rng.sample(range(k), rng.randint(1, k)), sorted(rng.sample(range(k), rng.randint(1, k))),
                          [rng.randrange(k), rng.randrange(k)], list(range(rng.randint(1, k - 1), k)), list(range(0, rng.randint(1, k - 1)))])
        odd.append(dict(proto, sizes=sizes, sel=list(sel), ros=rng.randint(0, 1), rechunk=rng.randint(0, 1), rechunk_to=rng.randint(1, 7),
                        mod=rng.choice([2, 3]), tgt_target=rng.randint(1, 6), tgt_comp="blosc", dst_comp=None, proc="single_thread", workers=1))
    go("per-chunk/odd-selection", odd,
       "chunk_number_group out of order / incomplete / with a repeated group: which key the result is stored under, error kinds and what is stored "
       "compared with the model (mirrors the min/max completeness test of merge_per_chunk_storage)",
       branch=lambda c, o: o.split(" ## ")[0][:24], inside=False)

    # ---- 4b. the same operations at epoch-scale timestamps
    cases = []
    for _ in range(ctx.pick(14, 120)):
        cases.append(shifted(base(rng, "copy", n_rows=rng.randint(2, 12), dst_comp=rng.choice(COMPRESSORS + [None]), rechunk=int(rng.random() < 0.8),
                                  rechunk_to=rng.randint(1, 5), proc=rng.choice(["single_thread", "threaded_mailbox"]), ntargets=rng.choice([1, 2]))))
        c = rech_case("serial")
        cases.append(shifted(dict(c, rechunk=1, target=rng.randint(1, 5))))
        via = rng.choice(["context", "loader"])
        cases.append(shifted(base(rng, "rol", n_rows=rng.randint(2, 12), rol=1, source_size=rng.randint(1, 4), via=via,
                                  proc=rng.choice(["single_thread", "threaded_mailbox"]) if via == "context" else "-",
                                  workers=rng.choice([1, 2]) if via == "context" else 1)))
        proto = base(rng, "merge", style=rng.choice(["tiny", "mixed", "giant"]), n_rows=rng.randint(2, 10))
        n = len(proto["layout"])
        cuts = sorted(rng.sample(range(1, n), rng.randint(0, min(n - 1, 3)))) if n > 1 else []
        sizes = [b - a for a, b in zip([0, *cuts], [*cuts, n])]
        cases.append(shifted(dict(proto, sizes=sizes, sel=list(range(len(sizes))), ros=rng.randint(0, 1), rechunk=int(rng.random() < 0.8),
                                  rechunk_to=rng.randint(1, 5), mod=rng.choice([2, 3, 5]), tgt_target=rng.randint(1, 4), tgt_comp=rng.choice(COMPRESSORS),
                                  dst_comp=None, proc=rng.choice(["single_thread", "threaded_mailbox"]), workers=rng.choice([1, 2]))))
    go("epoch-scale", cases,
       f"copy / stand-alone rechunker / rechunk-on-load / per-chunk merge cases as above with EVERY time shifted by T0 = {T0} ns (int64-safe, above 2**53, "
       "odd): any float64 detour of a time (split time, boundary, metadata) is off by up to 128 ns here and shows in the chunk boundaries and metadata",
       branch=lambda c, o: f"{c['op']}:" + ("ok" if o.startswith("ok") or " e=- " in o else "err"))

    # ---- 5. keys
    cases = []
    names = list(KEY_GRAPH)
    pool_lists = [[0], [1], [0, 1], [1, 2], [2, 3, 4], [0, 2], [2, 1], []]
    for _ in range(ctx.pick(300, 3000)):
        target = rng.choice(names)
        reqs = [None]
        for _k in range(rng.randint(2, 6)):
            ds = rng.sample(names, rng.randint(1, 2))
            reqs.append([[d, rng.choice(pool_lists)] for d in ds])
        if rng.random() < 0.5:
            reqs.append(reqs[rng.randrange(1, len(reqs))])
        cases.append(dict(op="keys", target=target, reqs=reqs))
    go("keys/chunk-number", cases,
       "Context.key_for(target, chunk_number=…) on a tree of plugins (chain ka-kb-kc-ke, branch kd) for requests naming 1-2 data types with consecutive, "
       "non-consecutive and empty chunk lists: equality pattern of the lineage hashes and the error kinds compared with the model's tagged lineages",
       branch=lambda c, o: "err" if "Error" in o else "ok", nontrivial=lambda c, o: len(set(o.split(" ")[1:])) >= 3)

    ctx.note("input distribution: " + ", ".join(f"{k}:{v}" for k, v in sorted(dist.items())))
    ctx.note("component:cases:wall " + " ".join(timing))
    ctx.note("observations outside the quantifier (merge_per_chunk_storage min/max completeness test): "
             + (", ".join(f"{k}: {v}" for k, v in OBS.items()) or "none generated"))
    ctx.note("restriction: the Lean model is the serial protocol; parallel='thread' / 'process' and the threaded processor are tied by "
             "correspondence of final states and (thread) operation traces only; process mode: chunk writes are not traced")


def search(ctx):
    rng = ctx.rng
    cases = []
    for _ in range(300):
        cases.append(base(rng, "copy", dst_comp=rng.choice(COMPRESSORS + [None]), rechunk=1, rechunk_to=rng.randint(1, 7), proc="single_thread"))
        cases.append(base(rng, "rechunk", dst_comp=None, rechunk=1, target=rng.randint(1, 7), replace=rng.randint(0, 1),
                          dest=rng.choice(["new", "none"]), parallel="serial"))
        cases[-1]["replace"] = 1 if cases[-1]["dest"] == "none" else cases[-1]["replace"]
        cases.append(base(rng, "rol", rol=1, source_size=rng.randint(1, 7), via="loader", proc="-", workers=1))
    ctx.check_oracle("search/oracle-only", cases, impl, oracle)
    # the translated decisions (plain-key test of merge_per_chunk_storage, _move_directories, the dest-is-source guard):
    # truncated / proper selections of per-chunk results, replace runs, destination = source
    cases = []
    for _ in range(120):
        proto = base(rng, "merge", style=rng.choice(["tiny", "mixed"]), n_rows=rng.randint(2, 8))
        n = len(proto["layout"])
        if n < 2:
            continue
        cuts = sorted(rng.sample(range(1, n), rng.randint(1, min(n - 1, 3))))
        sizes = [b - a for a, b in zip([0, *cuts], [*cuts, n])]
        k = len(sizes)
        sel = rng.choice([list(range(k)), list(range(rng.randint(1, k - 1), k)), list(range(0, rng.randint(1, k - 1)))])
        cases.append(dict(proto, sizes=sizes, sel=sel, ros=rng.randint(0, 1), rechunk=rng.randint(0, 1), rechunk_to=rng.randint(1, 7),
                          mod=rng.choice([2, 3]), tgt_target=rng.randint(1, 6), tgt_comp="blosc", dst_comp=None, proc="single_thread", workers=1))
    for _ in range(40):
        cases.append(base(rng, "rechunk", dst_comp=None, rechunk=rng.randint(0, 1), target=rng.randint(1, 7), replace=1,
                          dest=rng.choice(["new", "none"]), parallel="serial"))
        cases.append(base(rng, "rechunk", dst_comp=None, rechunk=1, target=rng.randint(1, 7), replace=0,
                          dest=rng.choice(["parent", "self"]), parallel="serial"))
    ctx.check_oracle("search/translated-decisions", cases, impl, oracle)


def replay(ctx, body):
    if body.get("case") is None:
        return f"obligation {body['component']} has no input to replay (no-failing-input-found); re-run the check"
    case = body["case"]["case"]
    out = impl(case)
    print("implementation output:", out)
    return oracle(case, out)
