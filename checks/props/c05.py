"""C05 — a mailbox delivers every message exactly once, in order, to every subscriber.

Model: lean/StraxModel/Model/Mailbox.lean (labelled transition system of one mailbox; one action = one atomic
block between two yield points of the scheduler, action table in notes/C05.md) and Model/Divider.lean (divide_outputs
feeding several mailboxes); theorems: Props/C05.lean (+ the mailbox-level theorems of C13 in Props/C13.lean).
Tie: the REAL strax.Mailbox / divide_outputs run under the cooperative scheduler (checks/lib/sched.py) with a
recorded schedule (every schedule up to a preemption bound for the smallest configurations, seeded random / PCT
otherwise); the same configuration + schedule goes to the Lean driver (`c05.run` / `c05.div`); the per-step
snapshots (heap numbers, have_read, waiting_for, closed/killed/force_killed, n_sent, set of enabled threads), the end
status, every subscriber's received sequence and how every thread ended are diffed as one canonical line.
Oracle (independent of the model, on the real run): every subscriber received exactly the sent values in
number order (per output: its component of every dict), len(_mailbox) <= max_messages after every atomic step,
no deadlock, all threads ended normally.
"""
from __future__ import annotations

import contextlib
import itertools
import os
import random
import time

from lib.straxlib import strax  # noqa: F401  (must be the first strax import: private numba cache)
import strax.mailbox as mbm  # noqa: E402
from lib import sched as S  # noqa: E402

ID = "C05"
LEAN_MODULES = ["StraxModel.Props.C05", "StraxModel.Props.C13", "StraxModel.Props.C05Gates", "StraxModel.Props.C13Gates"]
TRUSTED = [
    "cooperative scheduler checks/lib/sched.py (replaces `threading` inside strax.mailbox: real threads, one runs at a time, "
    "yield points at lock acquire / Condition.wait / Future.result / harness `fetch` and `work` points)",
    "modelled, not verified: threading.Condition / RLock semantics (wait releases the lock completely, wakes only on notify or timeout), "
    "heapq (the model keeps a list and compares sorted numbers), concurrent.futures.Future",
    "the stale-waiter rule of Mailbox._can_fetch is read off its source text (gate_rule()): L = compares with the lowest number "
    "(before fb45a02), H = _has_msg (today); the Lean model carries both rules",
    "translator (checks/lib/mailbox_translate.py, step regen): AST of Mailbox._has_msg, _lowest_msg_number, _can_fetch, can_write and the "
    "message-number check of send, next_ready and the clean-up loop test of _read -> Generated/MailboxGates.lean over the abstract state "
    "MailboxAbs.St (if / return / assert / for-any / any(comprehension) / zip / len / min / and / or / not / is None / comparisons); "
    "trusted in it: heap[0][0] of a heapq is the smallest number (MailboxAbs.lowest?), float('inf') = no capacity (Option Nat), "
    "the statements around the translated predicates (which predicate is waited on where) stay tied by the step-exact correspondence only",
]
ASSUMPTIONS = [
    "one sender thread per mailbox (as in strax); message payloads are small integers; futures are completed (never failed) by harness "
    "worker threads; explicit message numbers only on eager mailboxes (the fetch gate lives in _send_from / divide_outputs, which number in order)",
    "divide_outputs: the source is a harness generator of dicts, `outputs` is the list the divider sends to; duplicate message numbers are outside the model",
    "timeouts are not transitions: the scheduler delivers them only after it has recorded a deadlock",
    "preemption inside a lock-free region of mailbox.py is not explored (all shared state of Mailbox is accessed under its lock)",
]

ERRS = {"MailboxKilled", "MailboxFullTimeout", "MailboxReadTimeout", "InvalidMessageNumber", "MailBoxAlreadyClosed",
        "ValueError", "RuntimeError", "TypeError", "KeyError", "AssertionError"}


# ----------------------------------------------------------------------------- step 0: translator
def regen(ctx):
    """Regenerate Generated/MailboxGates.lean from the current source of strax/mailbox.py (see checks/lib/mailbox_translate.py);
    Props/C05Gates.lean and Props/C13Gates.lean prove every generated predicate equal to the one Model/Mailbox.lean uses."""
    from lib import mailbox_translate
    mailbox_translate.regen(ctx)


# ----------------------------------------------------------------------------- case helpers
def parse_item(tok):
    """'x' | [n@]p<v> | [n@]f<id>:<v>  ->  (num|None, kind, id|None, value)"""
    if tok == "x":
        return (None, "x", None, None)
    num = None
    if "@" in tok:
        a, tok = tok.split("@")
        num = int(a)
    if tok[0] == "p":
        return (num, "p", None, int(tok[1:]))
    a, b = tok[1:].split(":")
    return (num, "f", int(a), int(b))


def op_line(case):
    cap = "inf" if case["cap"] is None else str(case["cap"])
    prog = ",".join(case["prog"]) or "-"
    workers = ";".join((".".join(map(str, w)) or "_") for w in case["workers"]) or "-"
    sched = ",".join(case.get("sched") or []) or "-"
    return f"c05.run {gate_rule()} {cap} {case['lazy']} {case['drive']} {prog} {workers} {case['kills'] or '-'} {sched}"


_RULE = []


def gate_rule():
    """which stale-waiter test `Mailbox._can_fetch` uses today (read off its source; the Lean model has both):
    L = compares waiting_for with the lowest buffered number (defect D6, before fb45a02), H = `_has_msg` (the code today)"""
    if not _RULE:
        import inspect
        src = inspect.getsource(mbm.Mailbox._can_fetch)
        code = "\n".join(ln.split("#")[0] for ln in src.splitlines())
        if "_lowest_msg_number" in code:
            _RULE.append("L")
        elif "_has_msg" in code:
            _RULE.append("H")
        else:
            _RULE.append("L")     # unknown rule: the correspondence will show whether the model still fits
    return _RULE[0]


def thread_key(name):
    return ("SRWK".index(name[0]), int(name[1:] or 0))


def displacement(nums):
    """max over send positions p of #{q < p : nums[q] > min(nums[p:])} — the sender needs that many slots
    for messages nobody can consume yet"""
    best = 0
    for p in range(len(nums)):
        m = min(nums[p:])
        best = max(best, sum(1 for q in range(p) if nums[q] > m))
    return best


def classify(case):
    """clean: inside the property's domain, full oracle; kill: kill()/failing source injected (delivery of a
    prefix, still no deadlock); malformed: invalid numbering / displacement >= capacity / orphan future
    (only capacity + prefix + agreement with the model)."""
    items = [parse_item(t) for t in case["prog"]]
    nums = [it[0] for it in items if it[1] != "x"]
    explicit = any(n is not None for n in nums)
    if explicit:
        if any(n is None for n in nums) or sorted(nums) != list(range(len(nums))):
            return "malformed"
        if case["cap"] is not None and displacement(nums) >= case["cap"]:
            return "malformed"
        if case["lazy"]:
            return "malformed"
    if case["cap"] is not None and case["cap"] < 1:
        return "malformed"
    if case["lazy"] and "1" not in case["drive"]:
        return "malformed"
    futs = [it[2] for it in items if it[1] == "f"]
    assigned = [f for w in case["workers"] for f in w]
    if sorted(futs) != sorted(set(futs)) or any(f not in assigned for f in futs):
        return "malformed"
    if case["kills"] or any(it[1] == "x" for it in items):
        return "kill"
    return "clean"


def expected_values(case):
    items = [parse_item(t) for t in case["prog"]]
    out = []
    for pos, it in enumerate(items):
        if it[1] == "x":
            break
        out.append((it[0] if it[0] is not None else pos, pos, it[3]))
    return [v for _, _, v in sorted(out)]


# ----------------------------------------------------------------------------- the real run
class SourceFailed(ValueError):
    pass


def err_name(e):
    for cls in type(e).__mro__:
        if cls.__name__ in ERRS:
            return cls.__name__
    return "Other"


def run_real(case, strategy, max_decisions=None):
    """run the real strax.Mailbox for `case` under `strategy`; returns (canonical line, info dict)"""
    cap, lazy, drive = case["cap"], bool(case["lazy"]), case["drive"]
    items = [parse_item(t) for t in case["prog"]]
    nsub = len(drive)
    explicit = any(it[0] is not None for it in items)
    if explicit and lazy:
        raise ValueError("explicit message numbers on a lazy mailbox are not supported by this harness (the fetch gate lives in _send_from, which numbers in order)")
    snaps = []
    state = {}
    gate_bad = []
    sc = S.Sched(strategy, prime=True)

    def snapshot():
        heap = sorted(n for n, _ in mb._mailbox)
        en = sorted((t.name for t in sc.runnable()), key=thread_key)
        d = lambda xs: ".".join(xs) or "_"  # noqa: E731
        return "|".join([
            d([str(int(n)) for n in heap]),
            d([str(int(x)) for x in mb._subscribers_have_read]),
            d(["n" if w is None else str(int(w)) for w in mb._subscriber_waiting_for]),
            f"{int(mb.closed)}{int(mb.killed)}{int(mb.force_killed)}",
            str(mb._n_sent),
            d(en),
        ])

    def pcs():
        out = []
        for t in sorted(sc.tasks, key=lambda t: thread_key(t.name)):
            if t.state != "done":
                out.append(f"{t.name}:run")
            elif t.exc is None:
                out.append(f"{t.name}:done")
            else:
                out.append(f"{t.name}:dead({err_name(t.exc)})")
        return ",".join(out)

    def freeze(status):
        state.update(status=status, got="/".join((".".join(map(str, g)) or "_") for g in got) or "-", pcs=pcs())

    sc.on_step = lambda sc_, t: snaps.append(snapshot())
    sc.on_deadlock = lambda sc_: freeze("deadlock")

    with sc.patch(mbm):
        mb = strax.Mailbox(name="m", max_messages=(cap if cap is not None else 1), lazy=lazy, timeout=60)
        mb.max_messages = float("inf") if cap is None else cap     # the processor overwrites it the same way
        futs = {it[2]: S.SFuture(sc) for it in items if it[1] == "f"}
        fvals = {it[2]: it[3] for it in items if it[1] == "f"}
        got = [[] for _ in range(nsub)]

        def payload(it):
            return futs[it[2]] if it[1] == "f" else it[3]

        def gate_probe(k):
            # C13 `lazy_gate`, evaluated in the state in which the source is advanced: some driving subscriber
            # waits for a number that is not in the heap (only meaningful for a lazy mailbox that is not killed)
            if lazy and not mb.killed:
                heap = {n for n, _ in mb._mailbox}
                if not any(d and w is not None and w not in heap
                           for d, w in zip(mb._subscriber_can_drive, mb._subscriber_waiting_for)):
                    gate_bad.append(dict(fetch=k, step=len(sc.trace), heap=sorted(heap),
                                         waiting_for=list(mb._subscriber_waiting_for), have_read=list(mb._subscribers_have_read)))

        def src():
            for k, it in enumerate(items):
                sc.yield_point("fetch")
                gate_probe(k)
                if it[1] == "x":
                    raise SourceFailed("source failed")
                yield payload(it)
            sc.yield_point("fetch")
            gate_probe(len(items))

        def explicit_sender():
            # what a user of `send(msg, msg_number=…)` does, shaped like Mailbox._send_from
            try:
                for it in items:
                    sc.yield_point("fetch")
                    if it[1] == "x":
                        raise SourceFailed("source failed")
                    mb.send(payload(it), msg_number=it[0])
                sc.yield_point("fetch")
            except Exception as e:  # noqa: BLE001
                mb.kill_from_exception(e)
            else:
                mb.close()

        def reader(source, k):
            for x in source:
                got[k].append(int(x))

        def worker(ids):
            for fid in ids:
                sc.yield_point("work")
                if fid in futs:
                    futs[fid].set_result(fvals[fid])

        if explicit and not lazy:
            mb._threads.append(sc.threading.Thread(target=explicit_sender, name="S"))
        else:
            mb.add_sender(src(), name="S")
        for k in range(nsub):
            mb.add_reader(reader, name=f"R{k}", can_drive=(drive[k] == "1"), k=k)
        for j, ids in enumerate(case["workers"]):
            mb._threads.append(sc.threading.Thread(target=worker, name=f"W{j}", args=(list(ids),)))
        for k, ch in enumerate(case["kills"] or ""):
            mb._threads.append(sc.threading.Thread(target=mb.kill, name=f"K{k}",
                                                   kwargs=dict(upstream=(ch == "u"), reason=("HarnessKill", None, None))))
        mb.start()
        snaps.append(snapshot())
        sc.run(max_decisions=max_decisions)
        if sc.stopped:
            freeze("running")
            sc.abort()
        elif not sc.deadlocks:
            freeze("final")
        cleanup_err = None
        if not sc.stopped:
            try:
                mb.cleanup()
            except Exception as e:  # noqa: BLE001
                cleanup_err = err_name(e)
    sc.join_real()
    line = f"ok {';'.join(snaps)} end={state['status']} got={state['got']} pcs={state['pcs']}"
    info = dict(trace=list(sc.trace), deadlocks=sc.deadlocks[:1], cleanup_err=cleanup_err,
                leftover=[t.name for t in sc.tasks if t.state != "done"],
                diverged=getattr(strategy, "diverged_at", None), gate_bad=gate_bad)
    return line, info


def make_strategy(spec):
    k = spec["kind"]
    if k == "random":
        return S.RandomStrategy(random.Random(spec["seed"]), stick=spec.get("stick", 0.0))
    if k == "pct":
        return S.PCTStrategy(random.Random(spec["seed"]), depth=spec.get("depth", 3), est_steps=spec.get("est", 60))
    raise ValueError(k)


def execute(case):
    """fills in case['sched'] (the schedule actually run) and case['_out']"""
    if case.get("sched") is not None:
        strat = S.ReplayStrategy(case["sched"])
        line, info = run_real(case, strat, max_decisions=len(case["sched"]) if case.get("truncated") else None)
        if info["diverged"] is not None:
            line += f" replay-diverged@{info['diverged']}"
    else:
        line, info = run_real(case, make_strategy(case["strat"]))
    case["sched"] = info["trace"]
    if info["cleanup_err"]:
        line += f" cleanup={info['cleanup_err']}"
    if info["leftover"]:
        line += " leftover=" + ".".join(info["leftover"])
    return line


# ----------------------------------------------------------------------------- oracle
def parse_line(out):
    body, end, gotf, pcsf = out[3:].split(" ")[:4]
    snaps = [s.split("|") for s in body.split(";")]
    got = [] if gotf[4:] == "-" else [([] if g == "_" else [int(x) for x in g.split(".")]) for g in gotf[4:].split("/")]
    pcs = dict(p.split(":") for p in pcsf[4:].split(","))
    return snaps, end[4:], got, pcs


def oracle(case, out):
    if not out.startswith("ok "):
        return f"adapter answered {out[:80]}"
    extra = out.split(" ")[5:]
    snaps, end, got, pcs = parse_line(out)
    kind = classify(case)
    exp = expected_values(case)
    cap = case["cap"]
    # capacity: after every atomic step (eager; and lazy mailboxes given a finite capacity by the processor)
    if cap is not None:
        for i, s in enumerate(snaps):
            n = 0 if s[0] == "_" else len(s[0].split("."))
            if n > cap:
                return f"step {i}: {n} messages buffered > max_messages = {cap}"
    # no subscriber ever sees anything but a prefix of the messages in number order (no loss, duplication, reordering)
    if kind != "malformed":
        for k, g in enumerate(got):
            if g != exp[:len(g)]:
                return f"subscriber {k} received {g}, not a prefix of {exp}"
    if kind == "malformed":
        return None
    if end == "running":
        return None
    if end == "deadlock":
        return f"deadlock: no thread runnable, unfinished: {[p for p, v in pcs.items() if v == 'run']}"
    if extra:
        return f"after the run: {' '.join(extra)}"
    if kind == "clean":
        for k, g in enumerate(got):
            if g != exp:
                return f"subscriber {k} received {g}, expected exactly {exp}"
        bad = {p: v for p, v in pcs.items() if v != "done"}
        if bad:
            return f"threads did not end normally: {bad}"
    else:
        bad = {p: v for p, v in pcs.items() if v == "run"}
        if bad:
            return f"threads still alive: {bad}"
    return None


def nontrivial(case, out):
    sched = case.get("sched") or []
    switches = sum(1 for a, b in zip(sched, sched[1:]) if a != b)
    return len(case["prog"]) >= 1 and len(set(sched)) >= 2 and switches >= 2


def futures_out_of_order(case):
    """do the workers complete the futures in another order than the messages carry them (some worker list not
    ascending, or several workers racing)?"""
    ws = [w for w in case["workers"] if w]
    return any(list(w) != sorted(w) for w in ws) or len(ws) > 1


def branch(case, out):
    items = case["prog"]
    num = "explicit" if any("@" in t for t in items) else "auto"
    pay = "plain"
    if any("f" in t for t in items):
        pay = "fut-ooo" if futures_out_of_order(case) else "fut"
    end = out.split(" end=")[1].split(" ")[0] if " end=" in out else "?"
    return f"{'lazy' if case['lazy'] else 'eager'}/{num}/{pay}/{classify(case)}/{end}"


# ----------------------------------------------------------------------------- generators
def mk_case(cap, lazy, drive, prog, workers=(), kills="", **kw):
    return dict(cap=cap, lazy=int(lazy), drive=drive, prog=list(prog), workers=[list(w) for w in workers], kills=kills, **kw)


def perms_within(n, cap):
    return [p for p in itertools.permutations(range(n)) if cap is None or displacement(list(p)) < cap]


def random_config(rng, kind="clean"):
    nsub = rng.randint(1, 3)
    nmsg = rng.choice([0, 1, 2, 2, 3, 3, 4, 5])
    lazy = rng.random() < 0.5
    cap = rng.choice([1, 2, 3, 4]) if (not lazy or rng.random() < 0.6) else None
    if lazy:
        drive = "".join(rng.choice("01") for _ in range(nsub))
        if "1" not in drive:
            i = rng.randrange(nsub)
            drive = drive[:i] + "1" + drive[i + 1:]
    else:
        drive = "".join(rng.choice("01") for _ in range(nsub))   # ignored in eager mode
    use_fut = rng.random() < 0.4
    explicit = (not lazy) and rng.random() < 0.35 and nmsg >= 2
    vals = [rng.randint(0, 9) + 10 * (i + 1) for i in range(nmsg)]
    nums = list(range(nmsg))
    if explicit:
        for _ in range(50):
            rng.shuffle(nums)
            if cap is None or displacement(nums) < cap:
                break
        else:
            nums = list(range(nmsg))
    toks, fids = [], []
    for i in range(nmsg):
        if use_fut and rng.random() < 0.6:
            body = f"f{len(fids)}:{vals[i]}"
            fids.append(len(fids))
        else:
            body = f"p{vals[i]}"
        toks.append((f"{nums[i]}@" if explicit else "") + body)
    workers = []
    if fids:
        nw = rng.randint(1, 2)
        workers = [[] for _ in range(nw)]
        order = fids[:]
        if rng.random() < 0.5:
            rng.shuffle(order)
        for f in order:
            workers[rng.randrange(nw)].append(f)
    kills = ""
    if kind == "kill":
        r = rng.random()
        if r < 0.45:
            kills = rng.choice(["u", "d", "ud", "du"])
        elif r < 0.8:
            toks.insert(rng.randint(0, len(toks)), "x")
        else:
            kills = rng.choice("ud")
            toks.insert(rng.randint(0, len(toks)), "x")
    if kind == "malformed":
        r = rng.random()
        if r < 0.4 and not lazy:
            # explicit numbers that are not a permutation / too low / too displaced
            # (distinct, and never the number `close` will use: equal numbers make heapq compare payloads)
            n = max(nmsg, 2)
            nums = rng.sample([k for k in range(n + 3) if k != n], n)
            toks = [f"{nums[i]}@p{10 * (i + 1)}" for i in range(n)]
            workers = []
        elif r < 0.7 and not lazy:
            n = rng.randint(2, 5)
            nums = list(range(n))[::-1]
            toks = [f"{nums[i]}@p{10 * (i + 1)}" for i in range(n)]
            cap = rng.randint(1, max(1, n - 1))
            workers = []
        elif r < 0.85:
            toks.append(f"f9:{99}")          # orphan future: nobody completes it
        else:
            lazy, drive = True, "0" * nsub   # lazy without a driver
            toks = [t.split("@")[-1] for t in toks]   # (_send_from numbers in order; explicit numbers only via send())
    return mk_case(cap, lazy, drive, toks, workers, kills)


def small_configs(quick):
    """(configuration, preemption bound) pairs explored exhaustively: every schedule with at most that many
    preemptions is run on the real code and on the model.  The bounds are chosen so that each configuration finishes
    (sizes measured: a few hundred to ~15 000 schedules); what does not finish on a busy machine is reported separately
    as truncated, never as exhaustive."""
    out = []
    prog = lambda n: [f"p{10 * (i + 1)}" for i in range(n)]  # noqa: E731
    b1 = 2 if quick else 3          # one subscriber
    b2 = 2                          # two subscribers, one message
    for nsub, nmsg, b in [(1, 1, b1), (1, 2, b1), (2, 1, b2)] + ([] if quick else [(1, 3, 3)]):   # (3 subscribers explode: 29 000 schedules at bound 1; sampled instead)
        for cap in ([1, 2] if nmsg > 1 else [1]):
            out.append((mk_case(cap, 0, "1" * nsub, prog(nmsg)), b))
            for drive in sorted({"1" * nsub, "1" + "0" * (nsub - 1), "0" * (nsub - 1) + "1"}):
                out.append((mk_case(cap, 1, drive, prog(nmsg)), b))
    out.append((mk_case(2, 0, "1", ["1@p10", "0@p20"]), b1))
    # partial reordering: the buffer holds {0, 2} while 1 is still missing (a gap above the lowest message)
    out.append((mk_case(3, 0, "1", ["0@p10", "2@p20", "1@p30"]), b1))
    out.append((mk_case(None, 1, "1", prog(2)), b1))
    out.append((mk_case(1, 0, "1", ["f0:10", "p20"], [[0]]), 2))
    out.append((mk_case(1, 1, "1", ["f0:10"], [[0]]), 2))
    # futures completed out of order by concurrent workers: results must still come out in message order
    out.append((mk_case(2, 0, "1", ["f0:10", "f1:20"], [[1, 0]]), 2))
    out.append((mk_case(2, 0, "1", ["f0:10", "f1:20"], [[1], [0]]), 1))
    out.append((mk_case(2, 1, "1", ["f0:10", "p20", "f1:30"], [[1], [0]]), 1))
    out.append((mk_case(1, 0, "1", prog(2), kills="u"), 2))
    out.append((mk_case(1, 1, "10", prog(1), kills="d"), 1))
    out.append((mk_case(1, 0, "1", ["p10", "x"]), b1))
    # two subscribers, two messages: bound 1 in the quick tier, bound 2 in the thorough one
    b22 = 1 if quick else 2
    out.append((mk_case(1, 1, "10", prog(2)), b22))
    out.append((mk_case(2, 1, "10", prog(2)), b22))
    if not quick:
        out.append((mk_case(1, 0, "11", prog(2)), b22))
        out.append((mk_case(2, 0, "11", prog(2)), b22))
        out.append((mk_case(1, 1, "11", prog(2)), b22))
        out.append((mk_case(1, 1, "01", prog(2)), b22))
        out.append((mk_case(2, 0, "11", ["1@p10", "0@p20"]), b22))
        out.append((mk_case(None, 1, "10", prog(2)), b22))
    return out


def explore(base, bound, limit, deadline=None):
    """all schedules of `base` with at most `bound` preemptions (each a fresh run of the real code); stops early
    (reported as truncated = not exhaustive) at `limit` schedules or at the `deadline`"""
    ex = S.Explorer(bound=bound, limit=limit)
    cases = []
    while ex.more():
        if deadline is not None and time.time() > deadline and len(cases) >= 200:
            ex.truncated = True
            break
        c = dict(base)
        line, info = run_real(c, ex.strategy())
        ex.finish()
        c["sched"] = info["trace"]
        if info["cleanup_err"]:
            line += f" cleanup={info['cleanup_err']}"
        if info["leftover"]:
            line += " leftover=" + ".".join(info["leftover"])
        c["_out"] = line
        cases.append(c)
    return cases, ex.truncated


# ----------------------------------------------------------------------------- divide_outputs
# case: cap, lazy, outs = [[drive mask, free(0/1)], ...], prog = ["p10+p20", "x", ...], workers, kills = ["0u", "1d"], sched
def div_op_line(case):
    cap = "inf" if case["cap"] is None else str(case["cap"])
    outs = ";".join(d + ("f" if f else "") for d, f in case["outs"])
    prog = ",".join(case["prog"]) or "-"
    workers = ";".join((".".join(map(str, w)) or "_") for w in case["workers"]) or "-"
    kills = ",".join(case["kills"]) or "-"
    sched = ",".join(case.get("sched") or []) or "-"
    return f"c05.div {gate_rule()} {cap} {case['lazy']} {outs} {prog} {workers} {kills} {sched}"


def dthread_key(name):
    if name == "D":
        return (0, 0, 0)
    if name[0] == "R":
        k, i = name[1:].split(".")
        return (1, int(k), int(i))
    return ("DRWK".index(name[0]), int(name[1:]), 0)


def div_classify(case):
    items = case["prog"]
    nout = len(case["outs"])
    comps = [t.split("+") for t in items if t != "x"]
    if any(len(c) != nout for c in comps) or (case["cap"] is not None and case["cap"] < 1):
        return "malformed"
    futs = [parse_item(c)[2] for cs in comps for c in cs if c[0] == "f"]
    assigned = [f for w in case["workers"] for f in w]
    if sorted(futs) != sorted(set(futs)) or any(f not in assigned for f in futs):
        return "malformed"
    if case["lazy"]:
        # every gated output needs a driving subscriber; a flow_freely output must not be the only demand
        for d, f in case["outs"]:
            if not f and "1" not in d:
                return "malformed"
    if any(not d for d, _ in case["outs"]):
        return "malformed"
    if case["kills"] or "x" in items:
        return "kill"
    return "clean"


def div_expected(case, k):
    out = []
    for t in case["prog"]:
        if t == "x":
            break
        cs = t.split("+")
        if k < len(cs):
            out.append(parse_item(cs[k])[3])
    return out


def run_div_real(case, strategy):
    """the real divide_outputs feeding real mailboxes under `strategy`; returns (canonical line, info)"""
    cap, lazy = case["cap"], bool(case["lazy"])
    nout = len(case["outs"])
    dicts = [None if t == "x" else [parse_item(c) for c in t.split("+")] for t in case["prog"]]
    snaps, state = [], {}
    sc = S.Sched(strategy, prime=True)
    names = [f"o{k}" for k in range(nout)]

    def mb_snap(mb):
        d = lambda xs: ".".join(xs) or "_"  # noqa: E731
        return "|".join([d([str(int(n)) for n in sorted(n for n, _ in mb._mailbox)]),
                         d([str(int(x)) for x in mb._subscribers_have_read]),
                         d(["n" if w is None else str(int(w)) for w in mb._subscriber_waiting_for]),
                         f"{int(mb.closed)}{int(mb.killed)}{int(mb.force_killed)}", str(mb._n_sent)])

    def snapshot():
        en = sorted((t.name for t in sc.runnable()), key=dthread_key)
        return "/".join(mb_snap(mbs[d]) for d in names) + "|" + (",".join(en) or "_")

    def pcs():
        out = []
        for t in sorted(sc.tasks, key=lambda t: dthread_key(t.name)):
            out.append(f"{t.name}:" + ("run" if t.state != "done" else "done" if t.exc is None else f"dead({err_name(t.exc)})"))
        return ",".join(out)

    def freeze(status):
        state.update(status=status, pcs=pcs(),
                     got="/".join((".".join(map(str, got[(k, i)])) or "_") for k in range(nout) for i in range(len(case["outs"][k][0]))) or "-")

    sc.on_step = lambda s_, t: snaps.append(snapshot())
    sc.on_deadlock = lambda s_: freeze("deadlock")
    with sc.patch(mbm):
        mbs = {}
        for d in names:
            m = strax.Mailbox(name=d, max_messages=(cap if cap is not None else 1), lazy=lazy, timeout=60)
            m.max_messages = float("inf") if cap is None else cap
            mbs[d] = m
        futs, fvals = {}, {}
        for dct in dicts:
            for it in dct or []:
                if it[1] == "f":
                    futs[it[2]] = S.SFuture(sc)
                    fvals[it[2]] = it[3]
        got = {}

        def src():
            for dct in dicts:
                sc.yield_point("fetch")
                if dct is None:
                    raise SourceFailed("source failed")
                # a dict with fewer components than outputs -> KeyError in `result[d]`
                yield {names[k]: (futs[it[2]] if it[1] == "f" else it[3]) for k, it in enumerate(dct)}
            sc.yield_point("fetch")

        def reader(source, key):
            for x in source:
                got[key].append(int(x))

        def worker(ids):
            for fid in ids:
                sc.yield_point("work")
                if fid in futs:
                    futs[fid].set_result(fvals[fid])

        free = tuple(names[k] for k, (_, f) in enumerate(case["outs"]) if f)
        ths = [sc.threading.Thread(target=mbm.divide_outputs, name="D",
                                   kwargs=dict(source=src(), mailboxes=mbs, lazy=lazy, flow_freely=free, outputs=list(names)))]
        for k, (drive, _) in enumerate(case["outs"]):
            for i, ch in enumerate(drive):
                got[(k, i)] = []
                mbs[names[k]].add_reader(reader, name=f"R{k}.{i}", can_drive=(ch == "1"), key=(k, i))
        for j, ids in enumerate(case["workers"]):
            ths.append(sc.threading.Thread(target=worker, name=f"W{j}", args=(list(ids),)))
        for q, kl in enumerate(case["kills"]):
            ths.append(sc.threading.Thread(target=mbs[names[int(kl[:-1])]].kill, name=f"K{q}",
                                           kwargs=dict(upstream=(kl[-1] == "u"), reason=("HarnessKill", None, None))))
        for t in ths:
            t.start()
        for d in names:
            mbs[d].start()
        snaps.append(snapshot())
        sc.run()
        if not sc.deadlocks:
            freeze("final")
    sc.join_real()
    line = f"ok {';'.join(snaps)} end={state['status']} got={state['got']} pcs={state['pcs']}"
    return line, dict(trace=list(sc.trace))


def div_execute(case):
    strat = S.ReplayStrategy(case["sched"]) if case.get("sched") is not None else make_strategy(case["strat"])
    line, info = run_div_real(case, strat)
    if getattr(strat, "diverged_at", None) is not None:
        line += f" replay-diverged@{strat.diverged_at}"
    case["sched"] = info["trace"]
    return line


def div_oracle(case, out):
    """`divide_delivery` on the real run: every subscriber of output k gets exactly component k of every dict, in
    order; capacity per mailbox; no deadlock; all threads end"""
    if not out.startswith("ok "):
        return f"adapter answered {out[:80]}"
    body, end, gotf, pcsf = out[3:].split(" ")[:4]
    extra = out.split(" ")[5:]
    kind = div_classify(case)
    cap = case["cap"]
    nout = len(case["outs"])
    if cap is not None:
        for step, snap in enumerate(body.split(";")):
            for k, part in enumerate(snap.split("/")[:nout]):
                heap = part.split("|")[0]
                n = 0 if heap == "_" else len(heap.split("."))
                if n > cap:
                    return f"step {step}: output {k} buffers {n} > max_messages = {cap}"
    if kind == "malformed":
        return None
    gots = [] if gotf[4:] == "-" else [([] if g == "_" else [int(x) for x in g.split(".")]) for g in gotf[4:].split("/")]
    keys = [(k, i) for k in range(nout) for i in range(len(case["outs"][k][0]))]
    for (k, i), g in zip(keys, gots):
        exp = div_expected(case, k)
        if g != exp[:len(g)]:
            return f"subscriber {i} of output {k} received {g}, not a prefix of {exp}"
    end = end[4:]
    pcs = dict(p.split(":") for p in pcsf[4:].split(","))
    if end == "deadlock":
        return f"deadlock: no thread runnable, unfinished: {[p for p, v in pcs.items() if v == 'run']}"
    if extra:
        return f"after the run: {' '.join(extra)}"
    if kind == "clean":
        for (k, i), g in zip(keys, gots):
            if g != div_expected(case, k):
                return f"subscriber {i} of output {k} received {g}, expected exactly {div_expected(case, k)}"
        bad = {p: v for p, v in pcs.items() if v != "done"}
        if bad:
            return f"threads did not end normally: {bad}"
    return None


def div_random_config(rng, kind="clean"):
    nout = rng.randint(2, 3)
    nmsg = rng.choice([0, 1, 2, 2, 3])
    lazy = rng.random() < 0.5
    cap = rng.choice([1, 2, 3])
    outs = []
    for k in range(nout):
        nsub = rng.randint(1, 2)
        drive = "".join(rng.choice("01") for _ in range(nsub))
        free = 0
        if lazy:
            if k == nout - 1 and rng.random() < 0.3:
                free = 1                       # a flow_freely output: its readers do not drive
                drive = "0" * nsub
            elif "1" not in drive:
                drive = "1" + drive[1:]
        outs.append([drive, free])
    use_fut = rng.random() < 0.3
    prog, fids = [], []
    for n in range(nmsg):
        comps = []
        for k in range(nout):
            v = 100 * (k + 1) + 10 * n + rng.randint(0, 9)
            if use_fut and rng.random() < 0.4:
                comps.append(f"f{len(fids)}:{v}")
                fids.append(len(fids))
            else:
                comps.append(f"p{v}")
        prog.append("+".join(comps))
    workers = []
    if fids:
        nw = rng.randint(1, 2)
        workers = [[] for _ in range(nw)]
        order = fids[:]
        rng.shuffle(order)
        for f in order:
            workers[rng.randrange(nw)].append(f)
    kills = []
    if kind == "kill":
        r = rng.random()
        if r < 0.5:
            kills = [f"{rng.randrange(nout)}{rng.choice('ud')}" for _ in range(rng.randint(1, 2))]
        elif r < 0.8:
            prog.insert(rng.randint(0, len(prog)), "x")
        else:
            kills = [f"{rng.randrange(nout)}{rng.choice('ud')}"]
            prog.insert(rng.randint(0, len(prog)), "x")
    if kind == "malformed" and prog:
        j = rng.randrange(len(prog))
        if prog[j] != "x":
            prog[j] = "+".join(prog[j].split("+")[:-1])      # a dict without its last output -> KeyError
    return dict(cap=cap, lazy=int(lazy), outs=outs, prog=prog, workers=workers, kills=kills)


def div_small_configs(quick):
    two = [["1", 0], ["1", 0]]
    out = [
        (dict(cap=1, lazy=0, outs=two, prog=["p10+p20"], workers=[], kills=[]), 2),
        (dict(cap=1, lazy=1, outs=two, prog=["p10+p20"], workers=[], kills=[]), 2),
        (dict(cap=1, lazy=1, outs=[["1", 0], ["0", 1]], prog=["p10+p20"], workers=[], kills=[]), 1 if quick else 2),
        (dict(cap=1, lazy=0, outs=two, prog=["p10+p20", "x"], workers=[], kills=[]), 1 if quick else 2),
    ]
    if not quick:
        out += [
            (dict(cap=1, lazy=0, outs=two, prog=["p10+p20"], workers=[], kills=["1u"]), 1),
            (dict(cap=1, lazy=0, outs=two, prog=["f0:10+p20"], workers=[[0]], kills=[]), 1),
            (dict(cap=1, lazy=0, outs=two, prog=["p10+p20", "p11+p21"], workers=[], kills=[]), 2),
            (dict(cap=1, lazy=1, outs=two, prog=["p10+p20", "p11+p21"], workers=[], kills=[]), 2),
            (dict(cap=2, lazy=1, outs=[["10", 0], ["1", 0]], prog=["p10+p20"], workers=[], kills=[]), 1),   # > 30 000 schedules at bound 2
        ]
    return out


def div_explore(base, bound, limit, deadline=None):
    ex = S.Explorer(bound=bound, limit=limit)
    cases = []
    while ex.more():
        if deadline is not None and time.time() > deadline and len(cases) >= 100:
            ex.truncated = True
            break
        c = dict(base)
        line, info = run_div_real(c, ex.strategy())
        ex.finish()
        c["sched"] = info["trace"]
        c["_out"] = line
        cases.append(c)
    return cases, ex.truncated


def div_branch(case, out):
    end = out.split(" end=")[1].split(" ")[0] if " end=" in out else "?"
    free = "free" if any(f for _, f in case["outs"]) else "nofree"
    return f"{'lazy' if case['lazy'] else 'eager'}/{len(case['outs'])}out/{free}/{div_classify(case)}/{end}"


# ----------------------------------------------------------------------------- the check
@contextlib.contextmanager
def pinned():
    """keep all scheduler threads on one CPU while real runs are in progress: a hand-off between two OS threads
    on the same core costs microseconds, across cores on a loaded machine milliseconds (measured 4-8x)"""
    try:
        old = os.sched_getaffinity(0)
    except (AttributeError, OSError):
        yield
        return
    try:
        cpus = sorted(old)
        os.sched_setaffinity(0, {cpus[os.getpid() % len(cpus)]})
        yield
    finally:
        os.sched_setaffinity(0, old)


RULE = "non-trivial = at least one message, at least two distinct threads and at least two context switches in the schedule; distinct = distinct (configuration, schedule)"


def _correspond(ctx, name, cases, **kw):
    outs = {id(c): c.pop("_out") for c in cases}
    ctx.correspond(name, cases, lambda c: outs[id(c)], op_line, oracle, nontrivial=nontrivial, rule=RULE, branch=branch,
                   in_hyp=lambda c, o: classify(c) == "clean", **kw)


def run(ctx):
    rng = ctx.rng
    quick = not ctx.thorough
    ctx.note(f"stale-waiter rule of Mailbox._can_fetch read off the source: {gate_rule()} (L = compares with the lowest number, H = _has_msg)")
    # 1. systematic: every schedule with <= bound preemptions for the smallest configurations
    limit = ctx.pick(4000, 30000)
    sys_done, sys_part, trunc = [], [], []
    t0 = time.time()
    deadline = t0 + ctx.pick(90, 900)      # a busy machine truncates the largest configurations instead of running for ever
    with pinned():
        for base, bound in small_configs(quick):
            cs, t = explore(base, bound, limit, deadline)
            if t:
                sys_part += cs
                trunc.append(f"{op_line(base)} (bound {bound}: stopped after {len(cs)} schedules)")
            else:
                sys_done += cs
    if trunc:
        ctx.note(f"systematic exploration NOT exhaustive for {len(trunc)} configurations (limit {limit} schedules / time budget), "
                 "their schedules are reported under mailbox/systematic-truncated: " + "; ".join(trunc[:8]))
    ctx.note(f"systematic: {len(sys_done)} schedules of {len(small_configs(quick)) - len(trunc)} configurations explored exhaustively "
             f"up to their preemption bound {sorted({b for _, b in small_configs(quick)})}, {len(sys_part)} schedules of {len(trunc)} "
             f"truncated configurations, {time.time() - t0:.0f}s")
    _correspond(ctx, "mailbox/systematic", sys_done, exhaustive=True)
    if sys_part:
        _correspond(ctx, "mailbox/systematic-truncated", sys_part, exhaustive=False)

    # 2. random configurations x random schedules. The number of cases is the minimum below on a busy machine
    #    and grows up to the maximum while the time budget lasts (the sequence itself depends only on the seed).
    def batch(kind, n_min, n_max, budget):
        cases = []
        t1 = time.time()
        with pinned():
            while len(cases) < n_max and (len(cases) < n_min or time.time() - t1 < budget):
                c = random_config(rng, kind)
                r = rng.random()
                seed = rng.getrandbits(48)
                if r < 0.45:
                    c["strat"] = dict(kind="random", seed=seed)
                elif r < 0.75:
                    c["strat"] = dict(kind="random", seed=seed, stick=rng.choice([0.5, 0.8, 0.9]))
                else:
                    c["strat"] = dict(kind="pct", seed=seed, depth=rng.randint(1, 4), est=40)
                c["_out"] = execute(c)
                cases.append(c)
        return cases
    _correspond(ctx, "mailbox/random", batch("clean", *ctx.pick((1000, 5000, 30), (20000, 36000, 400))))
    _correspond(ctx, "mailbox/kill", batch("kill", *ctx.pick((300, 1500, 10), (6000, 10000, 120))))
    _correspond(ctx, "mailbox/malformed", batch("malformed", *ctx.pick((200, 600, 5), (2000, 4000, 50))))

    # 3. divide_outputs feeding several mailboxes (Model/Divider.lean, driver op c05.div)
    div_rule = "non-trivial = at least one dict, at least two distinct threads and at least two context switches in the schedule"
    dkw = dict(nontrivial=nontrivial, rule=div_rule, branch=div_branch, in_hyp=lambda c, o: div_classify(c) == "clean")

    def dcorr(name, cases, **kw):
        outs = {id(c): c.pop("_out") for c in cases}
        ctx.correspond(name, cases, lambda c: outs[id(c)], div_op_line, div_oracle, **dkw, **kw)

    dsys, dpart, dtrunc = [], [], []
    t2 = time.time()
    ddl = t2 + ctx.pick(30, 700)
    with pinned():
        for base, bound in div_small_configs(quick):
            cs, t = div_explore(base, bound, ctx.pick(2500, 30000), ddl)
            if t:
                dpart += cs
                dtrunc.append(f"{div_op_line(base)} (bound {bound}: stopped after {len(cs)})")
            else:
                dsys += cs
    ctx.note(f"divide_outputs systematic: {len(dsys)} schedules of {len(div_small_configs(quick)) - len(dtrunc)} configurations exhaustively, "
             f"{len(dpart)} schedules of {len(dtrunc)} truncated configurations {dtrunc[:4]}, {time.time() - t2:.0f}s")
    dcorr("divide/systematic", dsys, exhaustive=True)
    if dpart:
        dcorr("divide/systematic-truncated", dpart, exhaustive=False)

    def dbatch(kind, n_min, n_max, budget):
        cases = []
        t1 = time.time()
        with pinned():
            while len(cases) < n_max and (len(cases) < n_min or time.time() - t1 < budget):
                c = div_random_config(rng, kind)
                seed = rng.getrandbits(48)
                c["strat"] = dict(kind="random", seed=seed, stick=rng.choice([0, 0.5, 0.8])) if rng.random() < 0.7 \
                    else dict(kind="pct", seed=seed, depth=rng.randint(1, 4), est=60)
                c["_out"] = div_execute(c)
                cases.append(c)
        return cases
    dcorr("divide/random", dbatch("clean", *ctx.pick((400, 1500, 10), (3000, 6000, 90))))
    dcorr("divide/kill", dbatch("kill", *ctx.pick((200, 600, 5), (1500, 3000, 40))))
    dcorr("divide/malformed", dbatch("malformed", *ctx.pick((60, 200, 2), (400, 800, 10))))


def search(ctx):
    """an obligation broke: oracle-only hunt on the real code"""
    rng = ctx.rng
    cases = []
    t0 = time.time()
    while len(cases) < 15000 and time.time() - t0 < ctx.pick(60, 600):
        c = random_config(rng, "clean" if rng.random() < 0.7 else "kill")
        c["strat"] = dict(kind="pct", seed=rng.getrandbits(48), depth=rng.randint(1, 4), est=40) if rng.random() < 0.5 \
            else dict(kind="random", seed=rng.getrandbits(48), stick=rng.choice([0, 0.5, 0.9]))
        c["_out"] = execute(c)
        cases.append(c)
    outs = {id(c): c.pop("_out") for c in cases}
    ctx.check_oracle("search/mailbox", cases, lambda c: outs[id(c)], oracle)


def replay(ctx, body):
    if body.get("case") is None:
        return f"obligation {body['component']} has no input to replay (no-failing-input-found); re-run the check"
    case = dict(body["case"]["case"])
    if body["component"].startswith("divide"):
        case.pop("_out", None)
        out = div_execute(case)
        print("implementation output:", out)
        return div_oracle(case, out)
    case.pop("_out", None)
    out = execute(case)
    print("implementation output:", out)
    return oracle(case, out)
