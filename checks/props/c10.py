"""C10 — time-range, row and column selections commute with chunking and storage.

Model: lean/StraxModel/Model/Selection.lean (loader pruning + apply_time_range, apply_selection,
to_absolute_time_range incl. run start from a run document or from the data, get_iter epilogue, `savePlan` = single-output
slice of check_cache) and Model/SelectionMulti.lean (several same-kind targets through Model/Align.lean);
theorems: Props/C10.lean, Props/C10Multi.lean; lemmas: Lemmas/Selection.lean, Lemmas/SelectionMulti.lean.

Tie: REAL stored data.  A tiny source plugin and a dependent plugin of the same data kind are made once
into temporary DataDirectories in three on-disk layouts of the same runs (the source's own chunking, many
tiny chunks incl. a zero-length one, one giant chunk) plus mixed directories (source giant / dependent tiny
and vice versa) and a directory whose frontend provides a run document.  Runs: `a` (ns grid near 0), `s` (2^-9 s grid),
`e` (ns grid at a unix-epoch run start 1.7e18 > 2^53), random runs.  Then
  * `strax.apply_selection` directly (exhaustive small scope: rows x ranges x modes; column sets),
  * `StorageFrontend.loader(key, time_range)` directly (every range with endpoints on / just inside / just
    outside every row and chunk boundary, every layout),
  * `Context.to_absolute_time_range` (time_range | seconds_range | time_within and their combinations; run start from the
    data and from the run document; epoch-scale starts),
  * `Context.get_array(...)` end to end (both processors; single target, dependent target, both same-kind
    targets together from differently chunked directories; selection string / list of strings / callable;
    keep_columns / drop_columns), the `get_iter` epilogue through a processor that yields nothing,
  * partial requests for targets that are not stored (compute counters + directory listing)
are compared line by line with the compiled Lean driver.

Oracle (independent of the model): numpy filter + projection of the full unrestricted result; error iff a proper range
is disjoint from the run; seconds_range endpoints = run start + trunc(1e9*s) computed with Fractions; directory listings
unchanged by partial requests.  Two dedicated probes carry the open findings with an exact expectation
(`degenerate-range/layout-independence`, `columns/drop-all`); any other outcome there is a new violation.
"""
from __future__ import annotations

import contextlib
import io
import itertools
import json
import logging
import os
import shutil
import tempfile
import threading
from collections import Counter
from fractions import Fraction

from lib import gen
from lib import straxlib as sl          # must be the first strax import (private numba cache)
from lib.straxlib import strax

import numpy as np

ID = "C10"
LEAN_MODULES = ["StraxModel.Props.C10", "StraxModel.Props.C10Multi"]
TRUSTED = [
    "modelled not verified: numexpr evaluation of selection strings (the model has an abstract row predicate; the harness "
    "generates strings / string lists / callables from a five-atom language and evaluates the same atoms in plain Python for the oracle)",
    "modelled not verified: numpy boolean masking / np.concatenate in get_array; tqdm progress bar; FileSytemBackend chunk files "
    "(the stored layout handed to the model is read back from the real directory with the real loader, without a time range)",
    "Model/Align.lean (Plugin.iter, property C08) for several same-kind targets; Props/C10Multi.lean uses C08's theorems",
    "`savePlan` (Model/Selection.lean) is a second, single-output model of check_cache next to C11's Model/Components.lean; it is tied "
    "here only by the exhaustive `partial-requests/no-saving` component (the full statement is Strax.C11.partial_never_saves)",
]
ASSUMPTIONS = [
    "seconds_range values are rationals n/d whose float conversion int(1e9*(n/d)) equals the exact truncation of 1e9*n/d (dyadic values and most k/1e9), also at an epoch-scale run start (1.7e18 > 2^53); the run start is the run document's `start` floored to a second when "
    "the frontend provides one (directory `rundoc`), else the first chunk start floored to a second",
    "theorems assume rows of positive duration and plain (non-superrun) chunks (`LawAbiding`, checked on every stored layout by `hypothesis/law-abiding`)",
    "ordinary runs only (time ranges on superruns raise NotImplementedError in get_components; C14)",
    "rechunk_on_load=False (default); chunk_number requests not generated",
]

logging.disable(logging.CRITICAL)
try:                                      # numexpr wakes one thread per core for every tiny selection string
    import numexpr
    numexpr.set_num_threads(1)
except Exception:  # noqa: BLE001
    pass
threading.excepthook = lambda a: None     # pipeline threads of failing requests print tracebacks otherwise

U = 1953125            # 2**-9 s in ns: seconds_range endpoints m/512 s are exact in float arithmetic

DT_SRC = np.dtype([(("Start time", "time"), np.int64), (("End time", "endtime"), np.int64), (("Identity", "id"), np.int64)])
DT_DEP = np.dtype([(("Start time", "time"), np.int64), (("Length", "length"), np.int32), (("Width", "dt"), np.int16),
                   (("Value", "val"), np.int64)])
DT_CALC = np.dtype([(("Start time", "time"), np.int64), (("End time", "endtime"), np.int64), (("C", "cc"), np.int64)])

# ----------------------------------------------------------------------------- the tiny real plugins
_RUNS: dict = {}        # run_id -> dict(rows=[(t, e, id)], start, end, unit, base)
_CUTS: dict = {}        # layout -> run_id -> [cut times]
_CUR = {"layout": None}
_COMPUTES: Counter = Counter()


class Src(strax.Plugin):
    """source: rows and chunking come from the harness tables (same lineage for every layout)"""
    provides = "src"
    depends_on = ()
    dtype = DT_SRC
    data_kind = "things"
    rechunk_on_save = False
    __version__ = "1"

    def _cuts(self):
        return _CUTS[_CUR["layout"]][self.run_id]

    def is_ready(self, chunk_i):
        return chunk_i < len(self._cuts()) - 1

    def source_finished(self):
        return True

    def compute(self, chunk_i):
        cuts = self._cuts()
        s, e = cuts[chunk_i], cuts[chunk_i + 1]
        rows = [r for r in _RUNS[self.run_id]["rows"] if s <= r[0] and r[1] <= e and s < e]
        a = np.zeros(len(rows), DT_SRC)
        for i, r in enumerate(rows):
            a[i] = tuple(r)
        return self.chunk(start=s, end=e, data=a)


class Dep(strax.Plugin):
    """same kind, same rows, other columns and another interval encoding (time, length, dt)"""
    provides = "dep"
    depends_on = ("src",)
    dtype = DT_DEP
    data_kind = "things"
    rechunk_on_save = False
    __version__ = "1"

    def compute(self, things):
        _COMPUTES["dep"] += 1
        a = np.zeros(len(things), DT_DEP)
        a["time"] = things["time"]
        a["dt"] = 1
        a["length"] = things["endtime"] - things["time"]
        a["val"] = things["id"] * 3 + 1
        return a


class _CalcBase(strax.Plugin):
    depends_on = ("dep",)
    dtype = DT_CALC
    data_kind = "things"
    rechunk_on_save = False
    __version__ = "1"

    def compute(self, things):
        _COMPUTES[self.provides[0]] += 1
        a = np.zeros(len(things), DT_CALC)
        a["time"] = things["time"]
        a["endtime"] = strax.endtime(things)
        a["cc"] = things["val"] + 100
        return a


class CalcNever(_CalcBase):
    provides = "calc_never"
    save_when = strax.SaveWhen.NEVER


class CalcExplicit(_CalcBase):
    provides = "calc_explicit"
    save_when = strax.SaveWhen.EXPLICIT


class CalcTarget(_CalcBase):
    provides = "calc_target"
    save_when = strax.SaveWhen.TARGET


class CalcAlways(_CalcBase):
    provides = "calc_always"
    save_when = strax.SaveWhen.ALWAYS


PLUGINS = [Src, Dep, CalcNever, CalcExplicit, CalcTarget, CalcAlways]
ID_COL = {"src": "id", "dep": "val", "calc_never": "cc", "calc_explicit": "cc", "calc_target": "cc", "calc_always": "cc"}


class NothingProcessor:
    """a processor that yields no chunk at all: reaches the epilogue of get_iter"""

    def __init__(self, *a, **k):
        pass

    def iter(self):
        return iter(())


def ids_from(a):
    """row identities of a returned array, from whichever identifying columns survived"""
    names = a.dtype.names or ()
    if "id" in names:
        return [int(x) for x in a["id"]]
    if "val" in names:
        return [int((x - 1) // 3) for x in a["val"]]
    if "cc" in names:
        return [int((x - 101) // 3) for x in a["cc"]]
    return None


# ----------------------------------------------------------------------------- world: runs, layouts, directories
class World:
    def __init__(self, rng, n_random):
        self.base = tempfile.mkdtemp(prefix="verif_c10_")
        self.ctxs = {}
        self.layout_cache = {}
        self.full = {}
        self.listing0 = {}
        self._define_runs(rng, n_random)
        self._make()

    def close(self):
        shutil.rmtree(self.base, ignore_errors=True)

    # -- runs: rows on a small grid g -> base + unit*2g ; range endpoints live on the half grid base + unit*k
    def _define_runs(self, rng, n_random):
        def add(run_id, grid_rows, grid_end, unit, base, cuts_orig):
            T = lambda g: base + unit * 2 * g  # noqa: E731
            rows = [(T(a), T(b), i) for i, (a, b) in enumerate(grid_rows)]
            assert len({(r[0], r[1]) for r in rows}) == len(rows)
            s, e = T(0), T(grid_end)
            adm = [g for g in range(0, grid_end + 1) if not any(a < g < b for a, b in grid_rows)]
            tiny = [T(g) for g in adm]
            # one zero-length chunk in the tiny layout
            k = len(tiny) // 2
            tiny = tiny[:k] + [tiny[k]] + tiny[k:]
            _RUNS[run_id] = dict(rows=rows, start=s, end=e, unit=unit, base=base, grid_rows=grid_rows, grid_end=grid_end)
            for lay, cuts in (("orig", [T(g) for g in cuts_orig]), ("tiny", tiny), ("giant", [s, e])):
                _CUTS.setdefault(lay, {})[run_id] = cuts

        # run A: the exhaustive one. overlapping, touching, gap, same start with different lengths
        add("a", [(1, 3), (2, 4), (4, 5), (6, 7), (6, 8)], 9, 1, 8, [0, 4, 6, 9])
        # run S: same shape on the 2**-9 s grid, run start not on a whole second (seconds_range, time_within)
        add("s", [(1, 3), (2, 4), (4, 5), (6, 7), (6, 8)], 9, U, 3 * 10**9 + 10 * U, [0, 4, 6, 9])
        # run E: same shape at a realistic unix-epoch start (> 2**53 ns): data begins 500 ns after a whole second, so the
        # run start used by seconds_range is 1.7e18 and float arithmetic on absolute times has a ~256 ns grid
        add("e", [(1, 3), (2, 4), (4, 5), (6, 7), (6, 8)], 9, 1, 1_700_000_000 * 10**9 + 500, [0, 4, 6, 9])
        # run N: NESTED rows — an early row that outlasts every later row of its chunk, so the chunk's recorded `last_endtime`
        # (end of the last row in time order) is smaller than the latest end in the chunk; a range that only touches the tail of
        # the long row must still load it (a reader pruning chunks by first_time / last_endtime would not)
        add("n", [(1, 6), (2, 3), (3, 4), (7, 8)], 9, 1, 20, [0, 6, 9])
        # random runs
        for j in range(n_random):
            rows = gen.gen_rows(rng, rng.randint(3, 8), max_len=3)
            seen, grid_rows = set(), []
            for a, b, _ in rows:
                if (a, b) not in seen:
                    seen.add((a, b))
                    grid_rows.append((a + 1, b + 1))
            grid_end = max(b for _, b in grid_rows) + rng.randint(0, 2)
            adm = [g for g in range(1, grid_end) if not any(a < g < b for a, b in grid_rows)]
            cuts = [0] + sorted(g for g in adm if rng.random() < 0.35) + [grid_end]
            add(f"r{j}", grid_rows, grid_end, 1, rng.randint(0, 40), cuts)
        self.runs = list(_RUNS)

    def ctx(self, name):
        if name not in self.ctxs:
            self.ctxs[name] = strax.Context(storage=[strax.DataDirectory(os.path.join(self.base, name), provide_run_metadata=(name == "rundoc"))],
                                            register=PLUGINS)
        return self.ctxs[name]

    def _make(self):
        with contextlib.redirect_stdout(io.StringIO()):
            for lay in ("orig", "tiny", "giant"):
                _CUR["layout"] = lay
                st = self.ctx(lay)
                for run in self.runs:
                    st.make(run, "src")
                    st.make(run, "dep")
        _CUR["layout"] = None
        # mixed directories: the two same-kind data types chunked differently
        for name, (ls, ld) in {"mix_gt": ("giant", "tiny"), "mix_tg": ("tiny", "giant"), "mix_og": ("orig", "giant")}.items():
            d = os.path.join(self.base, name)
            os.makedirs(d)
            for lay, dt in ((ls, "src"), (ld, "dep")):
                for p in sorted(os.listdir(os.path.join(self.base, lay))):
                    if f"-{dt}-" in p:
                        shutil.copytree(os.path.join(self.base, lay, p), os.path.join(d, p))
        # a directory whose frontend provides a run document for run `e`: start 2.75 s before the first whole second of the data
        d = os.path.join(self.base, "rundoc")
        os.makedirs(d)
        for p in sorted(os.listdir(os.path.join(self.base, "orig"))):
            if p.startswith("e-"):
                shutil.copytree(os.path.join(self.base, "orig", p), os.path.join(d, p))
        import datetime
        t0e = (_RUNS["e"]["start"] // 10**9)
        self.rundoc_start_s = t0e - 3
        start = datetime.datetime.utcfromtimestamp(t0e - 3) + datetime.timedelta(microseconds=250000)
        self.ctx("rundoc").storage[0].write_run_metadata("e", dict(start=start, end=start + datetime.timedelta(seconds=20)))
        self.layouts = ["orig", "tiny", "giant", "mix_gt", "mix_tg", "mix_og", "rundoc"]
        for lay in self.layouts:
            self.listing0[lay] = self.listing(lay)
        for run in self.runs:
            for tg in (("src",), ("dep",), ("src", "dep"), ("dep", "src")):
                self.full[(run, tg)] = self.ctx("giant").get_array(run, tg if len(tg) > 1 else tg[0], progress_bar=False)

    def listing(self, lay):
        out = []
        root = os.path.join(self.base, lay)
        for dp, _dn, fn in os.walk(root):
            for f in fn:
                p = os.path.join(dp, f)
                out.append((os.path.relpath(p, root), os.path.getsize(p)))
        return sorted(out)

    # -- what is on disk, read back with the real loader (no time range)
    def stored(self, lay, run, dt):
        k = (lay, run, dt)
        if k not in self.layout_cache:
            st = self.ctx(lay)
            chunks = []
            for c in st.storage[0].loader(st.key_for(run, dt)):
                ids = ids_from(c.data)
                rows = [(int(t), int(e), i) for t, e, i in zip(c.data["time"], strax.endtime(c.data), ids)]
                chunks.append((int(c.start), int(c.end), rows))
            self.layout_cache[k] = chunks
        return self.layout_cache[k]

    def layout_tok(self, lay, run, dt):
        return ";".join([dt, "things"] + [f"{a}~{b}~{sl.show_rows(rows)}" for a, b, rows in self.stored(lay, run, dt)])

    def boundaries(self, run):
        """every row boundary and every chunk boundary of any layout"""
        b = set()
        for r in _RUNS[run]["rows"]:
            b.update((r[0], r[1]))
        for lay in ("orig", "tiny", "giant"):
            b.update(_CUTS[lay][run])
        return sorted(b)

    def exact_secs(self, run, t0run=None):
        """seconds-since-run-start (reduced fractions n/d) of every endpoint whose float conversion is exact"""
        t0run = (_RUNS[run]["start"] // 10**9) * 10**9 if t0run is None else t0run
        out = []
        for p in self.endpoints(run):
            m = Fraction(p - t0run, 10**9)
            if sec_exact((m.numerator, m.denominator)):
                out.append((m.numerator, m.denominator))
        return out

    def endpoints(self, run):
        """on, just inside and just outside every boundary (half-grid step), plus points well outside the run"""
        u = _RUNS[run]["unit"]
        pts = set()
        for b in self.boundaries(run):
            pts.update((b - u, b, b + u))
        pts.update((_RUNS[run]["start"] - 3 * u, _RUNS[run]["end"] + 3 * u))
        return sorted(pts)


W: World | None = None


# ----------------------------------------------------------------------------- selection language
def atom_py(atom):
    k = atom.split(":")
    if k[0] == "ige":
        return lambda t, e, i: i >= int(k[1])
    if k[0] == "ile":
        return lambda t, e, i: i <= int(k[1])
    if k[0] == "imod":
        return lambda t, e, i: i % int(k[1]) == int(k[2])
    if k[0] == "tge":
        return lambda t, e, i: t >= int(k[1])
    if k[0] == "dge":
        return lambda t, e, i: e - t >= int(k[1])
    raise ValueError(atom)


def atom_str(atom, names):
    """numexpr text of an atom for an array with these field names"""
    k = atom.split(":")
    end = "endtime" if "endtime" in names else "(time + length * dt)"
    if "id" in names:
        idx = {"ige": lambda: f"id >= {k[1]}", "ile": lambda: f"id <= {k[1]}", "imod": lambda: f"(id % {k[1]}) == {k[2]}"}
    elif "val" in names:
        idx = {"ige": lambda: f"val >= {3 * int(k[1]) + 1}", "ile": lambda: f"val <= {3 * int(k[1]) + 1}",
               "imod": lambda: f"(val % {3 * int(k[1])}) == {3 * int(k[2]) + 1}"}
    else:
        idx = {"ige": lambda: f"cc >= {3 * int(k[1]) + 101}", "ile": lambda: f"cc <= {3 * int(k[1]) + 101}",
               "imod": lambda: f"((cc - 101) % {3 * int(k[1])}) == {3 * int(k[2])}"}
    if k[0] in idx:
        return idx[k[0]]()
    if k[0] == "tge":
        return f"time >= {k[1]}"
    if k[0] == "dge":
        return f"({end} - time) >= {k[1]}"
    raise ValueError(atom)


def selection_arg(pred, form, names):
    """the `selection=` argument in one of its three accepted forms"""
    if pred == "-":
        return None
    atoms = pred.split("&")
    if form == "str":
        return " & ".join(f"({atom_str(a, names)})" for a in atoms)
    if form == "list":
        return [atom_str(a, names) for a in atoms]
    fs = [atom_py(a) for a in atoms]

    def call(x):
        ids = np.array(ids_from(x), dtype=np.int64) if len(x) else np.zeros(0, np.int64)
        t, e = x["time"], strax.endtime(x)
        m = np.ones(len(x), dtype=bool)
        for f in fs:
            m &= np.array([bool(f(int(a), int(b), int(c))) for a, b, c in zip(t, e, ids)], dtype=bool)
        return m
    return call


def pred_holds(pred, row):
    if pred == "-":
        return True
    return all(atom_py(a)(*row) for a in pred.split("&"))


def random_pred(rng, run):
    if rng.random() < 0.35:
        return "-"
    n = len(_RUNS[run]["rows"])
    rows = _RUNS[run]["rows"]
    u = _RUNS[run]["unit"]
    atoms = []
    for _ in range(rng.randint(1, 3)):
        kind = rng.choice(["ige", "ile", "imod", "tge", "dge"])
        if kind in ("ige", "ile"):
            atoms.append(f"{kind}:{rng.randint(0, n)}")
        elif kind == "imod":
            m = rng.randint(2, 3)
            atoms.append(f"imod:{m}:{rng.randint(0, m - 1)}")
        elif kind == "tge":
            atoms.append(f"tge:{rng.choice(rows)[0] + rng.choice([-u, 0, u])}")
        else:
            atoms.append(f"dge:{rng.choice([1, 2, 3, 4]) * u}")
    return "&".join(atoms)


# ----------------------------------------------------------------------------- time arguments
def targs_tok(ta):
    """ta: dict with optional keys tr=(t0,t1), sr=((n,d),(n,d)), tw=(time,endtime)"""
    parts = []
    if "tr" in ta:
        parts.append(f"tr:{ta['tr'][0]}:{ta['tr'][1]}")
    if "sr" in ta:
        (a, b), (c, d) = ta["sr"]
        parts.append(f"sr:{a}/{b}:{c}/{d}")
    if "tw" in ta:
        parts.append(f"tw:{ta['tw'][0]}:{ta['tw'][1]}")
    if "rs" in ta:      # context, not an argument: whole-second start of the run document of this directory
        parts.append(f"rs:{ta['rs']}")
    return "+".join(parts) if parts else "-"


def targs_kwargs(ta):
    kw = {}
    if "tr" in ta:
        kw["time_range"] = tuple(ta["tr"])
    if "sr" in ta:
        (a, b), (c, d) = ta["sr"]
        kw["seconds_range"] = (a / b, c / d)
    if "tw" in ta:
        enc = ta.get("tw_enc", "end")
        w = np.zeros(1, dtype=DT_SRC if enc == "end" else DT_DEP)
        w["time"] = ta["tw"][0]
        if enc == "end":
            w["endtime"] = ta["tw"][1]
        else:
            w["dt"] = 1
            w["length"] = ta["tw"][1] - ta["tw"][0]
        kw["time_within"] = w[0]
    return kw


def sec_exact(frac):
    """does the clean float expression int(1e9 * (n / d)) give the exact truncation of 1e9 * n/d ?
    (true for dyadic values and for most k/1e9; only such values are generated, so the intended
    endpoint `t0 + trunc(1e9 * s)` is computable with Python ints / Fractions)"""
    n, d = frac
    x = Fraction(10**9) * Fraction(n, d)
    exact = int(x) if x >= 0 else -int(-x)
    return int(1e9 * (n / d)) == exact


def abs_range(ta, run):
    """the property's reading of the time arguments: absolute (t0, t1) or None; later argument wins as documented in the model"""
    if "tw" in ta:
        return tuple(ta["tw"])
    if "sr" in ta:
        t0 = ta["rs"] * 10**9 if "rs" in ta else (_RUNS[run]["start"] // 10**9) * 10**9
        out = []
        for n, d in ta["sr"]:
            x = Fraction(10**9) * Fraction(n, d)
            out.append(t0 + (int(x) if x >= 0 else -int(-x)))
        return tuple(out)
    if "tr" in ta:
        return tuple(ta["tr"])
    return None


MODE_KW = {"fc": "fully_contained", "to": "touching", "skip": "skip", "bogus": "bogus"}


def in_range(mode, tr, row):
    t, e, _ = row
    if mode == "fc":
        return tr[0] <= t and e <= tr[1]
    if mode == "to":
        return e > tr[0] and t < tr[1]
    return True


# ----------------------------------------------------------------------------- 1. apply_selection directly
def impl_sel(case):
    arr = sl.mk_array(case["rows"], case.get("enc", "end"))
    names = arr.dtype.names
    kw = dict(time_selection=MODE_KW[case["mode"]])
    if case["tr"] is not None:
        kw["time_range"] = tuple(case["tr"])
    sel = selection_arg(case["pred"], case.get("form", "str"), names)
    if sel is not None:
        kw["selection"] = sel
    if case["keep"] is not None:
        kw["keep_columns"] = tuple(case["keep"]) if case.get("keep_tuple", True) else case["keep"][0]
    if case["drop"] is not None:
        kw["drop_columns"] = tuple(case["drop"])

    def f():
        x = strax.apply_selection(arr, **kw)
        ids = ids_from(x)
        if ids is None:
            # identify rows by their interval (unique per case by construction)
            lookup = {(r[0], r[1]): r[2] for r in case["rows"]}
            nm = x.dtype.names
            if "time" in nm and ("endtime" in nm or ("length" in nm and "dt" in nm)):
                ids = [lookup[(int(a), int(b))] for a, b in zip(x["time"], strax.endtime(x))]
            else:
                ids = [r[2] for r in case["rows"]] if len(x) == len(case["rows"]) else ["?"] * len(x)
        return f"{','.join(map(str, ids)) if ids else '-'} | {','.join(x.dtype.names)}"
    return sl.guarded(f)


def op_sel(case):
    tr = case["tr"]
    fields = ",".join(sl.DTYPES[case.get("enc", "end")].names)
    show = lambda l: ",".join(l) if l else "-"  # noqa: E731
    return (f"c10.sel {case['mode']} {tr[0] if tr else '-'} {tr[1] if tr else '-'} {case['pred']} {fields} "
            f"{show(case['keep'])} {show(case['drop'])} {sl.show_rows(case['rows'])}")


def oracle_sel(case, out):
    """interval reading of the two modes on proper ranges; projection = field order of the dtype"""
    rows, tr, mode = [tuple(r) for r in case["rows"]], case["tr"], case["mode"]
    fields = list(sl.DTYPES[case.get("enc", "end")].names)
    keep, drop = case["keep"], case["drop"]
    if out.startswith("err"):
        if keep and drop:
            return None
        if keep and any(k not in fields for k in keep):
            return None
        if mode == "bogus" and tr is not None:
            return None
        return f"selection failed without reason: {out}"
    if (keep and drop) or (mode == "bogus" and tr is not None) or (keep and any(k not in fields for k in keep)):
        return "contradictory / unknown arguments accepted"
    ids_s, cols_s = out[3:].split(" | ")
    ids = [] if ids_s == "-" else [int(x) for x in ids_s.split(",")]
    if tr is not None and tr[0] < tr[1] and mode in ("fc", "to"):
        if mode == "fc":   # [time, endtime) inside [t0, t1)
            exp = [r for r in rows if tr[0] <= r[0] and r[1] <= tr[1]]
        else:              # [time, endtime) intersects [t0, t1)
            exp = [r for r in rows if max(r[0], tr[0]) < min(r[1], tr[1])]
        exp = [r[2] for r in exp if pred_holds(case["pred"], r)]
        if ids != exp:
            return f"rows {ids} != rows of the array {'inside' if mode == 'fc' else 'intersecting'} [{tr[0]},{tr[1]}) = {exp}"
    if tr is None or mode == "skip":
        exp = [r[2] for r in rows if pred_holds(case["pred"], r)]
        if ids != exp:
            return f"rows {ids} != rows satisfying the selection {exp}"
    if keep:
        exp_cols = [f for f in fields if f in keep]
    elif drop:
        exp_cols = [f for f in fields if f not in drop]
        if not exp_cols:
            return None      # dropping every column: see the dedicated component `columns/drop-all`
    else:
        exp_cols = fields
    if cols_s.split(",") != exp_cols:
        return f"columns {cols_s} != projection {exp_cols}"
    return None


# ----------------------------------------------------------------------------- 2. to_absolute_time_range
def impl_abs(case):
    st = W.ctx(case["layout"])

    def f():
        r = st.to_absolute_time_range(case["run"], targets=case["target"], **targs_kwargs(case["ta"]))
        if r is None:
            return "none"
        assert all(isinstance(x, int) for x in r)
        return f"{r[0]} {r[1]}"
    return sl.guarded(f)


def op_abs(case):
    return f"c10.abs {W.layout_tok(case['layout'], case['run'], case['target'])} {targs_tok(case['ta'])}"


def oracle_abs(case, out):
    ta = case["ta"]
    if len([k for k in ("tr", "sr", "tw") if k in ta]) == 3:
        return None if out.startswith("err") else "three time arguments at once accepted"
    if out.startswith("err"):
        return f"conversion failed: {out}"
    exp = abs_range(ta, case["run"])
    got = None if out == "ok none" else tuple(int(x) for x in out[3:].split(" "))
    if len([k for k in ("tr", "sr", "tw") if k in ta]) == 1 and got != exp:    # (`rs` is context, not an argument)
        return f"absolute range {got} != {exp}"
    return None


# ----------------------------------------------------------------------------- 3. the loader
def impl_load(case):
    st = W.ctx(case["layout"])

    def f():
        out = []
        for c in st.storage[0].loader(st.key_for(case["run"], case["dt"]), time_range=tuple(case["tr"])):
            ids = ids_from(c.data)
            out.append(f"{int(c.start)}~{int(c.end)}~{','.join(map(str, ids)) if ids else '-'}")
        return " ".join(out) if out else "-"
    return sl.guarded(f)


def op_load(case):
    return f"c10.load {W.layout_tok(case['layout'], case['run'], case['dt'])} {case['tr'][0]} {case['tr'][1]}"


def oracle_load(case, out):
    """what a loaded range must look like, whatever the chunking: nothing partial, nothing shifted"""
    run, (t0, t1) = _RUNS[case["run"]], case["tr"]
    if t0 >= t1:
        return None
    if out.startswith("err"):
        return f"loader failed: {out}"
    disjoint = t1 <= run["start"] or run["end"] <= t0
    if disjoint:
        return None if out == "ok -" else "chunks returned for a range outside the run"
    if out == "ok -":
        return "no chunk although the range overlaps the run"
    chunks = []
    for tok in out[3:].split(" "):
        a, b, ids = tok.split("~")
        chunks.append((int(a), int(b), [] if ids == "-" else [int(x) for x in ids.split(",")]))
    byid = {r[2]: r for r in run["rows"]}
    for (a, b, _), (c, d, _) in zip(chunks[:-1], chunks[1:]):
        if b != c:
            return f"loaded chunks not adjacent at {b}/{c}"
    for a, b, ids in chunks:
        if a > b or any(not (a <= byid[i][0] and byid[i][1] <= b) for i in ids):
            return "a loaded row lies outside its chunk"
    got = [i for _, _, ids in chunks for i in ids]
    all_ids = [r[2] for r in run["rows"]]
    if got != [i for i in all_ids if i in set(got)] or len(set(got)) != len(got):
        return "loaded rows are not a duplicate-free subsequence of the stored rows"
    need = [r[2] for r in run["rows"] if r[1] > t0 and r[0] < t1]
    if any(i not in got for i in need):
        return f"rows {sorted(set(need) - set(got))} touch the range but were not loaded"
    if chunks[0][0] > max(t0, run["start"]) or chunks[-1][1] < min(t1, run["end"]):
        return "loaded chunks do not cover the requested part of the run"
    return None


# ----------------------------------------------------------------------------- 4. get_array end to end
_SIDE: dict = {}


def get_kwargs(case, names):
    kw = dict(targs_kwargs(case["ta"]))
    if case["mode"] != "fc" or case.get("explicit_mode"):
        kw["time_selection"] = MODE_KW[case["mode"]]
    sel = selection_arg(case["pred"], case.get("form", "str"), names)
    if sel is not None:
        kw["selection"] = sel
    if case["keep"] is not None:
        kw["keep_columns"] = tuple(case["keep"]) if case.get("keep_tuple", True) else case["keep"][0]
    if case["drop"] is not None:
        kw["drop_columns"] = tuple(case["drop"])
    return kw


def impl_get(case):
    st = W.ctx(case["layout"])
    tg = tuple(case["targets"])
    full = W.full[(case["run"], tg)]
    kw = get_kwargs(case, full.dtype.names)

    def f():
        a = st.get_array(case["run"], tg if len(tg) > 1 else tg[0], progress_bar=False, processor=case["proc"], **kw)
        _SIDE[case["k"]] = a
        ids = ids_from(a)
        if ids is None:
            lookup = {(r[0], r[1]): r[2] for r in _RUNS[case["run"]]["rows"]}
            nm = a.dtype.names
            if "time" in nm and ("endtime" in nm or ("length" in nm and "dt" in nm)):
                ids = [lookup.get((int(x), int(y)), "?") for x, y in zip(a["time"], strax.endtime(a))]
            else:
                ids = ["?"] * len(a)
        return f"{','.join(map(str, ids)) if ids else '-'} | {','.join(a.dtype.names)}"
    return sl.guarded(f)


def op_get(case):
    tg = tuple(case["targets"])
    fields = ",".join(W.full[(case["run"], tg)].dtype.names)
    show = lambda l: ",".join(l) if l else "-"  # noqa: E731
    head = f"{fields} {targs_tok(case['ta'])} {case['mode']} {case['pred']} {show(case['keep'])} {show(case['drop'])}"
    if len(tg) == 1:
        return f"c10.get {head} {W.layout_tok(case['layout'], case['run'], tg[0])}"
    return f"c10.multi {head} " + " ".join(W.layout_tok(case["layout"], case["run"], t) for t in tg)


def expected_get(case):
    """numpy filter + projection of the full unrestricted result; returns (kind, array|None)"""
    tg = tuple(case["targets"])
    full = W.full[(case["run"], tg)]
    fields = list(full.dtype.names)
    keep, drop, mode = case["keep"], case["drop"], case["mode"]
    n_ta = len([k for k in ("tr", "sr", "tw") if k in case["ta"]])
    if n_ta == 3 or (keep and drop) or (keep and any(k not in fields for k in keep)):
        return "error", None
    tr = abs_range(case["ta"], case["run"])
    if tr is not None and mode == "bogus":
        return "error-or-nochunk", None
    ids = np.array(ids_from(full))
    t, e = full["time"], strax.endtime(full)
    m = np.ones(len(full), dtype=bool)
    if tr is not None and mode == "fc":
        m &= (tr[0] <= t) & (e <= tr[1])
    elif tr is not None and mode == "to":
        m &= (e > tr[0]) & (t < tr[1])
    m &= np.array([pred_holds(case["pred"], (int(a), int(b), int(c))) for a, b, c in zip(t, e, ids)], dtype=bool)
    x = full[m]
    if keep:
        cols = [f for f in fields if f in keep]
    elif drop:
        cols = [f for f in fields if f not in drop] or fields      # drop-all: see `columns/drop-all`
    else:
        cols = fields
    y = np.zeros(len(x), dtype=[d for d in strax.unpack_dtype(x.dtype) if (d[0][1] if isinstance(d[0], tuple) else d[0]) in cols])
    for c in cols:
        y[c] = x[c]
    return "ok", y


def oracle_get(case, out):
    run = _RUNS[case["run"]]
    kind, exp = expected_get(case)
    tr = abs_range(case["ta"], case["run"])
    if kind == "error":
        return None if out.startswith("err") else "contradictory / unknown arguments accepted"
    if kind == "error-or-nochunk":
        return None if out.startswith("err") else "unknown time_selection accepted"
    if case["mode"] == "skip" and tr is not None:
        return None      # `skip` with a range returns whatever chunks were loaded: outside the property
    if out.startswith("err"):
        if tr is None:
            return f"unrestricted request failed: {out}"
        if tr[0] < tr[1]:
            if tr[1] <= run["start"] or run["end"] <= tr[0]:
                return None          # range overlaps no chunk: explicit error
            return f"range [{tr[0]},{tr[1]}) overlaps the run [{run['start']},{run['end']}) but the request failed: {out}"
        # empty / reversed range: error or empty result (layout dependence: component `degenerate/...`)
        return None if len(exp) == 0 else f"rows selected by the predicate but the request failed: {out}"
    if tr is not None and tr[0] < tr[1] and (tr[1] <= run["start"] or run["end"] <= tr[0]):
        return "range overlaps no chunk but no error was raised"
    a = _SIDE.get(case["k"])
    if a is None:
        return "internal: result not recorded"
    if a.dtype.names != exp.dtype.names:
        return f"columns {a.dtype.names} != projection {exp.dtype.names} of the full result"
    if len(a) != len(exp) or not all(np.array_equal(a[n], exp[n]) for n in exp.dtype.names):
        got = ids_from(a)
        return f"result (ids {got}) != numpy filter of the full result (ids {ids_from(exp)})"
    if len(case["targets"]) > 1 and "id" in a.dtype.names and "val" in a.dtype.names:
        if not np.array_equal(a["val"], a["id"] * 3 + 1):
            return "columns of the two same-kind targets are misaligned"
    return None


def branch_get(case, out):
    tr = abs_range(case["ta"], case["run"])
    kind = "none" if tr is None else ("proper" if tr[0] < tr[1] else "degenerate")
    res = "err:" + out[4:] if out.startswith("err") else ("empty" if out.startswith("ok - ") else "rows")
    return f"{'+'.join(case['targets'])}:{case['mode']}:{kind}:{res}"


def nontrivial_get(case, out):
    """a range that actually cuts the run, or a selection / projection that actually removes something"""
    tr = abs_range(case["ta"], case["run"])
    run = _RUNS[case["run"]]
    cuts = tr is not None and (run["start"] < tr[0] < run["end"] or run["start"] < tr[1] < run["end"])
    return cuts or case["pred"] != "-" or case["keep"] is not None or case["drop"] is not None


# ----------------------------------------------------------------------------- 5. epilogue of get_iter
def impl_epi(case):
    st = W.ctx("giant")
    kw = {"time_range": (W_first_row()[0], W_first_row()[1])} if case["has_range"] else {}

    def f():
        proc = NothingProcessor if not case["seen"] else "single_thread"
        n = len(list(st.get_iter("a", "dep", processor=proc, progress_bar=False, **kw)))
        return "-" if n > 0 else "no-chunk-no-error"
    return sl.guarded(f)


def W_first_row():
    return _RUNS["a"]["rows"][0]


def oracle_epi(case, out):
    if not case["seen"] and not out.startswith("err"):
        return "no chunk was produced and no error was raised"
    if case["seen"] and out != "ok -":
        return f"ordinary request failed: {out}"
    return None


# ----------------------------------------------------------------------------- 6. partial requests never save
def impl_plan(case):
    """scratch copy of one layout; request a (possibly not stored) target; observe compute calls and the directory"""
    d = tempfile.mkdtemp(prefix="plan_", dir=W.base)
    try:
        src = os.path.join(W.base, "orig")
        for p in os.listdir(src):
            if p.startswith("a-"):
                shutil.copytree(os.path.join(src, p), os.path.join(d, p))
        st = strax.Context(storage=[strax.DataDirectory(d)], register=PLUGINS)
        before = sorted(os.listdir(d))
        tg = case["target"]
        kw = {}
        if case["has_range"]:
            r = _RUNS["a"]
            kw["time_range"] = (r["rows"][1][0], r["rows"][3][1])
        if case["has_sel"]:
            kw["selection"] = "time >= 0"
        if case["has_cols"]:
            kw["keep_columns"] = ("time", ID_COL[tg])
        if case["in_save"]:
            kw["save"] = (tg,)
        _COMPUTES.clear()

        def f():
            a = st.get_array("a", tg, progress_bar=False, **kw)
            _SIDE[("plan", case["k"])] = ids_from(a)
            after = sorted(os.listdir(d))
            if after != before:
                return "save"
            return "nosave" if _COMPUTES[tg] else "load"
        out = sl.guarded(f)
        if out.startswith("err") and sorted(os.listdir(d)) != before:
            out += " +dir-changed"
        return out
    finally:
        shutil.rmtree(d, ignore_errors=True)


def op_plan(case):
    sw = {"dep": "always", "calc_never": "never", "calc_explicit": "explicit", "calc_target": "target", "calc_always": "always"}[case["target"]]
    b = lambda x: "1" if x else "0"  # noqa: E731
    return (f"c10.plan {b(case['target'] == 'dep')} {sw} 1 {b(case['in_save'])} {b(case['has_range'])} "
            f"{b(case['has_sel'])} {b(case['has_cols'])}")


def oracle_plan(case, out):
    partial = case["has_range"] or case["has_sel"] or case["has_cols"]
    if "+dir-changed" in out:
        return "a failing request changed the directory"
    if partial and out == "ok save":
        return "a partial request (time range / selection / column projection) saved data"
    if out.startswith("ok"):
        ids = _SIDE.get(("plan", case["k"]))
        rows = _RUNS["a"]["rows"]
        exp = [r[2] for r in rows]
        if case["has_range"]:
            t0, t1 = rows[1][0], rows[3][1]
            exp = [r[2] for r in rows if t0 <= r[0] and r[1] <= t1]
        if ids != exp:
            return f"rows {ids} != filter of the full result {exp}"
    return None


# ----------------------------------------------------------------------------- 7. findings: degenerate ranges, drop-all
def impl_degenerate(case):
    """outcome of get_array(time_range=(t, t)) in the three layouts; an error is printed with its kind and whether it is the
    epilogue's 'returned no chunks' message"""
    outs = []
    t = case["ta"]["tr"][0]
    for lay in ("orig", "tiny", "giant"):
        try:
            a = W.ctx(lay).get_array("a", "src", progress_bar=False, processor="single_thread", time_range=(t, t),
                                     time_selection=MODE_KW[case["mode"]])
            ids = ids_from(a)
            outs.append("ok " + (",".join(map(str, ids)) if ids else "-"))
        except Exception as e:  # noqa: BLE001
            outs.append("err " + sl.err_name(e) + (":no-chunks" if "returned no chunks" in str(e) else ""))
    return " / ".join(outs)


def oracle_degenerate(case, out):
    """Exact expectation per layout.  Rows containing t (touching) must be returned everywhere.  Where the predicate selects
    nothing, the property allows an empty result or the explicit error, but the SAME one in every layout; the code gives the
    empty result iff t is strictly inside a stored chunk, else `ValueError ... returned no chunks` — that pair, and only
    that pair, is the recorded finding."""
    outs = out.split(" / ")
    t = case["ta"]["tr"][0]
    rows = _RUNS["a"]["rows"]
    exp_rows = [r[2] for r in rows if r[1] > t and r[0] < t] if case["mode"] == "to" else []
    exp = []
    for lay in ("orig", "tiny", "giant"):
        inside = any(a < t < b for a, b, _ in W.stored(lay, "a", "src"))
        if exp_rows:
            exp.append("ok " + ",".join(map(str, exp_rows)))
        else:
            exp.append("ok -" if inside else "err ValueError:no-chunks")
    if outs != exp:
        return f"request with the empty range ({t}, {t}) gave {out}, expected {' / '.join(exp)} (rows containing t everywhere; else empty result / explicit no-chunk error)"
    if len(set(outs)) > 1:
        return (f"empty range [{t},{t}): outcome depends on the on-disk chunking: empty result where t is strictly inside a stored chunk, "
                f"ValueError 'returned no chunks' where t is on a chunk boundary (orig / tiny / giant = {out})")
    return None


def impl_dropall(case):
    return impl_get(case)


def oracle_dropall(case, out):
    if out.startswith("err"):
        return None
    cols = out.split(" | ")[1]
    return f"drop_columns = every column, yet the result has columns {cols}" if cols else None


# ----------------------------------------------------------------------------- case generation
def all_ranges(pts, with_degenerate=True):
    out = [(a, b) for a in pts for b in pts if a < b]
    if with_degenerate:
        out += [(a, a) for a in pts]
    return out


def base_case(k, run, layout, targets, proc, ta, mode="fc", pred="-", keep=None, drop=None, **kw):
    return dict(k=k, run=run, layout=layout, targets=list(targets), proc=proc, ta=ta, mode=mode, pred=pred, keep=keep, drop=drop, **kw)


def random_cols(rng, fields, ident_cols):
    """(keep, drop): mostly leaves an identifying column; sometimes unknown names / both / a bare string"""
    r = rng.random()
    if r < 0.4:
        return None, None
    if r < 0.7:
        keep = [f for f in fields if rng.random() < 0.5]
        if not any(c in keep for c in ident_cols):
            keep.append(rng.choice(ident_cols))
        rng.shuffle(keep)
        if rng.random() < 0.08:
            keep.append("nope")
        return keep, None
    if r < 0.95:
        drop = [f for f in fields if rng.random() < 0.4 and f not in ident_cols[:1]]
        if rng.random() < 0.15:
            drop.append("nope")
        return None, (drop or None)
    return [ident_cols[0]], [fields[0]]


def run(ctx):
    global W
    rng = ctx.rng
    W = World(rng, ctx.pick(3, 8))
    try:
        _run(ctx, rng)
    finally:
        W.close()
        W = None
        _SIDE.clear()


def _run(ctx, rng):
    # ---- 1. apply_selection, exhaustive small scope
    cases = []
    grid = ctx.pick(4, 5)
    for rows in gen.all_sorted_rows(ctx.pick(2, 3), grid):
        if len({(a, b) for a, b, _ in rows}) != len(rows):
            continue
        for t0 in range(-1, grid + 2):
            for t1 in range(-1, grid + 2):
                for mode in ("fc", "to"):
                    cases.append(dict(rows=rows, tr=[t0, t1], mode=mode, pred="-", keep=None, drop=None))
        cases.append(dict(rows=rows, tr=None, mode="fc", pred="-", keep=None, drop=None))
        cases.append(dict(rows=rows, tr=[1, 3], mode="skip", pred="-", keep=None, drop=None))
        cases.append(dict(rows=rows, tr=[1, 3], mode="bogus", pred="-", keep=None, drop=None))
        cases.append(dict(rows=rows, tr=None, mode="bogus", pred="-", keep=None, drop=None))
    ctx.correspond("apply_selection/time-exhaustive", cases, impl_sel, op_sel, oracle_sel, exhaustive=True,
                   nontrivial=lambda c, o: len(c["rows"]) >= 1 and c["tr"] is not None,
                   rule=f"all arrays of <= {ctx.pick(2, 3)} distinct positive-duration rows on grid 0..{grid} x all (t0,t1) in -1..{grid+1} incl. empty and reversed ranges x "
                        "{fully_contained, touching}; plus no range / skip / unknown mode; non-trivial = at least one row and a range",
                   branch=lambda c, o: f"{c['mode']}:{'none' if c['tr'] is None else ('proper' if c['tr'][0] < c['tr'][1] else 'degenerate')}:{o.split(' ')[0]}")
    # columns: every keep / drop subset incl. an unknown name, on two dtypes
    cases = []
    rows3 = [(0, 2, 0), (1, 3, 1), (4, 5, 2)]
    for enc in ("end", "len"):
        fields = list(sl.DTYPES[enc].names) + ["nope"]
        subsets = [list(s) for n in range(len(fields) + 1) for s in itertools.combinations(fields, n)]
        for s in subsets:
            cases.append(dict(rows=rows3, enc=enc, tr=[1, 5], mode="to", pred="-", keep=s or None, drop=None))
            left = [f for f in fields if f not in s]
            identifiable = "id" in left or ("time" in left and ("endtime" in left or ("length" in left and "dt" in left)))
            cases.append(dict(rows=rows3, enc=enc, tr=None, mode="fc", pred="ige:1" if identifiable else "-", keep=None, drop=s or None))
            if s:
                cases.append(dict(rows=rows3, enc=enc, tr=None, mode="fc", pred="-", keep=list(reversed(s)), drop=None))
                cases.append(dict(rows=rows3, enc=enc, tr=None, mode="fc", pred="-", keep=s[:1], drop=None, keep_tuple=False))
                cases.append(dict(rows=rows3, enc=enc, tr=None, mode="fc", pred="-", keep=s, drop=fields[:1]))
    ctx.correspond("apply_selection/columns-exhaustive", cases, impl_sel, op_sel, oracle_sel, exhaustive=True,
                   nontrivial=lambda c, o: bool(c["keep"] or c["drop"]),
                   rule="every subset of the fields (+ one unknown name) as keep_columns (also reversed order, bare string) and as drop_columns, both together; "
                        "dtypes (time,endtime,id) and (time,length,dt,id)",
                   branch=lambda c, o: ("keep" if c["keep"] else "") + ("drop" if c["drop"] else "") + ":" + o.split(" ")[0])
    # row selections in their three forms
    cases = []
    for _ in range(ctx.pick(600, 5000)):
        rows = gen.gen_rows(rng, rng.randint(0, 7), max_len=4)
        rows = [r for i, r in enumerate(rows) if (r[0], r[1]) not in {(x[0], x[1]) for x in rows[:i]}]
        rows = [(a, b, i) for i, (a, b, _) in enumerate(rows)]
        n = max(len(rows), 1)
        atoms = []
        for _ in range(rng.randint(1, 3)):
            kind = rng.choice(["ige", "ile", "imod", "tge", "dge"])
            atoms.append({"ige": f"ige:{rng.randint(0, n)}", "ile": f"ile:{rng.randint(0, n)}", "imod": f"imod:{rng.randint(2, 3)}:{rng.randint(0, 1)}",
                          "tge": f"tge:{rng.randint(0, 20)}", "dge": f"dge:{rng.randint(1, 5)}"}[kind])
        pts = sorted({x for r in rows for x in (r[0], r[1], r[0] - 1, r[1] + 1)} | {0})
        tr = None if rng.random() < 0.3 else [rng.choice(pts), rng.choice(pts)]
        cases.append(dict(rows=rows, enc=rng.choice(["end", "len", "arr"]), tr=tr, mode=rng.choice(["fc", "to"]), pred="&".join(atoms),
                          form=rng.choice(["str", "list", "call"]), keep=None, drop=None))
    ctx.correspond("apply_selection/row-selection", cases, impl_sel, op_sel, oracle_sel, nontrivial=lambda c, o: len(c["rows"]) >= 2,
                   rule="random arrays (0..7 rows, three dtypes) x conjunctions of 1..3 atoms (id >=, id <=, id mod, time >=, duration >=) given as one string, "
                        "a list of strings or a callable, with and without a time range",
                   branch=lambda c, o: c["form"] + ":" + ("range" if c["tr"] else "norange"))

    # ---- 2. to_absolute_time_range on the stored runs
    cases = []
    for run_id in ("a", "s", "e"):
        pts = W.endpoints(run_id)
        r = _RUNS[run_id]
        secs = W.exact_secs(run_id) + [(-1, 512), (-3, 2), (0, 1), (7, 4)]
        for _ in range(ctx.pick(150, 1500)):
            ta = {}
            kinds = rng.choice([["tr"], ["sr"], ["tw"], ["tr", "sr"], ["sr", "tw"], ["tr", "tw"], ["tr", "sr", "tw"], []])
            if "tr" in kinds:
                ta["tr"] = [rng.choice(pts), rng.choice(pts)]
            if "sr" in kinds:
                ta["sr"] = [rng.choice(secs), rng.choice(secs)]
            if "tw" in kinds:
                a, b = sorted((rng.choice(pts), rng.choice(pts)))
                if a < 0:
                    a = 0
                ta["tw"] = [a, max(a, b)]
                ta["tw_enc"] = rng.choice(["end", "len"])
            cases.append(dict(run=run_id, layout=rng.choice(["orig", "tiny", "giant"]), target=rng.choice(["src", "dep"]), ta=ta))
    ctx.correspond("to_absolute_time_range", cases, impl_abs, op_abs, oracle_abs,
                   nontrivial=lambda c, o: bool(c["ta"]),
                   rule="stored runs `a` (ns grid), `s` (2^-9 s grid, run start not on a whole second) and `e` (ns grid at a unix-epoch run start 1.7e18 > 2^53): time_range / seconds_range (exact dyadic values, also negative) / "
                        "time_within (rows of two dtypes) alone, in pairs (later one wins) and all three (RuntimeError)",
                   branch=lambda c, o: "+".join(k for k in ("tr", "sr", "tw") if k in c["ta"]) + ":" + o.split(" ")[0])

    # ---- 3. loader, every range on every boundary neighbourhood, every layout
    cases = []
    for run_id in W.runs:
        pts = W.endpoints(run_id)
        ranges = all_ranges(pts)
        if run_id not in ("a",) and len(ranges) > ctx.pick(1500, 6000):
            ranges = rng.sample(ranges, ctx.pick(1500, 6000))
        for lay in ("orig", "tiny", "giant"):
            for dt in ("src", "dep"):
                if dt == "dep" and run_id != "a":
                    continue
                for tr in ranges:
                    cases.append(dict(run=run_id, layout=lay, dt=dt, tr=list(tr)))
        for tr in [(pts[3], pts[1]), (pts[-1], pts[0])]:
            cases.append(dict(run=run_id, layout="orig", dt="src", tr=list(tr)))
    ctx.correspond("loader/time-range", cases, impl_load, op_load, oracle_load, exhaustive=True,
                   nontrivial=lambda c, o: _RUNS[c["run"]]["start"] < c["tr"][0] < _RUNS[c["run"]]["end"] or _RUNS[c["run"]]["start"] < c["tr"][1] < _RUNS[c["run"]]["end"],
                   rule="real StorageFrontend.loader(key, time_range) on the stored runs in the layouts orig / tiny / giant: run `a` with ALL ranges whose endpoints are on, one step "
                        "inside or one step outside any row or chunk boundary (incl. empty ranges); the other runs with a sample of such ranges; non-trivial = an endpoint strictly inside the run",
                   branch=lambda c, o: c["layout"] + ":" + ("err" if o.startswith("err") else ("nochunk" if o == "ok -" else f"chunks={len(o[3:].split(' '))}")))

    # ---- 3b. every stored layout lies inside the hypothesis of the theorems (decidable `LawAbiding`, evaluated by the driver)
    def impl_hyp(case):
        chunks = W.stored(case["layout"], case["run"], case["dt"])
        ok = gen.law_abiding(chunks) is None and all(a >= 0 for a, _, _ in chunks) and \
            all(t < e for _, _, rows in chunks for t, e, _ in rows)
        return f"ok law={int(ok)}"
    hyp_cases = [dict(layout=lay, run=run_id, dt=dt) for lay in ("orig", "tiny", "giant") for run_id in W.runs for dt in ("src", "dep")]
    ctx.correspond("hypothesis/law-abiding", hyp_cases, impl_hyp, lambda c: f"c10.hyp {W.layout_tok(c['layout'], c['run'], c['dt'])}",
                   lambda c, o: None if o == "ok law=1" else "a stored layout produced by the real savers is not law-abiding",
                   exhaustive=True, in_hyp=lambda c, o: o == "ok law=1",
                   rule="the chunk lists read back from every directory satisfy the decidable hypothesis `Strax.Selection.LawAbiding` of the theorems "
                        "(Python check of the laws vs the driver's `lawAbidingB`)")

    # ---- 4. get_array end to end
    k = itertools.count()
    cases = []
    combos = [("orig", ("src",)), ("tiny", ("src",)), ("giant", ("src",)),
              ("orig", ("dep",)), ("tiny", ("dep",)), ("giant", ("dep",)),
              ("mix_gt", ("src", "dep")), ("mix_tg", ("src", "dep")), ("mix_og", ("dep", "src")), ("orig", ("src", "dep"))]
    # 4a exhaustive ranges on run `a`
    pts = W.endpoints("a")
    ranges = all_ranges(pts)
    procs = ["single_thread", "threaded_mailbox"]
    j = 0
    for lay, tg in combos:
        if not ctx.thorough and (lay, tg) in (("giant", ("dep",)), ("orig", ("dep",)), ("orig", ("src", "dep"))):
            continue
        for mode in ("fc", "to"):
            for tr in ranges:
                j += 1
                if ctx.thorough:
                    for p in procs:
                        cases.append(base_case(next(k), "a", lay, tg, p, {"tr": list(tr)}, mode))
                else:
                    # the threaded processor costs ~5x more per request: every 4th range in the quick tier
                    cases.append(base_case(next(k), "a", lay, tg, procs[1 if j % 4 == 0 else 0], {"tr": list(tr)}, mode))
    ctx.correspond("get_array/ranges-exhaustive", cases, impl_get, op_get, oracle_get, nontrivial=nontrivial_get, exhaustive=True,
                   rule="stored run `a` (5 rows: overlapping, touching, gap, same start): ALL time ranges with endpoints on / one step inside / one step outside every row and chunk "
                        "boundary of any layout (incl. empty ranges) x {fully_contained, touching} x targets src | dep | (src,dep) together from differently chunked directories x "
                        "layouts orig / tiny / giant / mixed; single-thread processor with the threaded one on every 4th range (quick) or both on all (thorough)",
                   branch=branch_get)
    _SIDE.clear()
    # 4b random: all runs, all argument kinds
    cases = []
    for _ in range(ctx.pick(1200, 12000)):
        run_id = rng.choice(W.runs)
        lay, tg = rng.choice(combos)
        r = _RUNS[run_id]
        pts = W.endpoints(run_id)
        full = W.full[(run_id, tuple(tg))]
        fields = list(full.dtype.names)
        ident = [c for c in ("id", "val") if c in fields]
        ta = {}
        kind = rng.choice(["tr", "tr", "sr", "tw", "tw", "none", "tr+sr", "all3"]) if run_id in ("s", "e") else rng.choice(["tr", "tr", "tr", "tw", "none"])
        if kind in ("tr", "tr+sr", "all3"):
            a, b = rng.choice(pts), rng.choice(pts)
            if rng.random() < 0.9:
                a, b = min(a, b), max(a, b)
            ta["tr"] = [a, b]
        if kind in ("sr", "tr+sr", "all3"):
            secs = W.exact_secs(run_id)
            pair = sorted((rng.choice(secs), rng.choice(secs)), key=lambda f: Fraction(*f))
            ta["sr"] = [list(f) for f in pair]
        if kind in ("tw", "all3"):
            if rng.random() < 0.5:
                row = rng.choice(r["rows"])
                ta["tw"] = [row[0], row[1]]
            else:
                a, b = sorted((rng.choice(pts), rng.choice(pts)))
                ta["tw"] = [max(a, 0), max(b, 0)]
            ta["tw_enc"] = rng.choice(["end", "len"])
        keep, drop = random_cols(rng, fields, ident)
        mode = rng.choice(["fc", "fc", "to", "to", "skip", "bogus"]) if rng.random() < 0.15 else rng.choice(["fc", "to"])
        cases.append(base_case(next(k), run_id, lay, tg, procs[1 if rng.random() < 0.3 else 0], ta, mode, random_pred(rng, run_id), keep, drop,
                               form=rng.choice(["str", "list", "call"]), keep_tuple=not (keep and len(keep) == 1 and rng.random() < 0.5),
                               explicit_mode=rng.random() < 0.5))
    ctx.correspond("get_array/random", cases, impl_get, op_get, oracle_get, nontrivial=nontrivial_get,
                   rule="all stored runs (ns grid, 2^-9 s grid, random rows / chunkings) x layouts x targets (single, dependent, both together) x both processors x "
                        "time_range | seconds_range | time_within (row of the data or constructed, two dtypes) | pairs | none x {fully_contained, touching} (+ skip / unknown mode) x "
                        "selection as string / list of strings / callable x keep_columns / drop_columns (unknown names, both at once, bare string)",
                   branch=lambda c, o: ("+".join(kk for kk in ("tr", "sr", "tw") if kk in c["ta"]) or "none") + ":" + c["mode"] + ":" +
                                       ("sel" if c["pred"] != "-" else "-") + ":" + ("keep" if c["keep"] else ("drop" if c["drop"] else "-")) + ":" + o.split(" ")[0])
    _SIDE.clear()

    # 4b' seconds_range on the epoch-scale run: ALL pairs of exactly convertible endpoints (on / 1 ns inside / 1 ns outside every
    #     row and chunk boundary), and the same endpoints as absolute time_range / time_within for symmetry
    cases = []
    secs = sorted(W.exact_secs("e"), key=lambda f: Fraction(*f))
    t0e = (_RUNS["e"]["start"] // 10**9) * 10**9
    for j, (sa, sb) in enumerate((x, y) for x in secs for y in secs if Fraction(*x) < Fraction(*y)):
        lay, tg = [("orig", ("src",)), ("tiny", ("dep",)), ("giant", ("src",)), ("mix_gt", ("src", "dep"))][j % 4]
        for mode in ("fc", "to"):
            cases.append(base_case(next(k), "e", lay, tg, "single_thread", {"sr": [list(sa), list(sb)]}, mode))
        a_ns, b_ns = t0e + int(Fraction(10**9) * Fraction(*sa)), t0e + int(Fraction(10**9) * Fraction(*sb))
        if j % 3 == 0:
            cases.append(base_case(next(k), "e", lay, tg, "single_thread", {"tr": [a_ns, b_ns]}, ("fc", "to")[j % 2]))
        if j % 3 == 1:
            cases.append(base_case(next(k), "e", lay, tg, "single_thread", {"tw": [a_ns, b_ns], "tw_enc": ("end", "len")[j % 2]}, ("fc", "to")[j % 2]))
    ctx.correspond("get_array/seconds-epoch", cases, impl_get, op_get, oracle_get, nontrivial=nontrivial_get, exhaustive=True,
                   rule="stored run `e` (first chunk at 1.7e18 + 500 ns, so run start = 1.7e18 > 2^53): seconds_range with ALL pairs of endpoints on / 1 ns inside / "
                        "1 ns outside every row and chunk boundary whose float conversion int(1e9*s) is exact (expected endpoints computed with Fractions) x both modes, "
                        "rotating layouts / targets; every third pair also as absolute time_range resp. time_within",
                   branch=lambda c, o: ("+".join(kk for kk in ("tr", "sr", "tw") if kk in c["ta"])) + ":" + branch_get(c, o))
    _SIDE.clear()

    # 4b'' run start taken from a run document (the production path): directory `rundoc`, document start 2.75 s before the data's
    #      first whole second -> t0 = floor(start) ; seconds_range endpoints exactly convertible, expected values from Fractions
    rs = W.rundoc_start_s
    secs_doc = sorted(W.exact_secs("e", rs * 10**9), key=lambda f: Fraction(*f))
    cases = []
    for j, (sa, sb) in enumerate((x, y) for x in secs_doc for y in secs_doc if Fraction(*x) < Fraction(*y)):
        if j % 2 == 0:
            cases.append(base_case(next(k), "e", "rundoc", ("src",), "single_thread", {"sr": [list(sa), list(sb)], "rs": rs}, ("fc", "to")[(j // 2) % 2]))
    ctx.correspond("get_array/seconds-run-document", cases, impl_get, op_get, oracle_get, nontrivial=nontrivial_get,
                   rule="directory whose frontend provides a run document for run `e` (start = 1.7e18 ns - 2.75 s): seconds_range is relative to the "
                        "document's start floored to a second, not to the data; every second pair of exactly convertible endpoints on / 1 ns inside / "
                        "1 ns outside every row and chunk boundary, modes alternating",
                   branch=branch_get)
    _SIDE.clear()
    acases = []
    for _ in range(ctx.pick(100, 600)):
        ta = {"sr": [list(rng.choice(secs_doc + [(-1, 512), (7, 4)])), list(rng.choice(secs_doc + [(0, 1)]))], "rs": rs}
        if rng.random() < 0.3:
            ta["tr"] = [rng.choice(W.endpoints("e")), rng.choice(W.endpoints("e"))]
        acases.append(dict(run="e", layout="rundoc", target="src", ta=ta))
    ctx.correspond("to_absolute_time_range/run-document", acases, impl_abs, op_abs, oracle_abs, nontrivial=lambda c, o: True,
                   rule="Context.to_absolute_time_range with the run start taken from the run document (floored to whole seconds)",
                   branch=lambda c, o: "+".join(kk for kk in ("tr", "sr") if kk in c["ta"]) + ":" + o.split(" ")[0])

    # 4c the full result itself must not depend on layout or processor
    cases = []
    for run_id in W.runs:
        for lay, tg in combos:
            for p in procs:
                cases.append(base_case(next(k), run_id, lay, tg, p, {}))
    ctx.correspond("get_array/unrestricted", cases, impl_get, op_get, oracle_get, nontrivial=lambda c, o: True,
                   rule="the unrestricted result of every run / target set is the same in every layout and processor (it is the reference of the oracle)")
    _SIDE.clear()

    # ---- 5. epilogue
    cases = [dict(seen=s, has_range=h) for s in (0, 1) for h in (0, 1)]
    ctx.correspond("get_iter/epilogue", cases, impl_epi, lambda c: f"c10.epi {c['seen']} {c['has_range']}", oracle_epi, exhaustive=True,
                   nontrivial=lambda c, o: not c["seen"],
                   rule="get_iter driven with a processor that yields nothing (with / without a time range) and with the ordinary processor")

    # ---- 6. partial requests never save
    cases = []
    kk = itertools.count()
    for tg in ("dep", "calc_never", "calc_explicit", "calc_target", "calc_always"):
        for in_save in (0, 1):
            for hr, hs, hc in itertools.product((0, 1), repeat=3):
                cases.append(dict(k=next(kk), target=tg, in_save=in_save, has_range=hr, has_sel=hs, has_cols=hc))
    ctx.correspond("partial-requests/no-saving", cases, impl_plan, op_plan, oracle_plan, exhaustive=True,
                   nontrivial=lambda c, o: c["target"] != "dep",
                   rule="scratch copy of the stored run; target stored / not stored with save_when NEVER, EXPLICIT, TARGET, ALWAYS x listed in save= or not x time range x selection x "
                        "column projection: observed = load / compute without saving / compute and save / error, from compute counters and the directory listing",
                   branch=lambda c, o: o)

    # ---- 7. nothing was written into the shared directories by any of the requests above
    def impl_listing(case):
        return "ok unchanged" if W.listing(case["layout"]) == W.listing0[case["layout"]] else "ok CHANGED"
    ctx.correspond("partial-requests/directories-unchanged", [dict(layout=lay) for lay in W.layouts], impl_listing, None,
                   lambda c, o: None if o == "ok unchanged" else "directory content changed by time-range / selection / projection requests",
                   exhaustive=True, rule="recursive listing (names, sizes) of every data directory before and after all requests of this run")

    # ---- 8. dedicated probes for the two recorded findings
    pts = [p for p in W.endpoints("a") if _RUNS["a"]["start"] <= p <= _RUNS["a"]["end"]]
    cases = [base_case(i, "a", "orig", ("src",), "single_thread", {"tr": [p, p]}, mode) for i, (p, mode) in enumerate(itertools.product(pts, ("fc", "to")))]
    ctx.correspond("degenerate-range/layout-independence", cases, impl_degenerate, None, oracle_degenerate, exhaustive=True,
                   rule="empty ranges (t, t) at every boundary neighbourhood of run `a`: the outcome (rows / empty / error) must be the same in the three layouts",
                   branch=lambda c, o: "same" if len(set(o.split(" / "))) == 1 else "differs")
    cases = [base_case(("da", i), "a", "orig", tg, "single_thread", {}, drop=list(W.full[("a", tg)].dtype.names)) for i, tg in enumerate((("src",), ("dep",)))]
    ctx.correspond("columns/drop-all", cases, impl_dropall, op_get, oracle_dropall, exhaustive=True,
                   rule="drop_columns naming every column of the target")
    _SIDE.clear()


# ----------------------------------------------------------------------------- search / replay
def search(ctx):
    """an obligation broke: oracle-only sweep of the end-to-end requests over more random runs"""
    global W
    rng = ctx.rng
    W = World(rng, 10)
    try:
        k = itertools.count()
        cases = []
        for run_id in W.runs:
            pts = W.endpoints(run_id)
            for _ in range(100):
                a, b = sorted((rng.choice(pts), rng.choice(pts)))
                for lay, tg in (("orig", ("src",)), ("tiny", ("src",)), ("giant", ("src",)), ("mix_gt", ("src", "dep"))):
                    cases.append(base_case(next(k), run_id, lay, tg, rng.choice(["single_thread", "threaded_mailbox"]), {"tr": [a, b]}, rng.choice(["fc", "to"])))
        ctx.check_oracle("search/get_array", cases, impl_get, oracle_get)
    finally:
        W.close()
        W = None
        _SIDE.clear()


def replay(ctx, body):
    """runs and layouts are regenerated from the recorded seed, then the recorded case is re-run"""
    global W
    import random
    comp = body["component"]
    if body.get("case") is None:
        return f"obligation {comp} has no input to replay (no-failing-input-found); re-run the check"
    case = body["case"]["case"]
    table = {"apply_selection": (impl_sel, oracle_sel), "to_absolute_time_range": (impl_abs, oracle_abs), "loader": (impl_load, oracle_load),
             "get_array": (impl_get, oracle_get), "search": (impl_get, oracle_get), "get_iter": (impl_epi, oracle_epi),
             "partial-requests": (impl_plan, oracle_plan), "degenerate-range": (impl_degenerate, oracle_degenerate), "columns": (impl_dropall, oracle_dropall)}
    impl, oracle = table.get(comp.split("/")[0], (None, None))
    if impl is None or comp == "partial-requests/directories-unchanged":
        return f"component {comp} is not replayable case by case; re-run the check"
    seed = int(body.get("seed", 0))
    rng = random.Random(seed * 1000003 + int(ID[1:]))
    W = World(rng, 10 if comp.startswith("search") else (8 if body.get("tier") == "thorough" else 3))
    try:
        out = impl(case)
        print("implementation output:", out)
        return oracle(case, out)
    finally:
        W.close()
        W = None
        _SIDE.clear()
