"""C06 — failures reach the caller and never hang the pipeline.

Lean side: Model/Net.lean (`wire` = ThreadedMailboxProcessor.__init__ as a net of abstract mailboxes and flat thread
programs, guard semantics), Model/PostOffice.lean (the single-thread bus + SaverSpy + SingleThreadProcessor.iter),
theorems in Props/C06.lean (mailbox level on top of Model/Mailbox.lean, PostOffice level, net level).

Ties (this file):
 (i)   wiring: random ProcessorComponents built from tiny REAL plugin instances, loaders and savers -> the real
       ThreadedMailboxProcessor is constructed and its mailboxes / threads / can_drive flags / max_messages / lazy /
       flow_freely / subscriptions are dumped and diffed with the driver's `c06.wire`.
 (ii)  PostOffice: random op scripts (register_producer / register_spy / get_iter / next / kill_spies /
       SingleThreadProcessor.iter with a draining, throwing or closing consumer; failing producers and spies) run on the
       real PostOffice + real SaverSpy + real strax.Saver and on `c06.po`; answers and final bus state are diffed.
 (iii) net dynamics (`net/dynamics`): the real ThreadedMailboxProcessor through Context.get_iter under the cooperative
       scheduler with a FIXED thread priority, for chain / tree / multi-output / diamond / loader x lazy / eager x capacity
       x every fault position, vs the driver's `c06.run` (= `wire` applied to the run's own components + `Net.step` under
       the same priorities).  Compared are END states (at termination or at the deadlock), not every step: per mailbox
       closed / killed / force_killed / n_sent / have_read, per thread its ending, the caller's outcome.  The driver also
       evaluates `TreeNet (certOf (wire ...))` on each of these wirings (in-hypothesis fraction of the `_partial` theorems).
 (iv)  the real ThreadedMailboxProcessor and SingleThreadProcessor driven through Context.get_iter under the
       cooperative scheduler (checks/lib/sched.py replaces `threading` inside strax.mailbox, the thread pools inside
       strax.processors.threaded_mailbox and `concurrent.futures.wait` inside strax.storage.common) with one fault
       injected per run at every (stage kind, chunk index): source / mid plugin / multi-output plugin (also a parallel one
       on a pool) / loader / saver (save of chunk i, close) of the target and of side outputs / consumer (stops after k
       chunks, the abandoned iterator is closed); quick tier: 5 schedules per (graph, threaded configuration, position).
       Oracle (the property's own wording, on the real run): the caller sees the injected exception itself, no pipeline
       thread is alive afterwards, the scheduler never had to declare a deadlock (timeouts cannot fire otherwise);
       a run in which no fault fired ends with the COMPLETE result, whatever capacity and lags are (a short result
       without an exception is never excused).  A deadlock is outside the property's domain only on a reconvergent graph
       without fault whose capacity does not exceed the largest number of chunks one plugin withholds; that number is
       MEASURED on a reference run: max over time of (input chunks fetched - input chunks whose time range the emitted
       output covers) - 1, so a one-to-one plugin withholds 0.
 Also: `mailbox/kill` (C05's tie on kill-heavy configurations) and `divider/corpus` (thread-free witnesses of D28 / D29).
"""
from __future__ import annotations

import collections
import contextlib
import itertools
import logging
import os
import random
import time

from lib.straxlib import strax  # noqa: F401  (first strax import: private numba cache)
import numpy as np  # noqa: E402
from immutabledict import immutabledict  # noqa: E402
import strax.mailbox as mbm  # noqa: E402
import strax.processors.threaded_mailbox as tmm  # noqa: E402
import strax.processors.single_thread as stm  # noqa: E402
import strax.processors.post_office as pom  # noqa: E402
import strax.storage.common as scm  # noqa: E402
import strax.context as sctx  # noqa: E402
from lib import sched as S  # noqa: E402

ID = "C06"
LEAN_MODULES = ["StraxModel.Props.C06", "StraxModel.Props.C06Kill"]
TRUSTED = [
    "cooperative scheduler checks/lib/sched.py substituted for `threading` in strax.mailbox, for the thread pools in "
    "strax.processors.threaded_mailbox and for concurrent.futures.wait in strax.storage.common (one thread runs at a time; "
    "timeouts are delivered only after a deadlock was recorded)",
    "guard semantics of Model/Net.lean (a blocked waiter is enabled iff its predicate holds) rests on the mailbox-level "
    "theorems about Model/Mailbox.lean (no lost wake-up, kill_wakes_all, send_rechecks_after_wait) and on C05's tie of "
    "Model/Mailbox.lean to the real Mailbox; the refinement between the two models is argued, not machine-checked",
    "stage programs of the net model are abstract (read / emit / fail).  `Net.step` and the thread compilers of `wire` are "
    "tied to the real ThreadedMailboxProcessor at the END of fixed-priority runs (component net/dynamics: per mailbox closed / "
    "killed / force_killed / n_sent / have_read, per thread its ending, the caller's outcome; the model replays the same "
    "priority list in `c06.run`), not after every step; worker pools / futures are not in the Lean net",
]
ASSUMPTIONS = [
    "pipeline runs inject one fault per run (PostOffice scripts may hold several: there 'the original exception' is read as "
    "'an injected exception'); plugins compute in bounded time; process pools and wall-clock timeouts are outside",
    "net-level theorems hold for TreeNet nets only (no multi-output plugin, no reconvergent graph, readers drain their "
    "inputs); that `wire` of tree-shaped components is a TreeNet is proved for finite families (decide) and evaluated by the "
    "driver on every real wiring of net/dynamics — the general lemma is unproved",
    "savers / loaders of the pipeline runs are an in-memory StorageFrontend/Backend/Saver around the real "
    "strax.Saver.save_from / StorageBackend.loader logic (file-system effects belong to C04)",
]

DT = strax.time_fields + [("id", np.int64)]
CH = 10          # chunk duration (ns)
logging.getLogger("strax").setLevel(logging.CRITICAL)


try:
    _ALL_CPUS = sorted(os.sched_getaffinity(0))
except AttributeError:
    _ALL_CPUS = []


def _pin():
    """sched.py runs several times faster when all its threads share one CPU"""
    try:
        if len(_ALL_CPUS) > 1:
            os.sched_setaffinity(0, {_ALL_CPUS[os.getpid() % len(_ALL_CPUS)]})
    except (AttributeError, OSError):
        pass


def _unpin():
    try:
        if len(_ALL_CPUS) > 1:
            os.sched_setaffinity(0, set(_ALL_CPUS))
    except (AttributeError, OSError):
        pass


class Injected(Exception):
    def __init__(self, ident):
        super().__init__(f"injected fault {ident}")
        self.ident = ident


# =============================================================================================================
# (0) the kill protocol of one mailbox: C05's correspondence (Model/Mailbox.lean, `c05.run`) on kill-heavy cases
# =============================================================================================================
def kill_cases(rng, n):
    """configurations in which a kill is likely to arrive while the sender waits for room or a reader for a message"""
    from props import c05
    cases = []
    for i in range(n):
        if i % 3 == 0:
            c = c05.random_config(rng, "kill")
        else:
            nsub = rng.randint(1, 2)
            lazy = rng.random() < 0.3
            nmsg = rng.randint(2, 5)
            c = c05.mk_case(rng.choice([1, 1, 2]), lazy, "1" * nsub, [f"p{10 * (k + 1)}" for k in range(nmsg)], [],
                            rng.choice(["u", "d", "u", "ud"]))
        r = rng.random()
        seed = rng.getrandbits(48)
        if r < 0.4:
            c["strat"] = dict(kind="random", seed=seed, stick=rng.choice([0.0, 0.5, 0.8]))
        else:
            c["strat"] = dict(kind="pct", seed=seed, depth=rng.randint(1, 4), est=40)
        c["_out"] = c05.execute(c)
        cases.append(c)
    return cases


def kill_oracle(case, out):
    """C06 at the mailbox level, on the real run: once the mailbox is killed nothing is pushed any more
    (`send` re-checks the flags after waiting), nobody stays blocked, and every thread ends"""
    from props import c05
    if not out.startswith("ok "):
        return f"adapter answered {out[:60]}"
    snaps, end, got, pcs = c05.parse_line(out)
    killed_at = None
    for i, sn in enumerate(snaps):
        heap, _, _, flags, nsent, _ = sn
        if flags[1] == "1":
            if killed_at is None:
                killed_at = (i, heap, nsent)
            elif nsent != killed_at[2] or (heap != killed_at[1] and len(heap) > len(killed_at[1])):
                return (f"a message was pushed into the mailbox after it had been killed: n_sent {killed_at[2]} -> {nsent}, "
                        f"heap {killed_at[1]} -> {heap} (snapshot {killed_at[0]} -> {i})")
    if c05.classify(case) == "malformed":
        return None
    if end == "deadlock":
        return f"deadlock after a kill: unfinished {[p for p, v in pcs.items() if v == 'run']}"
    return None


# =============================================================================================================
# (i) wiring correspondence
# =============================================================================================================
def _mk_plugin_class(cls_name, provides, depends_on, max_messages=None, parallel=False):
    provides = tuple(provides)
    body = dict(provides=provides if len(provides) > 1 else provides[0], depends_on=tuple(depends_on),
                max_messages=max_messages, parallel=parallel, __version__="0")
    if len(provides) > 1:
        body["data_kind"] = {p: p for p in provides}
        body["dtype"] = {p: DT for p in provides}
    else:
        body["data_kind"] = provides[0]
        body["dtype"] = DT
    body["compute"] = lambda self, **kw: None
    return type(cls_name, (strax.Plugin,), body)


def wire_case(rng):
    """a random components description: layered DAG of data types, single- and multi-output plugins, loaders,
    savers (also on loader-fed and on otherwise unused outputs), random dict orders"""
    n_layers = rng.randint(1, 4)
    names = iter("abcdefghijklmnopqrstuvwxyz")
    layers, defs, loaders = [], [], []
    for li in range(n_layers):
        layer = []
        for _ in range(rng.randint(1, 2)):
            multi = rng.random() < 0.35
            prov = [next(names) * 2 for _ in range(rng.choice([2, 2, 3]) if multi else 1)]
            below = [d for lay in layers for d in lay]
            if li == 0 or not below:
                deps = []
            else:
                deps = rng.sample(below, rng.randint(1, min(3, len(below))))
                if not set(deps) & set(layers[-1]):
                    deps[0] = rng.choice(layers[-1])
            if li == 0 and not multi and rng.random() < 0.4:
                loaders.append((prov[0], rng.randint(0, 3)))
            else:
                defs.append(dict(cls="P" + prov[0].upper(), provides=prov, depends_on=deps,
                                 max_messages=rng.choice([None, None, None, 1, 2, 7]), chunks=rng.randint(0, 3)))
            layer += prov
        layers.append(layer)
    top = [d for d in layers[-1]]
    target = rng.choice(top)
    # keys of components.plugins: every provided type of a single-output plugin, a non-empty subset for multi-output
    keys = []
    for i, d in enumerate(defs):
        prov = d["provides"]
        sub = prov if len(prov) == 1 or rng.random() < 0.5 else rng.sample(prov, rng.randint(1, len(prov)))
        if target in prov and target not in sub:
            sub = sub + [target]
        keys += [(p, i) for p in sub]
    rng.shuffle(keys)
    if not defs or target in [ld[0] for ld in loaders]:
        # the target must be built by a plugin or loaded; both are fine for the wiring
        pass
    all_types = [d for lay in layers for d in lay]
    savers = [(d, rng.choice([0, 1, 1, 2])) for d in rng.sample(all_types, rng.randint(0, len(all_types)))]
    # a loader-fed type that a multi-output plugin provides as well (D13 wiring) once in a while
    if loaders and rng.random() < 0.1:
        multi = [d for d in defs if len(d["provides"]) > 1]
        if multi:
            victim = rng.choice(multi)
            if victim["provides"][1] != target:
                loaders.append((victim["provides"][1], 1))
                keys = [(k, i) for (k, i) in keys if k != victim["provides"][1]]
    return dict(allow_lazy=int(rng.random() < 0.6), max_workers=rng.choice([None, None, 1, 2, 4]),
                max_messages=rng.choice([1, 2, 4, 5]), target=target, loaders=loaders, defs=defs, keys=keys, savers=savers)


def wire_op(c):
    loaders = ",".join(f"{d}:{k}" for d, k in c["loaders"]) or "-"
    defs = ";".join(f"{d['cls']}|{'.'.join(d['provides'])}|{'.'.join(d['depends_on'])}|"
                    f"{'-' if d['max_messages'] is None else d['max_messages']}|{d['chunks']}" for d in c["defs"]) or "-"
    plugins = ",".join(f"{k}={i}" for k, i in c["keys"]) or "-"
    savers = ",".join(f"{d}={n}" for d, n in c["savers"]) or "-"
    mw = "-" if c["max_workers"] is None else c["max_workers"]
    return f"c06.wire {c['allow_lazy']} {mw} {c['max_messages']} {c['target']} {loaders} {defs} {plugins} {savers}"


def _read_sub(gen, key_of):
    """(mailbox key, subscriber index) of a not yet started `Mailbox._read` generator"""
    loc = gen.gi_frame.f_locals
    return f"{key_of[id(loc['self'])]}@{loc['subscriber_i']}"


def wire_impl(c):
    insts = [_mk_plugin_class(d["cls"], d["provides"], d["depends_on"], d["max_messages"])() for d in c["defs"]]
    plugins = {k: insts[i] for k, i in c["keys"]}

    def mk_loader(n):
        def loader(executor=None):
            yield from range(n)
        return loader
    loaders = {d: mk_loader(n) for d, n in c["loaders"]}
    savers = {d: [strax.Saver(dict(run_id="0")) for _ in range(n)] for d, n in c["savers"]}
    comps = strax.ProcessorComponents(plugins=plugins, loaders=loaders, loader_plugins={}, savers=savers,
                                      targets=(c["target"],))
    pr = strax.ThreadedMailboxProcessor(comps, allow_lazy=bool(c["allow_lazy"]), max_workers=c["max_workers"],
                                        max_messages=c["max_messages"], timeout=5)
    try:
        main_gen = pr.mailboxes[c["target"]].subscribe()          # the first statement of iter()
        key_of = {id(m): k for k, m in pr.mailboxes.items()}
        mbs, ths = [], []
        for k, m in pr.mailboxes.items():
            drive = "".join("1" if d else "0" for d in m._subscriber_can_drive)
            mm = m.max_messages
            mbs.append(f"{k}|{int(m.lazy)}|{mm}|{drive}|{','.join(t.name for t in m._threads)}")
            for t in m._threads:
                a0 = t._args[0]
                free, outs = "", ""
                if a0.gi_code.co_name == "_read":
                    subs = [_read_sub(a0, key_of)]
                    kw = getattr(t._target, "keywords", None) or {}
                    if "flow_freely" in kw:
                        free = "+".join(sorted(kw["flow_freely"]))
                        outs = "+".join(kw["outputs"])
                        assert list(kw["outputs"]) == list(kw["mailboxes"].keys())
                elif a0.gi_code.co_name == "iter":
                    iters = a0.gi_frame.f_locals["iters"]
                    subs = [_read_sub(g, key_of) for g in iters.values()]
                else:
                    subs = []
                ths.append(f"{t.name}<{'+'.join(subs)}>{{{free}}}[{outs}]")
        ths.append(f"main<{_read_sub(main_gen, key_of)}>{{}}[]")
        return f"ok {';'.join(mbs)} # {';'.join(ths)}"
    finally:
        if pr.thread_executor is not None:
            pr.thread_executor.shutdown(wait=False)


def wire_oracle(c, out):
    """sanity facts the net-level theorems rely on, read off the real wiring"""
    if not out.startswith("ok "):
        return f"ThreadedMailboxProcessor could not be built: {out}"
    mbs = [m.split("|") for m in out[3:].split(" # ")[0].split(";")]
    lazy = bool(c["allow_lazy"]) and c["max_workers"] in (None, 1)
    for key, lz, mm, drive, threads in mbs:
        if int(lz) != int(lazy):
            return f"mailbox {key}: lazy={lz}, expected {int(lazy)}"
        if mm in ("inf", "None"):
            return f"mailbox {key} has max_messages {mm} inside a pipeline"
        senders = [t for t in threads.split(",") if t.split(":")[0] in ("load", "build", "divide_outputs")]
        # D13 wiring: a loader-fed type that is also an output of a multi-output plugin has the loader as its only
        # `_threads` sender; the divider sends into it as well (C01/C11's finding, not judged here)
        if len(senders) > 1:
            return f"mailbox {key} has {len(senders)} sender threads: {senders}"
    return None


# =============================================================================================================
# (ii) PostOffice correspondence
# =============================================================================================================
class StubSaver(strax.Saver):
    """real strax.Saver (save / close / closed flag / got_exception) with in-memory abstract methods"""

    def __init__(self, fail_save=None, fail_close=False, exc=0):
        super().__init__(dict(run_id="0", data_type="x"))
        self.fail_save, self.fail_close, self.exc_id = fail_save, fail_close, exc

    def _save_chunk(self, data, chunk_info, executor=None):
        if self.fail_save is not None and chunk_info["chunk_i"] == self.fail_save:
            raise Injected(self.exc_id)
        return dict(filename="mem"), None

    def _save_chunk_metadata(self, chunk_info):
        self.md["chunks"].append(chunk_info)

    def _close(self):
        if self.fail_close:
            raise Injected(self.exc_id)


def _chunk(topic, k):
    r = np.zeros(1, DT)
    r["time"], r["endtime"], r["id"] = k * CH + 1, k * CH + 2, k
    return strax.Chunk(start=k * CH, end=(k + 1) * CH, data=r, data_type=topic, data_kind=topic, dtype=r.dtype,
                       run_id="0", target_size_mb=1)


def _exc_tok(e):
    if isinstance(e, Injected):
        return f"Injected[{e.ident}]"
    # (both messages embed the saver's metadata, which may contain the traceback TEXT of an earlier exception: anchor them)
    if isinstance(e, RuntimeError) and str(e).startswith("Attmpt to save to"):
        return "SaveToClosed"           # Saver.save on a closed saver
    if isinstance(e, RuntimeError) and str(e).endswith("saver already closed"):
        return "AlreadyClosed"          # Saver.close on a closed saver
    for k in (AssertionError, RuntimeError, KeyError, ValueError, TypeError):
        if isinstance(e, k):
            return k.__name__
    return type(e).__name__


def po_impl(case):
    po = pom.PostOffice()
    gens, toks = [], []

    def producer(script, topics):
        def gen():
            n = 0
            for ins in script:
                if ins[0] == "g":
                    try:
                        next(gens[int(ins[1:])])
                    except StopIteration:
                        pass
                elif ins == "y":
                    yield (_chunk(f"t{topics[0]}", n) if len(topics) == 1 else {f"t{t}": _chunk(f"t{t}", n) for t in topics})
                    n += 1
                else:
                    raise Injected(int(ins[1:]))
        return gen()

    def rname(r):
        return "FINAL" if r == 99 else f"r{r}"

    for op in case["ops"]:
        f = op.split(":")
        try:
            if f[0] == "P":
                topics = [int(x) for x in f[1].split(".")]
                reg = tuple(f"t{x}" for x in f[2].split(".")) if f[2] != "-" else ()
                script = [] if f[3] == "-" else f[3].split(",")
                po.register_producer(producer(script, topics), topic=tuple(f"t{t}" for t in topics), registered=reg)
                toks.append("ok")
            elif f[0] == "S":
                sv = StubSaver(None if f[2] == "-" else int(f[2]), f[3] == "1", int(f[4]))
                po.register_spy(stm.SaverSpy(sv, rechunk=False), topic=f"t{f[1]}")
                toks.append("ok")
            elif f[0] == "I":
                gens.append(po.get_iter(f"t{f[1]}", rname(int(f[2]))))
                toks.append("ok")
            elif f[0] == "N":
                try:
                    x = next(gens[int(f[1])])
                    toks.append(f"m{int(x.data['id'][0])}")
                except StopIteration:
                    toks.append("stop")
            elif f[0] == "K":
                po.kill_spies()
                toks.append("ok")
            elif f[0] == "R":
                proc = stm.SingleThreadProcessor.__new__(stm.SingleThreadProcessor)
                proc.log = logging.getLogger("c06.po")
                proc.post_office = po
                proc.components = strax.ProcessorComponents(plugins={}, loaders={}, loader_plugins={}, savers={},
                                                            targets=(f"t{f[1]}",))
                gen = proc.iter()
                gens.append(None)        # the FINAL generator lives inside proc.iter(); keep the numbering aligned
                cons, got = f[2], []
                fmt = lambda g: ".".join(map(str, g)) or "_"  # noqa: E731
                try:
                    tok = None
                    for x in gen:
                        got.append(int(x.data["id"][0]))
                        if cons[0] == "t" and len(got) == int(cons[1:].split(".")[0]):
                            gen.throw(Injected(int(cons.split(".")[1])))
                        if cons[0] == "c" and len(got) == int(cons[1:]):
                            gen.close()
                            tok = f"closed({fmt(got)})"
                            break
                    toks.append(tok or f"fin({fmt(got)})")
                except Exception as e:  # noqa: BLE001
                    ctx = e.__context__
                    show_ctx = ctx is not None and isinstance(ctx, (Injected, RuntimeError, AssertionError)) and \
                        not str(ctx).startswith("Exception in caller")
                    toks.append(f"raised({_exc_tok(e)}<{_exc_tok(ctx)})" if show_ctx else f"raised({_exc_tok(e)})")
            else:
                return "bad-case"
        except Exception as e:  # noqa: BLE001
            toks.append(f"err({_exc_tok(e)})")
    state = []
    for t in po._saved_mail:
        num = lambda xs: ".".join(str(x) for x in xs) or "_"  # noqa: E731
        rid = lambda r: 99 if r == "FINAL" else int(r[1:])  # noqa: E731
        readers = "+".join(f"{rid(r)}={v + 1}" for r, v in po._last_msg_read[t].items()) or "_"
        spies = "+".join(f"{'c' if s.saver.closed else 'o'}{s.chunk_number}" for s in po._spies[t]) or "_"
        state.append(f"{t[1:]}:saved={num(n for n, _ in po._saved_mail[t])}:prod={po._last_msg_produced[t] + 1}:"
                     f"readers={readers}:done={num(rid(r) for r in po._readers_done[t])}:"
                     f"exh={int(t in po._exhausted_topics)}:spies={spies}")
    return f"ok {','.join(toks)} | {' '.join(state)}"


def po_case(rng, kind):
    """a random bus: topics 0..n-1 in dependency order; producer k pulls from readers of earlier topics"""
    ops, n_gens = [], 0
    n_topics = rng.randint(1, 4)
    fault = kind == "fault"
    registered = []          # loader-like topics (for the `registered` argument)
    topic_gens = {}          # topic -> list of generator indices that external ops may pull
    t = 0
    prod_topics = []
    while t < n_topics:
        multi = rng.random() < 0.3 and t + 1 < n_topics + 1
        topics = [t, t + 1] if multi else [t]
        # readers this producer owns on earlier topics
        own = []
        for dep in rng.sample(prod_topics, min(len(prod_topics), rng.randint(0, 2))) if prod_topics else []:
            ops.append(f"I:{dep}:{10 + topics[0]}")
            own.append(n_gens)
            n_gens += 1
        n_msg = rng.randint(0, 3)
        script = []
        for _ in range(n_msg):
            script += [f"g{g}" for g in own if rng.random() < 0.85] + ["y"]
        script += [f"g{g}" for g in own]
        if fault and rng.random() < 0.3 and script:
            script.insert(rng.randint(0, len(script)), f"x{rng.randint(1, 9)}")
        reg = "-"
        if multi and registered and rng.random() < 0.15:
            reg = str(rng.choice(registered))
        ops.append(f"P:{'.'.join(map(str, topics))}:{reg}:{','.join(script) or '-'}")
        if not multi and rng.random() < 0.3:
            registered.append(t)
        for tt in topics:
            prod_topics.append(tt)
            for _ in range(rng.choice([0, 1, 1, 2])):
                fs = rng.choice(["-", "-", "-", "0", "1", "2"]) if fault and rng.random() < 0.4 else "-"
                fc = int(fault and rng.random() < 0.25)
                ops.append(f"S:{tt}:{fs}:{fc}:{rng.randint(11, 19)}")
        t += len(topics)
    if kind == "malformed":
        r = rng.random()
        if r < 0.4:
            ops.append(f"P:{rng.choice(prod_topics)}:-:y")           # second producer for a topic
        elif r < 0.7:
            ops.append(f"I:{n_topics + 3}:1")                         # a topic without producer
            topic_gens[n_topics + 3] = [n_gens]
            n_gens += 1
        else:
            ops.append(f"S:{n_topics + 4}:-:0:1")
    # external readers
    ext = []
    for tt in rng.sample(prod_topics, rng.randint(1, len(prod_topics))):
        for r in range(rng.choice([1, 1, 2])):
            ops.append(f"I:{tt}:{r}")
            ext.append(n_gens)
            n_gens += 1
    ext += [g for gs in topic_gens.values() for g in gs]
    rng.shuffle(ops) if False else None
    # pulls, kill_spies, processor runs
    for _ in range(rng.randint(2, 10)):
        r = rng.random()
        if r < 0.7 and ext:
            ops.append(f"N:{rng.choice(ext)}")
        elif r < 0.78:
            ops.append("K")
        else:
            cons = rng.choice(["d", "d", f"t{rng.randint(1, 2)}.{rng.randint(21, 29)}", f"c{rng.randint(1, 2)}"])
            ops.append(f"R:{rng.choice(prod_topics)}:{cons}")
            n_gens += 1
    return dict(ops=ops, kind=kind)


def po_fixed_cases():
    """the witnesses of the PostOffice theorems (D7 and friends)"""
    return [
        # D7: upstream saver closed at exhaustion, then the target's saver fails in close -> RuntimeError masks it
        dict(ops="P:0:-:y;S:0:-:0:1;I:0:1;P:1:-:g0,y,g0;S:1:-:1:7;R:1:d".split(";"), kind="fixed"),
        # a producer fails while an upstream topic is already exhausted and its spy closed
        dict(ops="P:0:-:y;S:0:-:0:1;I:0:1;P:1:-:g0,y,g0,x5;S:1:-:0:7;R:1:d".split(";"), kind="fixed"),
        # failure with no spy closed yet: the original exception arrives
        dict(ops="P:0:-:y,y;S:0:-:0:1;I:0:1;P:1:-:g0,y,x5;S:1:-:0:7;R:1:d".split(";"), kind="fixed"),
        dict(ops="P:0:-:y,y;S:0:1:0:4;R:0:d".split(";"), kind="fixed"),
        dict(ops="P:0:-:y,y;S:0:-:0:4;R:0:t1.22".split(";"), kind="fixed"),
        dict(ops="P:0:-:y,y;S:0:-:0:4;R:0:c1".split(";"), kind="fixed"),
        dict(ops="P:0.1:-:y,y;S:0:-:0:4;S:1:-:1:5;I:1:3;R:0:d;N:0;N:0;N:0".split(";"), kind="fixed"),
    ]


def po_oracle(case, out):
    """C06 on the bus, evaluated on the real answers: an exception injected into a producer or a spy is what the
    consumer of the processor receives — unless the D7 masking shape applies, which is reported as such"""
    if not out.startswith("ok "):
        return f"adapter answered {out[:60]}"
    toks = out[3:].split(" | ")[0].split(",")
    for op, tok in zip(case["ops"], toks):
        if not op.startswith("R:"):
            continue
        if tok.startswith("raised(AlreadyClosed<Injected["):
            # the shape of D7 and nothing else: Saver.close raised "saver already closed" while an injected exception was
            # being handled, i.e. kill_spies re-closed a saver that was closed before
            return ("D7-shape: single_thread bus, kill_spies re-closed a saver that was already closed: the consumer gets "
                    "RuntimeError('… saver already closed') with the injected exception only as __context__: " + tok)
        if tok.startswith("raised(") and "<Injected[" in tok and not tok.startswith("raised(Injected["):
            # (a second INJECTED failure raised while the first is handled — a saver whose close was told to fail, closed by
            # kill_spies — is a two-fault script: the consumer still gets an injected exception)
            return (f"an injected exception was replaced by a foreign one on its way to the consumer: {tok} "
                    f"(ops {';'.join(case['ops'])})")
    return None


# =============================================================================================================
# (iii) the real processors under the cooperative scheduler
# =============================================================================================================
FAULT = {}


def hit(kind, name, index):
    if FAULT.get("key") == (kind, name, index):
        FAULT["fired"] = FAULT.get("fired", 0) + 1
        raise Injected(FAULT["ident"])


class MemSaver(strax.Saver):
    def __init__(self, store, key, metadata):
        super().__init__(metadata)
        self.store, self.key = store, key
        self.chunks = {}
        self.data_type = metadata["data_type"]

    def _write(self, chunk_i, data):
        hit("save", self.data_type, chunk_i)
        self.chunks[chunk_i] = data

    def _save_chunk(self, data, chunk_info, executor=None):
        ci = chunk_info["chunk_i"]
        if executor is None:
            self._write(ci, data)
            return dict(filename=f"mem-{ci}"), None
        return dict(filename=f"mem-{ci}"), executor.submit(self._write, ci, data)

    def _save_chunk_metadata(self, chunk_info):
        self.md["chunks"].append(chunk_info)

    def _close(self):
        hit("close", self.data_type, 0)
        self.store[self.key] = dict(md=dict(self.md), chunks=dict(self.chunks))


class MemBackend(strax.StorageBackend):
    def __init__(self, store):
        self.store = store

    def _get_metadata(self, backend_key, **kw):
        if backend_key not in self.store:
            raise strax.DataNotAvailable(backend_key)
        return dict(self.store[backend_key]["md"])

    def _read_chunk(self, backend_key, chunk_info, dtype, compressor):
        hit("load", self.store[backend_key]["md"]["data_type"], chunk_info["chunk_i"])
        return self.store[backend_key]["chunks"][chunk_info["chunk_i"]]

    def _saver(self, key, metadata, **kw):
        return MemSaver(self.store, key, metadata)


class MemFrontend(strax.StorageFrontend):
    storage_type = strax.StorageType.MEMORY

    def __init__(self, store):
        super().__init__()
        self.store = store
        self.backends = [MemBackend(store)]

    def _find(self, key, write, allow_incomplete, fuzzy_for, fuzzy_for_options):
        k = str(key)
        if write or k in self.store:
            return "MemBackend", k
        raise strax.DataNotAvailable(k)


LAGS = {}


class Probe:
    """mixin measuring a plugin's chunk lag: input chunks fetched minus input chunks whose time range is covered by
    what the plugin has emitted so far (maximum over time and dependencies)"""

    def _probe(self):
        return LAGS.setdefault(self.__class__.__name__[2:], dict(ends={}, out=-1, lag=0))

    def _fetch_chunk(self, d, iters, check_end_not_before=None):
        ok = super()._fetch_chunk(d, iters, check_end_not_before=check_end_not_before)
        if ok:
            st = self._probe()
            st["ends"].setdefault(d, []).append(self.input_buffer[d].end)
            lag = max(sum(1 for e in ends if e > st["out"]) for ends in st["ends"].values())
            st["lag"] = max(st["lag"], lag)
        return ok

    def do_compute(self, chunk_i=None, **kwargs):
        res = super().do_compute(chunk_i=chunk_i, **kwargs)
        st = self._probe()
        end = max([c.end for c in res.values()]) if isinstance(res, dict) else res.end
        st["out"] = max(st["out"], end)
        return res


def _rows_like(x):
    r = np.zeros(len(x), DT)
    r["time"], r["endtime"], r["id"] = x["time"], strax.endtime(x), x["id"]
    return r


def _count(plugin):
    """index of this compute call (a plugin with several dependency kinds may not take chunk_i)"""
    n = plugin.__dict__.get("_calls", 0)
    plugin.__dict__["_calls"] = n + 1
    return n


def graph_classes(g):
    """plugin classes of a graph description (list of node dicts); class names are stable so lineages match between the
    context that pre-stores data and the one under test"""
    out = []
    nch = g["nch"]
    for nd in g["nodes"]:
        name = nd["name"]
        kind = nd["kind"]
        body = dict(__version__="1", depends_on=tuple(nd.get("deps", ())), rechunk_on_save=False,
                    parallel=bool(nd.get("parallel", False)))
        sw = nd.get("save", "never")
        to_sw = dict(never=strax.SaveWhen.NEVER, target=strax.SaveWhen.TARGET, always=strax.SaveWhen.ALWAYS)
        if kind == "multi":
            prov = tuple(nd["provides"])
            body.update(provides=prov, data_kind={p: p for p in prov}, dtype={p: DT for p in prov},
                        save_when=immutabledict({p: to_sw[nd.get("saves", {}).get(p, "never")] for p in prov}))

            def compute(self, _name=name, _prov=prov, **kw):
                hit("plugin", _name, _count(self))
                x = next(iter(kw.values()))
                return {p: _rows_like(x) for p in _prov}
        else:
            body.update(provides=name, data_kind=name, dtype=DT, save_when=to_sw[sw])
            if kind == "source":
                def compute(self, chunk_i, _name=name):
                    hit("plugin", _name, chunk_i)
                    r = np.zeros(1, DT)
                    r["time"], r["endtime"], r["id"] = chunk_i * CH + 2, chunk_i * CH + 4, chunk_i
                    return self.chunk(start=chunk_i * CH, end=(chunk_i + 1) * CH, data=r)
                body["is_ready"] = lambda self, chunk_i, _n=nch: chunk_i < _n
                body["source_finished"] = lambda self: True
            elif kind == "overlap":
                def compute(self, _name=name, **kw):
                    hit("plugin", _name, _count(self))
                    return _rows_like(next(iter(kw.values())))
                body["get_window_size"] = lambda self, _w=nd["window"]: _w
            else:
                def compute(self, _name=name, **kw):
                    hit("plugin", _name, _count(self))
                    return _rows_like(next(iter(kw.values())))
        body["compute"] = compute
        base = strax.OverlapWindowPlugin if kind == "overlap" else strax.Plugin
        out.append(type("H_" + name, (Probe, base), body))
    return out


class QuietBar:
    """stand-in for tqdm inside strax.context during the scheduled runs: tqdm keeps a class-level multiprocessing lock
    and a real monitor thread, neither of which belongs into a run in which exactly one thread may move"""

    def __init__(self, *a, **kw):
        self.n = 0

    def __enter__(self):
        return self

    def __exit__(self, *a):
        return False

    def close(self):
        pass

    def update(self, *a):
        pass

    def set_postfix_str(self, *a):
        pass


def cwait(fs, timeout=None, return_when=None):
    """cooperative stand-in for concurrent.futures.wait (strax.storage.common)"""
    fs = list(fs)
    for f in fs:
        if not f.done():
            try:
                f.exception(timeout)
            except Exception:  # noqa: BLE001
                pass
    done = {f for f in fs if f.done()}
    return done, set(fs) - done


GRAPHS = {
    # chain with savers on the mid type and on the target
    "chain": dict(nch=3, target="tt", nodes=[
        dict(name="ss", kind="source"),
        dict(name="mm", kind="row", deps=["ss"], save="always"),
        dict(name="tt", kind="row", deps=["mm"], save="target")]),
    # tree: the target merges two independent sources
    "tree": dict(nch=3, target="tt", nodes=[
        dict(name="sa", kind="source"),
        dict(name="sb", kind="source", save="always"),
        dict(name="tt", kind="row", deps=["sa", "sb"], save="target")]),
    # multi-output plugin: one output feeds the target, one is saved only, one is discarded
    "multi": dict(nch=3, target="tt", nodes=[
        dict(name="ss", kind="source"),
        dict(name="mo", kind="multi", deps=["ss"], provides=["xx", "yy", "zz"], saves=dict(yy="always")),
        dict(name="tt", kind="row", deps=["xx"], save="target")]),
    # diamond without lag
    "diamond": dict(nch=3, target="tt", nodes=[
        dict(name="ss", kind="source"),
        dict(name="aa", kind="row", deps=["ss"], save="always"),
        dict(name="bb", kind="row", deps=["ss"]),
        dict(name="tt", kind="row", deps=["aa", "bb"], save="target")]),
    # loader: `mm` is stored beforehand and loaded, `tt` computed from it
    "loader": dict(nch=3, target="tt", prestore=["mm"], nodes=[
        dict(name="ss", kind="source"),
        dict(name="mm", kind="row", deps=["ss"], save="always"),
        dict(name="tt", kind="row", deps=["mm"], save="target")]),
    # worker-pool flavour: parallel plugins
    "par": dict(nch=3, target="tt", nodes=[
        dict(name="ss", kind="source"),
        dict(name="mm", kind="row", deps=["ss"], save="always", parallel=True),
        dict(name="tt", kind="row", deps=["mm"], save="target", parallel=True)]),
    # worker pool + parallel MULTI-OUTPUT plugin whose LAST output leads to the target (the first one is discarded): a
    # failing compute arrives in the divide_outputs thread itself, as the exception of a future
    "parmulti": dict(nch=3, target="tt", nodes=[
        dict(name="ss", kind="source"),
        dict(name="mo", kind="multi", deps=["ss"], provides=["xx", "yy", "zz"], saves=dict(yy="always"), parallel=True),
        dict(name="tt", kind="row", deps=["zz"], save="target", parallel=True)]),
}


def lag_graph(window, nch):
    """D10's shape: `cc` depends on `ss` and on `b2 <- b1 <- ss`, two overlap-window plugins"""
    return dict(nch=nch, target="cc", reconvergent=True, nodes=[
        dict(name="ss", kind="source"),
        dict(name="b1", kind="overlap", deps=["ss"], window=window),
        dict(name="b2", kind="overlap", deps=["b1"], window=window),
        dict(name="cc", kind="row", deps=["ss", "b2"])])


def chain_lag_graph(window, nch):
    """the same two overlap plugins in a plain chain: cumulative lag without reconvergence"""
    return dict(nch=nch, target="cc", nodes=[
        dict(name="ss", kind="source"),
        dict(name="b1", kind="overlap", deps=["ss"], window=window),
        dict(name="b2", kind="overlap", deps=["b1"], window=window),
        dict(name="cc", kind="row", deps=["b2"])])


_CTX_CACHE = {}


def get_graph(case):
    if case["graph"] in GRAPHS:
        return GRAPHS[case["graph"]]
    kind, w, n = case["graph"].split(":")
    return (lag_graph if kind == "lag" else chain_lag_graph)(int(w), int(n))


def graph_setup(gname, g):
    """classes + pre-stored data of a graph (cached per process)"""
    if gname in _CTX_CACHE:
        return _CTX_CACHE[gname]
    classes = graph_classes(g)
    store = {}
    if g.get("prestore"):
        FAULT.clear()
        st = strax.Context(storage=[MemFrontend(store)], register=classes, allow_lazy=True)
        for d in g["prestore"]:
            st.make("0", d, progress_bar=False, processor="single_thread")
        # keep only what was asked for (the target's saver may have stored more)
        store = {k: v for k, v in store.items() if any(f"-{d}-" in k for d in g["prestore"])}
    _CTX_CACHE[gname] = (classes, store)
    return _CTX_CACHE[gname]


class PrefixPriority:
    """adversarial scheduling: the task whose name matches the earliest prefix in `order` runs first (ties: random)"""

    def __init__(self, order, rng):
        self.order, self.rng = order, rng

    def choose(self, sched, runnable):
        def rank(t):
            for i, p in enumerate(self.order):
                if t.name.startswith(p):
                    return i
            return len(self.order)
        best = min(rank(t) for t in runnable)
        cands = [t for t in runnable if rank(t) == best]
        return cands[self.rng.randrange(len(cands))]


ADVERSARIAL = {
    "starve-main": ["build", "load", "divide", "read_", "save", "discard", "pool", "main"],
    "starve-savers": ["main", "build", "load", "divide", "read_", "pool", "discard", "save"],
    "starve-source": ["main", "save", "discard", "read_", "pool", "divide_outputs", "build:tt", "build:cc", "build:mm",
                      "build", "load"],
    "eager-source": ["build:ss", "build:sa", "build:sb", "load", "build", "divide", "read_", "pool", "save", "discard", "main"],
    "savers-first": ["save", "discard", "pool", "main", "read_", "divide", "build", "load"],
}


def prio_key(spec, name):
    """fixed priority of a thread (smaller runs first), a pure function of (policy, thread name) so that the policy can be
    handed to the Lean driver as a list of names"""
    if spec.get("main") == "first" and name == "main":
        return -1.0
    if spec.get("main") == "last" and name == "main":
        return 2.0
    return random.Random(f"{spec['seed']}:{name}").random()


class KeyPriority:
    def __init__(self, spec):
        self.spec = spec

    def choose(self, sched, runnable):
        return min(runnable, key=lambda t: (prio_key(self.spec, t.name), t.index))


def make_strategy(spec):
    if spec["kind"] == "prio":
        return KeyPriority(spec)
    rng = random.Random(spec["seed"])
    k = spec["kind"]
    if k == "random":
        return S.RandomStrategy(rng, stick=spec.get("stick", 0.0))
    if k == "pct":
        return S.PCTStrategy(rng, depth=spec.get("depth", 3), est_steps=spec.get("est", 120))
    if k in ADVERSARIAL:
        return PrefixPriority(ADVERSARIAL[k], rng)
    raise ValueError(k)


def run_pipeline(case):
    """one run of the REAL processor for `case` -> canonical line"""
    g = get_graph(case)
    classes, store0 = graph_setup(case["graph"], g)
    store = dict(store0)
    FAULT.clear()
    LAGS.clear()
    fault = case.get("fault")
    consumer_fault = None
    if fault:
        if fault[0].startswith("consumer"):
            consumer_fault = fault
        else:
            FAULT.update(key=(fault[0], fault[1], fault[2]), ident=case["ident"], fired=0)
    st = strax.Context(storage=[MemFrontend(store)], register=classes, allow_lazy=bool(case["lazy"]),
                       max_messages=case["cap"], timeout=3600, allow_rechunk=False)
    dyn = bool(case.get("dyn"))
    sc = S.Sched(make_strategy(case["strat"]), prime=True, max_steps=60000, yield_on_start=not dyn)
    res = {}
    captured = []

    class Capture(strax.ThreadedMailboxProcessor):
        def __init__(self, *a, **kw):
            super().__init__(*a, **kw)
            captured.append(self)

    def dump_state():
        pr = captured[0]
        mbs = []
        for k, m in pr.mailboxes.items():
            flags = f"{int(m.closed)}{int(m.killed)}" + ("" if m.killed == m.force_killed else "!force")
            mbs.append(f"{k}|{flags}|{m._n_sent}|{'.'.join(str(int(x)) for x in m._subscribers_have_read)}")
        return ";".join(mbs)

    if dyn:
        sc.on_deadlock = lambda s_: res.setdefault("dl_state", dump_state() if captured else "?")

    class Fut:
        ThreadPoolExecutor = staticmethod(lambda max_workers=None: S.SchedExecutor(sc, max_workers or 2))
        ProcessPoolExecutor = tmm.futures.ProcessPoolExecutor

    def consumer():
        ids, it = [], None
        try:
            it = st.get_iter("0", g["target"], processor=(Capture if dyn else case["proc"]), max_workers=case["workers"],
                             progress_bar=False)
            n = 0
            for c in it:
                ids += [int(x) for x in c.data["id"]]
                n += 1
                if consumer_fault and n == consumer_fault[2]:
                    if consumer_fault[0] == "consumer-raise":
                        raise Injected(case["ident"])
                    break
            res["out"] = ("ret", ids)
        except BaseException as e:  # noqa: BLE001
            if isinstance(e, S._Abort):
                raise
            res["out"] = ("exc", e)
        if consumer_fault and it is not None:
            # what the garbage collector does with the abandoned generator (PEP 342), made deterministic
            try:
                it.close()
                res["close"] = "ok"
            except BaseException as e:  # noqa: BLE001
                if isinstance(e, S._Abort):
                    raise
                res["close"] = type(e).__name__

    saved = (tmm.futures, scm.wait, sctx.tqdm)
    logging.disable(logging.CRITICAL)
    try:
        tmm.futures, scm.wait, sctx.tqdm = Fut, cwait, QuietBar
        with sc.patch(mbm):
            sc.spawn(consumer, "main")
            sc.run()
    finally:
        tmm.futures, scm.wait, sctx.tqdm = saved
        logging.disable(logging.NOTSET)
    sc.join_real()
    kind, val = res.get("out", ("none", None))
    if kind == "ret":
        out = "ret:" + (".".join(map(str, val)) or "_")
    elif kind == "exc":
        ctx = val.__context__
        out = f"exc:{_exc_name(val)}"
        if isinstance(ctx, Injected):
            out += f"<ctx:Injected[{ctx.ident}]"
    else:
        out = "none"
    if dyn:
        return dyn_line(case, sc, res, captured, dump_state, val if kind == "exc" else None, kind), sc
    live = [t.name for t in sc.tasks if t.state != "done"]
    died = sorted({f"{t.name.split(':')[0]}={_exc_name(t.exc)}" for t in sc.tasks if t.exc is not None})
    lags = ",".join(f"{k}:{v['lag']}" for k, v in sorted(LAGS.items())) or "-"
    return (f"ok out={out} close={res.get('close', '-')} live={'.'.join(live) or '-'} dl={int(bool(sc.deadlocks))} "
            f"fired={FAULT.get('fired', 0)} died={','.join(died) or '-'} steps={len(sc.trace)} lag={lags}"), sc


def dyn_line(case, sc, res, captured, dump_state, exc, kind):
    """end state of a fixed-priority run in the format of the driver's `c06.run` (+ the op line, stored in the case)"""
    if not captured:
        return "ok no-processor"
    pr = captured[0]
    state = res.get("dl_state") or dump_state()
    by_name = {t.name: t for t in sc.tasks}
    names = [t.name for m in pr.mailboxes.values() for t in m._threads] + ["main"]
    ths = []
    for n in names:
        t = by_name.get(n)
        if t is None or t.state != "done":
            st = "run"
        elif isinstance(t.exc, Injected):
            st = f"own[Injected[{t.exc.ident}]]"
        else:
            st = "ok"
        ths.append(f"{n}={st}")
    if sc.deadlocks:
        # the threads that were still alive when nothing could move (afterwards the harness delivers timeouts)
        alive = {n for n, _ in sc.deadlocks[0]}
        ths = [f"{x.split('=')[0]}=run" if x.split("=")[0] in alive else x for x in ths]
        out = "none"
    elif case.get("fault") and case["fault"][0].startswith("consumer") and res.get("close") == "OutsideException":
        # the consumer gave up: `close()` made get_iter throw OutsideException into the processor, which re-raised it
        # after its epilogue; modelled as the consumer's own exception 7
        out = "raised[Injected[7]]"
        ths[-1] = "main=own[Injected[7]]"
    elif kind == "ret":
        out = "returned"
    elif isinstance(exc, Injected):
        out = f"raised[Injected[{exc.ident}]]"
    else:
        out = f"raised[{_exc_name(exc)}]"
    # the op for the Lean driver, from the REAL components of this run
    comps = pr.components
    insts = []
    for p_ in comps.plugins.values():
        if not any(p_ is q for q in insts):
            insts.append(p_)
    nch = get_graph(case)["nch"]
    defs = ";".join(f"{type(p_).__name__}|{'.'.join(strax.to_str_tuple(p_.provides))}|{'.'.join(p_.depends_on)}|"
                    f"{'-' if p_.max_messages is None else p_.max_messages}|{nch}" for p_ in insts)
    keys = ",".join(f"{k}={next(i for i, q in enumerate(insts) if q is p_)}" for k, p_ in comps.plugins.items())
    loaders = ",".join(f"{d}:{nch}" for d in comps.loaders) or "-"
    savers = ",".join(f"{d}={len(v)}" for d, v in comps.savers.items()) or "-"
    fault = case.get("fault")
    ftok, ctok = "-", "d"
    if fault:
        if fault[0] == "plugin":
            idx = next(i for i, q in enumerate(insts) if type(q).__name__ == "H_" + fault[1])
            ftok = f"plugin:{idx}:{fault[2]}"
        elif fault[0].startswith("consumer"):
            ctok = f"f{fault[2]}"
        else:
            ftok = f"{fault[0]}:{fault[1]}:{fault[2]}"
    prio = ",".join(sorted(names, key=lambda n: (prio_key(case["strat"], n), names.index(n))))
    case["_op"] = (f"c06.run {case['lazy']} - {case['cap']} {','.join(comps.targets)} {loaders} {defs} {keys} {savers} "
                   f"{ftok} {ctok} {prio}")
    return f"ok {state} # {';'.join(ths)} # out={out} end={'deadlock' if sc.deadlocks else 'final'}"


def _exc_name(e):
    if isinstance(e, Injected):
        return f"Injected[{e.ident}]"
    msg = str(e)
    if msg.startswith("Attmpt to save to"):       # Saver.save on a closed saver (the text embeds the saver's metadata)
        msg = "save to closed saver"
    elif msg.endswith("saver already closed"):    # Saver.close on a closed saver (ditto)
        msg = "saver already closed"
    else:
        for marker in ("did not terminate", "in time", "emptied too slow", "generator raised StopIteration"):
            if marker in msg:
                msg = marker
                break
    msg = "".join(ch if ch.isalnum() else "_" for ch in msg)[:60]
    return f"{type(e).__name__}({msg})"


# =============================================================================================================
# corpus: thread-free witnesses of fixed defects in divide_outputs (D28, D29)
# =============================================================================================================
def divider_probe(case):
    """divide_outputs driven directly (no threads): a source mailbox holding `n` dicts + the end marker, output
    mailboxes xx, yy, zz of which `killed` was force-killed with an original exception at the start"""
    src = strax.Mailbox(name="divider", max_messages=10)
    gen = src.subscribe()
    outs = {d: strax.Mailbox(name=d, max_messages=10) for d in ("xx", "yy", "zz")}
    for d in case["dicts"]:
        src.send({k: d for k in outs})
    if case["closed"]:
        src.close()
    else:
        src.kill(upstream=True, reason=(Injected, Injected(2), None))
    for m in outs.values():
        m.subscribe()
    original = Injected(1)
    if case["killed"]:
        outs[case["killed"]].kill(upstream=True, reason=(Injected, original, None))
    try:
        strax.divide_outputs(gen, outs, outputs=("xx", "yy", "zz"))
        res = "returned"
    except BaseException as e:  # noqa: BLE001
        res = "raised:" + _exc_name(e)
    st = []
    for d, m in outs.items():
        why = m.killed_because[1] if m.killed_because else None
        st.append(f"{d}:{'closed' if m.closed else 'open'}/{'killed' if m.killed else 'alive'}/"
                  f"{_exc_name(why) if why is not None else '-'}")
    return f"ok {res} {' '.join(st)}"


def divider_oracle(case, out):
    """after divide_outputs has ended, every output mailbox is closed or killed (no reader can hang), and a kill
    reason is always one of the original exceptions"""
    parts = out.split(" ")
    for p in parts[2:]:
        d, rest = p.split(":", 1)
        state, killed, why = rest.split("/", 2)
        if state == "open" and killed == "alive":
            return f"output {d} is neither closed nor killed after divide_outputs ended ({out})"
        if why not in ("-", "Injected[1]", "Injected[2]"):
            return f"output {d} was killed with reason {why}, not with an original exception ({out})"
    return None


def divider_cases():
    out = []
    for n in (0, 1, 2):
        for closed in (True, False):
            for killed in (None, "xx", "yy", "zz"):
                out.append(dict(dicts=list(range(n)), closed=closed, killed=killed))
    return out


def fields(out):
    return dict(x.split("=", 1) for x in out[3:].split(" "))


_REF_LAG = {}


def ref_lags(gname):
    """per-plugin lag of a graph, measured on an unconstrained reference run (capacity 64, eager, random schedule)"""
    if gname not in _REF_LAG:
        _pin()
        line, _ = run_pipeline(dict(graph=gname, proc="threaded_mailbox", lazy=0, workers=None, cap=64, fault=None, ident=0,
                                    strat=dict(kind="random", seed=1)))
        _unpin()
        f = fields(line)
        _REF_LAG[gname] = {k: int(v) for k, v in (x.split(":") for x in f["lag"].split(",") if x != "-")} if f["lag"] != "-" else {}
    return _REF_LAG[gname]


def cumulative_lag(g, lags):
    """largest sum of plugin lags along a dependency path below the target (the target's own lag excluded);
    called with `lag - 1` per plugin it gives the number of chunks withheld along the branch"""
    nodes = {}
    for nd in g["nodes"]:
        for p in nd.get("provides", [nd["name"]]):
            nodes[p] = nd

    def below(d):
        nd = nodes[d]
        return lags.get(nd["name"], 0) + max([below(x) for x in nd.get("deps", [])] or [0])
    tgt = nodes[g["target"]]
    return max([below(x) for x in tgt.get("deps", [])] or [0])


def pipe_oracle(case, out):
    if not out.startswith("ok "):
        return f"adapter answered {out[:80]}"
    f = fields(out)
    g = get_graph(case)
    fault = case.get("fault")
    proc = case["proc"]
    expected = ".".join(map(str, range(g["nch"])))
    tag = f"[{case['graph']} {proc} lazy={case['lazy']} workers={case['workers']} cap={case['cap']} fault={fault}]"
    fired = int(f["fired"])
    if f["dl"] != "0":
        if fired == 0 and not fault and g.get("reconvergent"):
            # the property's capacity hypothesis, in chunks WITHHELD (a one-to-one plugin withholds 0; the Probe's `lag`
            # counts the chunk being worked on as well, hence lag - 1): it matters for an actual deadlock only
            held = {k: max(v - 1, 0) for k, v in ref_lags(case["graph"]).items()}
            single = max(held.values() or [0])
            withheld = cumulative_lag(g, held)
            if case["cap"] <= single:
                return None      # a deadlock outside the property's domain: capacity does not exceed the largest plugin lag
            if case["cap"] < withheld:
                return (f"D10-shape: no failure, reconvergent graph, deadlock (MailboxFullTimeout / MailboxReadTimeout after the "
                        f"mailbox timeout) although max_messages = {case['cap']} exceeds the largest number of chunks a single "
                        f"plugin withholds ({single}); withheld along the longer branch = {withheld} {tag}")
        multi = [nd for nd in g["nodes"] if nd["kind"] == "multi"]
        if fault and fault[0] == "save" and fired and multi and fault[1] in multi[0]["provides"][:-1] \
                and "read_0=MailboxKilled" in f["died"]:
            return (f"D28-shape: the saver of side output {fault[1]} of a multi-output plugin failed while divide_outputs was in "
                    f"its closing loop: `{fault[1]}.close()` raised MailboxKilled outside the handler, the outputs after it were "
                    f"neither closed nor killed and their readers hang until the mailbox timeout; caller got {f['out']} {tag}")
        return f"deadlock flagged by the scheduler: no pipeline thread could run, out={f['out']} died={f['died']} {tag}"
    if f["live"] != "-":
        return f"pipeline threads still alive after the caller got {f['out']}: {f['live']} {tag}"
    if fault and fault[0].startswith("consumer"):
        # the consumer gave up after `k` chunks (broke out of / raised in its own loop body — strax sees neither) and the
        # abandoned generator was closed: get_iter throws OutsideException into the processor.  Beyond "no thread left, no
        # deadlock" (above): what was delivered until then is the first k chunks, and close() ends with that
        # OutsideException — not with a different exception raised while shutting down.
        k = min(int(fault[2]), g["nch"])
        if fault[0] == "consumer-close" and f["out"] != "ret:" + ".".join(map(str, range(k))):
            return f"the consumer stopped after {k} chunks but had received {f['out']} {tag}"
        if f["close"] not in ("OutsideException", "ok"):
            return f"closing the abandoned iterator raised {f['close']} instead of OutsideException {tag}"
        return None
    if fault and fired > 0:
        want = f"exc:Injected[{case['ident']}]"
        if f["out"] == want:
            return None
        if proc == "single_thread" and fault[0] == "close" and f["out"].startswith("exc:RuntimeError(") \
                and "saver_already_closed" in f["out"] and f["out"].endswith(f"<ctx:Injected[{case['ident']}]"):
            # exactly D7's shape: the failing call is a saver's close() (which sets closed = True before it fails),
            # kill_spies closes that saver again, Saver.close raises "already closed" over the injected exception
            return (f"D7-shape: single_thread processor, saver.close() of {fault[1]} raised the injected exception; the caller "
                    f"got RuntimeError('... saver already closed') with it only as __context__ (kill_spies re-closes the "
                    f"closed saver) {tag}")
        multi = [nd for nd in g["nodes"] if nd["kind"] == "multi"]
        if proc == "threaded_mailbox" and fault[0] == "save" and multi and fault[1] in multi[0]["provides"] \
                and f["out"] == "exc:RuntimeError(generator_raised_StopIteration)":
            return (f"D29-shape: the saver of side output {fault[1]} of a multi-output plugin failed; the caller got "
                    f"RuntimeError('generator raised StopIteration') instead of the injected exception (divide_outputs' "
                    f"source.throw(e) on an exhausted _read generator replaced the MailboxKilled) {tag}")
        if proc == "threaded_mailbox" and fault[0] == "close" and f["out"] == "ret:" + expected:
            return (f"D26-shape: threaded_mailbox, saver.close() raised in the `finally` of save_from: the saver thread died, "
                    f"got_exception was never set and the caller returned normally with {f['out']} {tag}")
        return f"fault injected and fired, but the caller got {f['out']} instead of {want} {tag}"
    # no fault (or the fault position was never reached): must terminate with the complete result — whatever the
    # capacity and the lags are: a short result without an exception is silently truncated data, never excused
    if f["out"] != "ret:" + expected:
        return f"no fault fired, but the caller got {f['out']} instead of the full result {expected} {tag}"
    return None


def pipe_branch(case, out):
    f = fields(out) if out.startswith("ok ") else {}
    fault = case.get("fault")
    what = "none" if not fault else fault[0]
    res = f.get("out", "?").split(":")[0]
    cfg = f"{case['proc'][:6]}/{'lazy' if case['lazy'] else 'eager'}/{'pool' if case['workers'] else 'nopool'}"
    return f"{case['graph'].split(':')[0]}/{cfg}/{what}/{res}/fired={min(int(f.get('fired', 0)), 1)}/dl={f.get('dl', '?')}"


def fault_positions(gname):
    """every (stage kind, chunk index) of a graph"""
    g = GRAPHS[gname]
    nch = g["nch"]
    pos = []
    stored = set(g.get("prestore", []))
    for nd in g["nodes"]:
        names = nd.get("provides", [nd["name"]])
        computed = not (set(names) & stored) and not all(_below_stored(g, n, stored) for n in names)
        if computed:
            for i in range(nch):
                pos.append(("plugin", nd["name"], i))
        for n in names:
            if n in stored:
                for i in range(nch):
                    pos.append(("load", n, i))
            sw = nd.get("saves", {}).get(n, "never") if nd["kind"] == "multi" else nd.get("save", "never")
            saved = (sw == "always" or (sw == "target" and n == g["target"])) and n not in stored and computed
            if saved:
                for i in range(nch):
                    pos.append(("save", n, i))
                pos.append(("close", n, 0))
    for k in range(1, nch + 1):
        pos.append(("consumer-raise", "main", k))
        pos.append(("consumer-close", "main", k))
    return pos


def _below_stored(g, name, stored):
    """is `name` an ancestor of nothing that has to be computed, i.e. hidden behind stored data?"""
    # a node is needed iff some path from the target reaches it without passing through a stored type
    nodes = {}
    for nd in g["nodes"]:
        for p in nd.get("provides", [nd["name"]]):
            nodes[p] = nd
    needed, todo = set(), [g["target"]]
    while todo:
        d = todo.pop()
        if d in needed:
            continue
        needed.add(d)
        if d in stored:
            continue
        todo += list(nodes[d].get("deps", []))
    return name not in needed


CONFIGS = [
    dict(proc="threaded_mailbox", lazy=1, workers=None),
    dict(proc="threaded_mailbox", lazy=0, workers=None),
    dict(proc="threaded_mailbox", lazy=0, workers=2),
    dict(proc="single_thread", lazy=1, workers=None),
]


def strat_spec(rng, i):
    r = i % 8
    seed = rng.getrandbits(40)
    if r < 3:
        return dict(kind="random", seed=seed)
    if r == 3:
        return dict(kind="random", seed=seed, stick=rng.choice([0.5, 0.8, 0.95]))
    if r == 4:
        return dict(kind="pct", seed=seed, depth=rng.randint(1, 4), est=150)
    return dict(kind=list(ADVERSARIAL)[(i // 8 + r) % len(ADVERSARIAL)], seed=seed)


def pipeline_cases(rng, n_sched, graphs=None):
    cases = []
    ident = 100
    for gname in graphs or list(GRAPHS):
        for cfg in CONFIGS:
            if gname in ("par", "parmulti") and not cfg["workers"]:
                continue
            positions = [None] + fault_positions(gname)
            for pos in positions:
                reps = n_sched if cfg["proc"] == "threaded_mailbox" else 1
                for i in range(reps):
                    ident += 1
                    cases.append(dict(graph=gname, cap=rng.choice([1, 2, 2, 4]), fault=list(pos) if pos else None, ident=ident,
                                      strat=strat_spec(rng, rng.randrange(64)), **cfg))
    return cases


def lag_cases(rng, n_sched):
    cases = []
    for kind in ("lag", "chainlag"):
        for window, nch in ((4, 8), (12, 12), (14, 12)):
            for cap in (2, 4, 5, 6, 7, 8, 12):
                for lazy in (0, 1):
                    for i in range(n_sched):
                        cases.append(dict(graph=f"{kind}:{window}:{nch}", proc="threaded_mailbox", lazy=lazy, workers=None, cap=cap,
                                          fault=None, ident=0, strat=strat_spec(rng, rng.randrange(64))))
    return cases


def _worker_init():
    _pin()


def warm_up():
    """run one pipeline of every flavour in THIS process before forking: numba compiles strax's jitted helpers for the
    harness dtype on first use (tens of seconds on a loaded machine, under a process-wide compiler lock) — inside a scheduled
    run that would look like a task that never reaches a yield point"""
    S.HANG_TIMEOUT = max(S.HANG_TIMEOUT, 600.0)
    _pin()
    try:
        for gname, proc, workers in (("chain", "threaded_mailbox", None), ("multi", "threaded_mailbox", 2), ("parmulti", "threaded_mailbox", 2),
                                     ("loader", "single_thread", None), ("diamond", "threaded_mailbox", None),
                                     ("lag:4:8", "threaded_mailbox", None), ("tree", "single_thread", None)):
            run_pipeline(dict(graph=gname, proc=proc, lazy=0, workers=workers, cap=8, fault=None, ident=0,
                              strat=dict(kind="random", seed=3)))
    finally:
        _unpin()


def _run_line(case):
    line, _ = run_pipeline(case)
    return line


def _run_dyn(case):
    """fixed-priority run for the dynamics tie -> (end-state line, op line for `c06.run` built from the REAL components)"""
    c = dict(case)
    line, _ = run_pipeline(c)
    return line, c.get("_op")


def run_many(cases, jobs, fn=None):
    fn = fn or _run_line
    if jobs <= 1 or len(cases) < 8:
        _pin()
        try:
            return [fn(c) for c in cases]
        finally:
            _unpin()
    import multiprocessing as mp
    ctx = mp.get_context("fork")
    with ctx.Pool(jobs, initializer=_worker_init) as pool:
        return pool.map(fn, cases, chunksize=4)


DYN_SHAPES = ("chain", "tree", "multi", "diamond", "loader")


def dyn_cases(rng, n_prio, caps):
    """dynamics tie: every shape x eager/lazy x capacity x every fault position (plugin / loader / save / close at every
    chunk, consumer stopping after k chunks) x `n_prio` fixed-priority schedules (the consumer first / anywhere / last,
    the other threads in a random order)"""
    cases = []
    for g in DYN_SHAPES:
        for lazy in (0, 1):
            for fault in [None] + fault_positions(g):
                if fault and fault[0] == "consumer-raise":
                    continue        # strax cannot tell it from consumer-close (the body of the caller's loop is not its code)
                for cap in caps:
                    for i in range(n_prio):
                        cases.append(dict(graph=g, proc="threaded_mailbox", lazy=lazy, workers=None, cap=cap,
                                          fault=list(fault) if fault else None, ident=7, dyn=1,
                                          strat=dict(kind="prio", seed=rng.getrandbits(30), main=("first", None, "last")[i % 3])))
    return cases


def jobs_default():
    n = len(_ALL_CPUS) or (os.cpu_count() or 1)
    return max(1, min(int(os.environ.get("VERIF_JOBS", "6")), n))


RULE_WIRE = "non-trivial = at least two mailboxes; distinct = distinct components description"
RULE_PO = "non-trivial = at least one message pulled or one processor run; distinct = distinct op script"
RULE_DYN = ("one real ThreadedMailboxProcessor run through Context.get_iter under the cooperative scheduler with a fixed thread "
            "priority (no yield at thread start) vs `Net.step` of `wire` applied to the run's own components under the same "
            "priorities, compared at the end (or at the deadlock): every mailbox's closed / killed / force_killed / n_sent / "
            "have_read, every thread's ending (ok / own injected exception / still blocked), the caller's outcome; "
            "non-trivial = at least four mailboxes; distinct = distinct (shape, lazy, capacity, fault position, priorities)")
RULE_PIPE = ("one real Context.get_iter run under the cooperative scheduler per case; non-trivial = at least 10 scheduling "
             "decisions (threaded) or a fault that fired; distinct = distinct (graph, configuration, fault position, schedule seed)")


# ============================================================================================ translator (round 5)
# Mailbox.kill / Mailbox.kill_from_exception  →  lean/StraxModel/Generated/MailboxKill.lean

class Untranslatable(Exception):
    pass


_KILL_ATTRS = {"force_killed": "forceKilled", "killed": "killed", "killed_because": "killedBecause"}
_KILL_CONDS = {"_read_condition": "read", "_write_condition": "write", "_fetch_new_condition": "fetchNew"}
_GEN_HEADER = """-- GENERATED by checks/props/c06.py:regen from /repo/strax/mailbox.py (Mailbox.kill, Mailbox.kill_from_exception). Do not edit.
namespace Strax.Generated.MailboxKill

/-- the three condition variables of a mailbox -/
inductive Cond where
  | read
  | write
  | fetchNew
deriving Repr, DecidableEq

/-- the attributes `kill` touches, and the `notify_all()` calls it made (in order) -/
structure St (R : Type) where
  forceKilled : Bool
  killed : Bool
  killedBecause : Option R
  notified : List Cond := []
deriving Repr, DecidableEq

/-- a caught exception: `MailboxKilled(arg0)`, or any other one (`triple` = `(e.__class__, e, traceback)`) -/
inductive Caught (R : Type) where
  | mailboxKilled (arg0 : R)
  | other (triple : R)
deriving Repr, DecidableEq

"""


def _is_self_attr(node, name=None):
    import ast
    return (isinstance(node, ast.Attribute) and isinstance(node.value, ast.Name) and node.value.id == "self"
            and (name is None or node.attr == name))


def _is_log_call(st):
    import ast
    return (isinstance(st, ast.Expr) and isinstance(st.value, ast.Call) and isinstance(st.value.func, ast.Attribute)
            and _is_self_attr(st.value.func.value, "log"))


def _is_docstring(st):
    import ast
    return isinstance(st, ast.Expr) and isinstance(st.value, ast.Constant) and isinstance(st.value.value, str)


def _tr_kill_test(t, params):
    import ast
    if isinstance(t, ast.UnaryOp) and isinstance(t.op, ast.Not):
        return f"(!{_tr_kill_test(t.operand, params)})"
    if isinstance(t, ast.Name) and t.id in params:
        return t.id
    if _is_self_attr(t) and t.attr in ("force_killed", "killed"):
        return f"self.{_KILL_ATTRS[t.attr]}"
    if isinstance(t, ast.BoolOp):
        op = " && " if isinstance(t.op, ast.And) else " || "
        return "(" + op.join(_tr_kill_test(v, params) for v in t.values) + ")"
    raise Untranslatable(f"kill: test {ast.dump(t)[:80]}")


def _tr_kill_value(attr, v, params):
    import ast
    if attr in ("force_killed", "killed"):
        if isinstance(v, ast.Constant) and isinstance(v.value, bool):
            return "true" if v.value else "false"
        return _tr_kill_test(v, params)
    if isinstance(v, ast.Name) and v.id == "reason":
        return "reason"
    if isinstance(v, ast.Constant) and v.value is None:
        return "none"
    raise Untranslatable(f"kill: value of {attr}: {ast.dump(v)[:80]}")


def _tr_kill_block(stmts, params):
    """statements of `kill` → a Lean expression of type `St R` over the variable `self`; returns (expr, returns?)"""
    import ast
    stmts = [s for s in stmts if not _is_log_call(s) and not _is_docstring(s) and not isinstance(s, ast.Pass)]
    if not stmts:
        return "self", False
    st, rest = stmts[0], stmts[1:]
    if isinstance(st, ast.Return):
        if st.value is not None and not (isinstance(st.value, ast.Constant) and st.value.value is None):
            raise Untranslatable("kill: returns a value")
        return "self", True
    if isinstance(st, ast.Assign) and len(st.targets) == 1 and _is_self_attr(st.targets[0]) and st.targets[0].attr in _KILL_ATTRS:
        a = st.targets[0].attr
        k, r = _tr_kill_block(rest, params)
        return f"(let self : St R := {{ self with {_KILL_ATTRS[a]} := {_tr_kill_value(a, st.value, params)} }}; {k})", r
    if (isinstance(st, ast.Expr) and isinstance(st.value, ast.Call) and isinstance(st.value.func, ast.Attribute)
            and st.value.func.attr == "notify_all" and not st.value.args and not st.value.keywords
            and _is_self_attr(st.value.func.value) and st.value.func.value.attr in _KILL_CONDS):
        k, r = _tr_kill_block(rest, params)
        return (f"(let self : St R := {{ self with notified := self.notified ++ [Cond.{_KILL_CONDS[st.value.func.value.attr]}] }}; {k})", r)
    if isinstance(st, ast.If):
        test = _tr_kill_test(st.test, params)
        b, br = _tr_kill_block(st.body, params)
        e, er = _tr_kill_block(st.orelse, params)
        if br and er:
            return f"(if {test} then {b} else {e})", True
        k, r = _tr_kill_block(rest, params)
        if br:      # the `then` branch returns: the rest continues the `else` branch
            cont = k if e == "self" else f"(let self : St R := {e}; {k})"
            return f"(if {test} then {b} else {cont})", r
        if er:
            cont = k if b == "self" else f"(let self : St R := {b}; {k})"
            return f"(if {test} then {cont} else {e})", r
        return f"(let self : St R := (if {test} then {b} else {e}); {k})", r
    raise Untranslatable(f"kill: statement {ast.dump(st)[:80]}")


def _kill_defaults(fn):
    import ast
    args = [a.arg for a in fn.args.args]
    if args != ["self", "upstream", "reason"] or fn.args.vararg or fn.args.kwarg or fn.args.kwonlyargs or len(fn.args.defaults) != 2:
        raise Untranslatable("kill: signature")
    up, rs = fn.args.defaults
    if not (isinstance(up, ast.Constant) and isinstance(up.value, bool)) or not (isinstance(rs, ast.Constant) and rs.value is None):
        raise Untranslatable("kill: defaults")
    return "true" if up.value else "false"


def _tr_kfe_reason(v, branch):
    """the `reason=` argument inside kill_from_exception: `e.args[0]` under isinstance(e, MailboxKilled), else the triple"""
    import ast
    if (branch == "mk" and isinstance(v, ast.Subscript) and isinstance(v.value, ast.Attribute) and v.value.attr == "args"
            and isinstance(v.value.value, ast.Name) and v.value.value.id == "e"
            and isinstance(v.slice, ast.Constant) and v.slice.value == 0):
        return "(some arg0)"
    if (branch == "other" and isinstance(v, ast.Tuple) and len(v.elts) == 3
            and isinstance(v.elts[0], ast.Attribute) and v.elts[0].attr == "__class__"
            and isinstance(v.elts[0].value, ast.Name) and v.elts[0].value.id == "e"
            and isinstance(v.elts[1], ast.Name) and v.elts[1].id == "e"):
        return "(some triple)"
    if isinstance(v, ast.Constant) and v.value is None:
        return "none"
    raise Untranslatable(f"kill_from_exception: reason {ast.dump(v)[:80]} in branch {branch}")


def _tr_kfe_block(stmts, branch, up_default):
    """statements of `kill_from_exception` → Lean expression of type `St R × Bool` (state, re-raised?)"""
    import ast
    stmts = [s for s in stmts if not _is_log_call(s) and not _is_docstring(s) and not isinstance(s, ast.Pass)]
    if not stmts:
        return "(self, false)"
    st, rest = stmts[0], stmts[1:]
    if isinstance(st, ast.Raise):
        if not (isinstance(st.exc, ast.Name) and st.exc.id == "e") or st.cause is not None:
            raise Untranslatable("kill_from_exception: raises something else than e")
        return "(self, true)"
    if isinstance(st, ast.Return) and (st.value is None or (isinstance(st.value, ast.Constant) and st.value.value is None)):
        return "(self, false)"
    if isinstance(st, ast.Expr) and isinstance(st.value, ast.Call) and _is_self_attr(st.value.func, "kill") and not st.value.args:
        kw = {k.arg: k.value for k in st.value.keywords}
        if set(kw) - {"upstream", "reason"}:
            raise Untranslatable("kill_from_exception: kill keywords")
        up = up_default
        if "upstream" in kw:
            if not (isinstance(kw["upstream"], ast.Constant) and isinstance(kw["upstream"].value, bool)):
                raise Untranslatable("kill_from_exception: upstream argument")
            up = "true" if kw["upstream"].value else "false"
        rs = _tr_kfe_reason(kw["reason"], branch) if "reason" in kw else "none"
        return f"(let self : St R := kill self {up} {rs}; {_tr_kfe_block(rest, branch, up_default)})"
    if isinstance(st, ast.If):
        t = st.test
        if (branch is None and isinstance(t, ast.Call) and isinstance(t.func, ast.Name) and t.func.id == "isinstance"
                and len(t.args) == 2 and isinstance(t.args[0], ast.Name) and t.args[0].id == "e"
                and isinstance(t.args[1], ast.Name) and t.args[1].id == "MailboxKilled"):
            if rest:
                raise Untranslatable("kill_from_exception: statements after the isinstance split")
            return (f"(match e with | Caught.mailboxKilled arg0 => {_tr_kfe_block(st.body, 'mk', up_default)} "
                    f"| Caught.other triple => {_tr_kfe_block(st.orelse, 'other', up_default)})")
        if isinstance(t, ast.Name) and t.id == "reraise" and not rest:
            return f"(if reraise then {_tr_kfe_block(st.body, branch, up_default)} else {_tr_kfe_block(st.orelse, branch, up_default)})"
        if (isinstance(t, ast.UnaryOp) and isinstance(t.op, ast.Not) and isinstance(t.operand, ast.Name)
                and t.operand.id == "reraise" and not rest):
            return f"(if reraise then {_tr_kfe_block(st.orelse, branch, up_default)} else {_tr_kfe_block(st.body, branch, up_default)})"
    raise Untranslatable(f"kill_from_exception: statement {ast.dump(st)[:80]}")


def translate_mailbox_kill(source):
    import ast
    tree = ast.parse(source)
    cls = next(n for n in tree.body if isinstance(n, ast.ClassDef) and n.name == "Mailbox")
    fns = {n.name: n for n in cls.body if isinstance(n, ast.FunctionDef)}
    kill, kfe = fns["kill"], fns["kill_from_exception"]
    up_default = _kill_defaults(kill)
    body = [s for s in kill.body if not _is_docstring(s) and not _is_log_call(s)]
    if (len(body) != 1 or not isinstance(body[0], ast.With) or len(body[0].items) != 1
            or not _is_self_attr(body[0].items[0].context_expr, "_lock")):
        raise Untranslatable("kill: body is not one `with self._lock:` block")
    kill_expr, _ = _tr_kill_block(body[0].body, {"upstream"})
    a = [x.arg for x in kfe.args.args]
    if a != ["self", "e", "reraise"] or len(kfe.args.defaults) != 1 or not (
            isinstance(kfe.args.defaults[0], ast.Constant) and isinstance(kfe.args.defaults[0].value, bool)):
        raise Untranslatable("kill_from_exception: signature")
    rr_default = "true" if kfe.args.defaults[0].value else "false"
    kfe_expr = _tr_kfe_block(kfe.body, None, up_default)
    return (_GEN_HEADER
            + "/-- `Mailbox.kill(upstream, reason)` -/\n"
            + f"def kill {{R : Type}} (self : St R) (upstream : Bool) (reason : Option R) : St R :=\n  {kill_expr}\n\n"
            + "/-- default values of the keyword arguments `upstream` (kill) and `reraise` (kill_from_exception) -/\n"
            + f"def upstreamDefault : Bool := {up_default}\n"
            + f"def reraiseDefault : Bool := {rr_default}\n\n"
            + "/-- `Mailbox.kill_from_exception(e, reraise)`: the state afterwards and whether `e` is re-raised -/\n"
            + f"def killFromException {{R : Type}} (self : St R) (e : Caught R) (reraise : Bool) : St R × Bool :=\n  {kfe_expr}\n\n"
            + "end Strax.Generated.MailboxKill\n")


def regen(ctx):
    """Regenerate Generated/MailboxKill.lean from the current source of strax.mailbox.Mailbox.kill / kill_from_exception."""
    from lib.engine import LEAN, REPO
    out = LEAN / "StraxModel" / "Generated" / "MailboxKill.lean"
    try:
        text = translate_mailbox_kill((REPO / "strax" / "mailbox.py").read_text())
    except (Untranslatable, StopIteration, SyntaxError, KeyError) as e:
        ctx.translator["Mailbox.kill"] = f"untranslatable: {e}"
        ctx.violation("translator:Mailbox.kill", "translator", None, {"reason": str(e)},
                      "translator regenerates Generated.MailboxKill from the source of Mailbox.kill / kill_from_exception", False)
        return
    ctx.translator["Mailbox.kill"] = "translated"
    if not out.exists() or out.read_text() != text:
        out.write_text(text)


# ---------------------------------------------------------------------------------- kill bookkeeping on the real Mailbox

class _Rec:
    """stands in for a threading.Condition of a Mailbox that is never started: records notify_all()"""

    def __init__(self, name, log):
        self.name, self.log = name, log

    def notify_all(self):
        self.log.append(self.name)

    notify = notify_all


def killbk_cases():
    cases = []
    for killed, force, has in itertools.product([0, 1], repeat=3):
        if force and not killed:
            continue           # force_killed without killed is not a reachable mailbox state
        for up, rs in itertools.product([0, 1, None], [0, 1]):
            cases.append({"killed": killed, "force": force, "has": has, "call": "kill", "up": up, "reason": rs})
        for kind, rr in itertools.product(["m", "o"], [0, 1, None]):
            cases.append({"killed": killed, "force": force, "has": has, "call": "kfe", "exc": kind, "reraise": rr})
    return cases


def killbk_impl(c):
    mb = mbm.Mailbox(name="kb")
    mb.log.setLevel(logging.CRITICAL)
    log = []
    mb._read_condition, mb._write_condition, mb._fetch_new_condition = _Rec("r", log), _Rec("w", log), _Rec("f", log)
    mb.killed, mb.force_killed = bool(c["killed"]), bool(c["force"])
    old = ("old",)
    mb.killed_because = old if c["has"] else None
    raised = "-"
    if c["call"] == "kill":
        kw = {}
        if c["up"] is not None:
            kw["upstream"] = bool(c["up"])
        new = ("new",)
        if c["reason"]:
            kw["reason"] = new
        mb.kill(**kw)
        names = {id(new): "new"}
    else:
        arg0 = ("arg0",)
        e = mbm.MailboxKilled(arg0) if c["exc"] == "m" else Injected("kb")
        kw = {} if c["reraise"] is None else {"reraise": bool(c["reraise"])}
        try:
            try:
                raise e
            except Exception as caught:  # noqa: BLE001   (kill_from_exception reads sys.exc_info())
                mb.kill_from_exception(caught, **kw)
        except BaseException as x:  # noqa: BLE001
            raised = "e" if x is e else type(x).__name__
        names = {id(arg0): "arg0"}
    kb = mb.killed_because
    if kb is None:
        rs = "none"
    elif kb is old:
        rs = "old"
    elif id(kb) in names:
        rs = names[id(kb)]
    elif c["call"] == "kfe" and isinstance(kb, tuple) and len(kb) == 3 and kb[1] is e and kb[0] is type(e):
        rs = "triple"
    else:
        rs = "other"
    return f"ok killed={int(mb.killed)} force={int(mb.force_killed)} reason={rs} notified={'.'.join(log) or '-'} raised={raised}"


def killbk_op(c):
    def b(x):
        return "-" if x is None else str(int(x))
    if c["call"] == "kill":
        call = f"k:{b(c['up'])}:{c['reason']}"
    else:
        call = f"x:{c['exc']}:{b(c['reraise'])}"
    return f"c06.kill {c['killed']} {c['force']} {c['has']} {call}"


def killbk_oracle(c, out):
    """the kill protocol in the property's words: killed afterwards; an upstream kill (every kill_from_exception is one) force-kills;
    the FIRST kill wakes the waiters of all three conditions and records its reason, a later one changes neither; only a foreign
    exception is re-raised (MailboxKilled is not: one traceback), and it is `e` itself"""
    if not out.startswith("ok "):
        return f"kill bookkeeping crashed: {out}"
    f = dict(x.split("=") for x in out[3:].split(" "))
    up = True if c["call"] == "kfe" else (True if c["up"] is None else bool(c["up"]))
    if f["killed"] != "1":
        return "the mailbox is not killed after kill()"
    if up and f["force"] != "1":
        return "an upstream kill did not force-kill the mailbox"
    if not c["killed"]:
        if sorted(f["notified"].split(".")) != ["f", "r", "w"]:
            return f"first kill notified only {f['notified']}: a waiter of another condition sleeps until its timeout"
        want = ("new" if c["reason"] else "none") if c["call"] == "kill" else ("arg0" if c["exc"] == "m" else "triple")
        if f["reason"] != want:
            return f"first kill recorded reason {f['reason']}, expected {want}: the caller would not get the original exception"
    else:
        if f["reason"] != ("old" if c["has"] else "none"):
            return f"a second kill replaced the reason of the first ({f['reason']})"
    if c["call"] == "kfe":
        rr = True if c["reraise"] is None else bool(c["reraise"])
        want = "e" if (c["exc"] == "o" and rr) else "-"
        if f["raised"] != want:
            return f"kill_from_exception raised {f['raised']}, expected {want}"
    return None


def run(ctx):
    rng = ctx.rng
    t0 = time.time()
    # (0) kill protocol of one mailbox (C05's tie, kill-heavy)
    from props import c05
    with (c05.pinned() if hasattr(c05, "pinned") else contextlib.nullcontext()):
        kcases = kill_cases(rng, ctx.pick(300, 12000))
    kouts = {id(c): c.pop("_out") for c in kcases}
    ctx.correspond("mailbox/kill", kcases, lambda c: kouts[id(c)], c05.op_line, kill_oracle, nontrivial=c05.nontrivial,
                   rule="the real strax.Mailbox under sched.py vs `c05.run`, configurations with killer threads and failing sources; "
                        "non-trivial = at least one message and two distinct threads in the schedule",
                   branch=lambda c, o: f"{'lazy' if c['lazy'] else 'eager'}/kills={c['kills'] or '-'}/"
                                       f"{o.split(' end=')[1].split(' ')[0] if ' end=' in o else '?'}")
    # (i) wiring
    wcases = [wire_case(rng) for _ in range(ctx.pick(400, 8000))]
    ctx.correspond("wire/random-components", wcases, lambda c: _guard(wire_impl, c), wire_op, wire_oracle,
                   nontrivial=lambda c, o: o.count(";") >= 2, rule=RULE_WIRE,
                   branch=lambda c, o: f"lazy={c['allow_lazy']}/workers={c['max_workers']}/multi={int(any(len(d['provides']) > 1 for d in c['defs']))}"
                                       f"/loaders={int(bool(c['loaders']))}/discard={int('discard_' in o)}")
    # (ii) PostOffice
    pcases = po_fixed_cases()
    for kind, n in (("clean", ctx.pick(500, 8000)), ("fault", ctx.pick(900, 14000)), ("malformed", ctx.pick(150, 2500))):
        pcases += [po_case(rng, kind) for _ in range(n)]
    po_outs = {id(c): po_impl(c) for c in pcases}
    _by_shape(ctx, "postoffice/scripts", pcases, lambda c: po_outs[id(c)], po_oracle, to_op=lambda c: "c06.po " + ";".join(c["ops"]),
              nontrivial=lambda c, o: any(x.startswith(("m", "fin", "raised", "closed")) for x in o[3:].split(" | ")[0].split(",")),
              rule=RULE_PO,
              branch=lambda c, o: f"{c['kind']}/raised={int('raised(' in o)}/masked={int('<Injected' in o)}/err={int('err(' in o)}")
    ctx.check_oracle("divider/corpus", divider_cases(), divider_probe, divider_oracle, exhaustive=True,
                     rule="thread-free witnesses of D28/D29: divide_outputs over a prepared source with one output force-killed",
                     branch=lambda c, o: f"closed={int(c['closed'])}/killed={c['killed']}/n={len(c['dicts'])}/{o.split(' ')[1].split(':')[0]}")
    ctx.correspond("mailbox/kill-bookkeeping", killbk_cases(), lambda c: _guard(killbk_impl, c), killbk_op, killbk_oracle, exhaustive=True,
                   nontrivial=lambda c, o: True,
                   rule="real Mailbox.kill / kill_from_exception on a mailbox in every (killed, force_killed, reason) state, every "
                        "argument combination incl. the keyword defaults, conditions replaced by recorders — vs `c06.kill` (MB.kill for "
                        "flags and wake-ups, AMB.kill for the reason, Net.killFromException); exhaustive",
                   branch=lambda c, o: f"{c['call']}/killed={c['killed']}/{c.get('exc', 'up=' + str(c.get('up')))}")
    ctx.note(f"wiring + PostOffice correspondence took {time.time() - t0:.0f}s")
    # (iii) pipelines under the scheduler
    t1 = time.time()
    warm_up()
    ctx.note(f"numba warm-up of the pipeline flavours took {time.time() - t1:.0f}s")
    jobs = jobs_default()
    # (iii-a) dynamics of the net model: real fixed-priority runs vs `Net.step` under the same priorities
    t2 = time.time()
    dcases = dyn_cases(rng, ctx.pick(3, 9), ctx.pick([1, 2], [1, 2, 4]))
    douts = run_many(dcases, jobs, _run_dyn)
    dtab = {id(c): o for c, o in zip(dcases, douts)}
    flags = []

    def strip_tree(r):
        flags.append(" tree=1 " in r)
        return r.split(" tree=")[0]
    ctx.correspond("net/dynamics", dcases, lambda c: dtab[id(c)][0], lambda c: dtab[id(c)][1], None, model_post=strip_tree,
                   nontrivial=lambda c, o: o.count(";") >= 3, rule=RULE_DYN,
                   branch=lambda c, o: f"{c['graph']}/{'lazy' if c['lazy'] else 'eager'}/{c['fault'][0] if c['fault'] else 'none'}/"
                                       f"{o.split(' out=')[1].split('[')[0] if ' out=' in o else '?'}",
                   in_hyp=(lambda c, o, pos={id(c): i for i, c in enumerate(dcases)}: pos[id(c)] < len(flags) and flags[pos[id(c)]]))
    per = collections.Counter((c["graph"], f) for c, f in zip(dcases, flags))
    ctx.note("net/dynamics: " + str(len(dcases)) + f" fixed-priority runs in {time.time() - t2:.0f}s; `TreeNet (certOf (wire …))` evaluated "
             "by the driver on the wiring of every run — inside the hypothesis of the `_partial` net theorems: "
             + ", ".join(f"{g} {per[(g, True)]}/{per[(g, True)] + per[(g, False)]}" for g in DYN_SHAPES)
             + " (multi-output plugins and diamonds are OUTSIDE: for them only the oracle and this tie speak)")
    # (iii-b) the property's wording on the real processors
    cases = pipeline_cases(rng, ctx.pick(5, 30)) + lag_cases(rng, ctx.pick(2, 8))
    outs = run_many(cases, jobs)
    table = {id(c): o for c, o in zip(cases, outs)}
    _by_shape(ctx, "pipeline/fault-injection", cases, lambda c: table[id(c)], pipe_oracle, rule=RULE_PIPE,
              nontrivial=lambda c, o: int(fields(o).get("steps", 0)) >= 10 or int(fields(o).get("fired", 0)) > 0,
              branch=pipe_branch, in_hyp=lambda c, o: not c.get("fault"))
    ctx.note(f"pipeline runs: {len(cases)} in {time.time() - t1:.0f}s on {jobs} processes")


def _by_shape(ctx, name, cases, impl, oracle, to_op=None, **kw):
    """the engine keeps at most 5 violations per component: route the cases that show the shape of a listed finding
    (`Dnn-shape: …`) into a component of their own, so that they can never crowd out a different violation"""
    groups = {}
    for c in cases:
        msg = oracle(c, impl(c)) or ""
        shape = msg.split(":")[0] if msg[:1] == "D" and "-shape" in msg.split(":")[0] else ""
        groups.setdefault(shape, []).append(c)
    for shape in sorted(groups):
        comp = name if not shape else f"{name}/{shape}"
        ctx.correspond(comp, groups[shape], impl, to_op, oracle, **kw)


def _guard(fn, c):
    try:
        return fn(c)
    except Exception as e:  # noqa: BLE001
        return f"err {type(e).__name__}"


def search(ctx):
    """an obligation broke: more schedules per fault position on the real code"""
    rng = ctx.rng
    warm_up()
    cases = pipeline_cases(rng, 6)
    outs = run_many(cases, jobs_default())
    table = {id(c): o for c, o in zip(cases, outs)}
    # same component names as in `run`: the listed findings pin the component
    _by_shape(ctx, "pipeline/fault-injection", cases, lambda c: table[id(c)], pipe_oracle, rule=RULE_PIPE, branch=pipe_branch)


def replay(ctx, body):
    if body.get("case") is None:
        return f"obligation {body['component']} has no input to replay (no-failing-input-found); re-run the check"
    case = body["case"]["case"]
    comp = body["component"]
    if comp.startswith("wire"):
        out = _guard(wire_impl, case)
        print("implementation output:", out)
        return wire_oracle(case, out)
    if comp.startswith("mailbox/kill-bookkeeping"):
        out = _guard(killbk_impl, case)
        print("implementation output:", out)
        return killbk_oracle(case, out)
    if comp.startswith("postoffice"):
        out = po_impl(case)
        print("implementation output:", out)
        return po_oracle(case, out)
    S.HANG_TIMEOUT = max(S.HANG_TIMEOUT, 600.0)
    _pin()
    try:
        out, _ = run_pipeline(case)
    finally:
        _unpin()
    print("implementation output:", out)
    if comp.startswith("net/"):
        from lib import engine
        mo = engine.Driver().run([case["_op"]])[0]
        print("model output:         ", mo)
        return None if mo.split(" tree=")[0] == out else "the real run and the net model end in different states"
    return pipe_oracle(case, out)
