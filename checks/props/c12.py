"""C12 — outputs that violate a plugin's declared contract are rejected, not stored.

Model: lean/StraxModel/Model/Contract.lean (T11); theorems: Props/C12.lean; lemmas: Lemmas/Contract.lean.
Tie (unit level): Chunk construction, Plugin.chunk, _check_dtype, _fix_output (base and DownChunkingPlugin),
continuity_check, fix_dtype on generated inputs against the compiled driver (ops `c12.*`); range checks
exhaustively over small row lists on a grid; the same again with every time shifted to epoch scale (`epoch/*`).
Tie (saver protocol): `saver_protocol` runs scripted output streams through the real get_iter + SingleThreadProcessor
with a recording strax.Saver and compares with `Contract.process`; `pipeline/eager-slow-consumer` compares the eager
threaded pipeline with a consumer that lets the pipeline drain with `Contract.processEager` (open finding F3 / D21).
Tie (pipeline level): tiny REAL plugin classes of every kind (source, ordinary, multi-output, down-chunking,
loop, cut, overlap-window) whose compute misbehaves at a chosen chunk index, run through a real Context with a
temporary DataDirectory by single_thread and threaded_mailbox (lazy; eager with allow_lazy=False and with
max_workers=2).  Oracle = the property's wording: an exception reaches the caller, nothing of the offending data
type (or derived from it) is stored afterwards, a later correct run works; if no exception is raised everything
delivered and stored conforms to the declaration.  The verdict (error kind) is additionally compared with the
model's verdict for the very object the plugin handed back.
"""
from __future__ import annotations

import contextlib
import io
import itertools
import logging
import re
import shutil
import tempfile
import warnings

from lib.straxlib import strax  # noqa: F401  (must be the first strax import: private numba cache)
import numpy as np
from immutabledict import immutabledict

from lib import gen
from lib import straxlib as sl

ID = "C12"
LEAN_MODULES = ["StraxModel.Props.C12"]
TRUSTED = [
    "numpy structured-dtype equality is modelled as equality of (field name, type code) lists after title stripping "
    "(type code = dtype.str, plus the shape for sub-array fields); byte-order aliases and nested structs are outside the model",
    "pipeline scenarios are executed on the real Context/processors; the saver protocol is modelled as Contract.process "
    "(single-thread, tied by saver_protocol) and Contract.processEager (saver ahead of the consumer, tied by the F3/D21 probe); "
    "that a saver closed with an exception stays invisible across crashes is C04's statement",
]
ASSUMPTIONS = [
    "chunks of at most 500 time-sorted rows for the row-range theorem (the constructor inspects only the last 500 rows; "
    "the 501-row counterexample is proved and replayed)",
    "dict results are modelled one level deep (a dict of arrays/chunks/column-dicts); columns are integer arrays",
    "plugins are considered after fix_dtype (multi-output <=> dtype and data_kind are dicts)",
]

logging.disable(logging.CRITICAL)


# ============================================================================================ step 0: translator
# The range checks of Chunk.__init__ (strax/chunk.py) are scalar decision logic: `start < 0`, `start > end`, and — only if
# the data has rows — `data[0]['time'] < start`, `endtime(data[-N:]).max() > end`.  Their Lean definition
# (Generated/ChunkInitRange.lean) is regenerated from the AST of the CURRENT source on every run, and Props/C12.lean proves
# that the model's constructor (`mkChunk`) accepts exactly when the generated checks pass (`generated_chunk_init_range`) and
# that the model inspects the same window of last rows (`generated_chunk_init_window`).  A changed comparison, a dropped
# check or a different window breaks a proof obligation.

class Untranslatable(Exception):
    pass


_RANGE_NAMES = {"data_starts_at": "dataStart", "data_ends_at": "dataEnd"}


def _cr_expr(e):
    import ast
    if isinstance(e, ast.Constant) and isinstance(e.value, int) and not isinstance(e.value, bool):
        return str(e.value) if e.value >= 0 else f"({e.value})"
    if isinstance(e, ast.Attribute) and isinstance(e.value, ast.Name) and e.value.id == "self" and e.attr in ("start", "end"):
        return "start" if e.attr == "start" else "stop"
    if isinstance(e, ast.Name) and e.id in _RANGE_NAMES:
        return _RANGE_NAMES[e.id]
    if isinstance(e, ast.BinOp) and isinstance(e.op, (ast.Add, ast.Sub)):
        return f"({_cr_expr(e.left)} {'+' if isinstance(e.op, ast.Add) else '-'} {_cr_expr(e.right)})"
    raise Untranslatable(ast.dump(e)[:80])


def _cr_cond(e):
    import ast
    if isinstance(e, ast.BoolOp):
        op = " ∨ " if isinstance(e.op, ast.Or) else " ∧ "
        return "(" + op.join(_cr_cond(v) for v in e.values) + ")"
    if isinstance(e, ast.Compare) and len(e.ops) == 1:
        sym = {ast.Lt: "<", ast.LtE: "≤", ast.Gt: ">", ast.GtE: "≥"}.get(type(e.ops[0]))
        if sym:
            return f"({_cr_expr(e.left)} {sym} {_cr_expr(e.comparators[0])})"
    raise Untranslatable(ast.dump(e)[:80])


def _is_range_test(e):
    """does the test talk about start / end / the data's first time / last end times only?"""
    try:
        _cr_cond(e)
        return True
    except Untranslatable:
        return False


def _raises_value_error(body):
    import ast
    if len(body) != 1 or not isinstance(body[0], ast.Raise) or body[0].exc is None:
        return False
    exc = body[0].exc.func if isinstance(body[0].exc, ast.Call) else body[0].exc
    return isinstance(exc, ast.Name) and exc.id == "ValueError"


def _mentions(node, names):
    import ast
    for n in ast.walk(node):
        if isinstance(n, ast.Name) and n.id in names:
            return True
        if isinstance(n, ast.Attribute) and isinstance(n.value, ast.Name) and n.value.id == "self" and n.attr in names:
            return True
    return False


def _translate_chunk_init(src):
    """-> (window N, Lean term of type Except Strax.Err Unit over start stop nonempty dataStart dataEnd)"""
    import ast
    tree = ast.parse(src)
    cls = next(n for n in tree.body if isinstance(n, ast.ClassDef) and n.name == "Chunk")
    fn = next(n for n in cls.body if isinstance(n, ast.FunctionDef) and n.name == "__init__")
    window = [None]

    def block(stmts, inside_data):
        """checks of a statement list, in order, as a list of Lean conditions / nested blocks"""
        out = []
        for st in stmts:
            if isinstance(st, ast.If) and not st.orelse and _raises_value_error(st.body) and _is_range_test(st.test):
                if not inside_data and _mentions(st.test, set(_RANGE_NAMES)):
                    raise Untranslatable("data time used outside the `if len(self.data)` block")
                out.append(("check", _cr_cond(st.test)))
            elif (isinstance(st, ast.If) and not st.orelse and isinstance(st.test, ast.Call) and isinstance(st.test.func, ast.Name)
                  and st.test.func.id == "len" and len(st.test.args) == 1 and ast.unparse(st.test.args[0]) == "self.data"):
                if inside_data:
                    raise Untranslatable("nested data block")
                out.append(("data", block(st.body, True)))
            elif isinstance(st, ast.Assign) and len(st.targets) == 1 and isinstance(st.targets[0], ast.Name) and st.targets[0].id in _RANGE_NAMES:
                text = ast.unparse(st.value)
                if st.targets[0].id == "data_starts_at":
                    if text != "self.data[0]['time']":
                        raise Untranslatable("data_starts_at = " + text)
                else:
                    m = re.fullmatch(r"strax\.endtime\(self\.data\[-(\d+):\]\)\.max\(\)", text)
                    if not m:
                        raise Untranslatable("data_ends_at = " + text)
                    window[0] = int(m.group(1))
            elif _mentions(st, {"data_starts_at", "data_ends_at"}) or (
                    isinstance(st, (ast.If, ast.While, ast.For, ast.Try)) and _mentions(st, {"start", "end"}) and _has_range_compare(st)):
                # anything else that looks at the range values is outside the translated subset
                raise Untranslatable("unrecognised use of the range values: " + ast.unparse(st)[:60])
        return out

    checks = block(fn.body, False)
    if window[0] is None:
        raise Untranslatable("no `data_ends_at = strax.endtime(self.data[-N:]).max()`")

    def emit(items, indent):
        pad = "  " * indent
        if not items:
            return pad + "pure ()"
        (kind, x), rest = items[0], items[1:]
        if kind == "check":
            return f"{pad}if {x} then throw Strax.Err.valueError else\n{emit(rest, indent)}"
        inner = emit(x, indent + 1)
        if rest:
            raise Untranslatable("range statements after the data block")
        return f"{pad}if nonempty then (\n{inner})\n{pad}else pure ()"

    return window[0], emit(checks, 1)


def _has_range_compare(st):
    import ast
    for n in ast.walk(st):
        if isinstance(n, ast.Compare) and _is_range_test(n):
            return True
    return False


def regen(ctx):
    """Regenerate Generated/ChunkInitRange.lean from the current source of strax.chunk.Chunk.__init__."""
    from lib.engine import LEAN, REPO
    out = LEAN / "StraxModel" / "Generated" / "ChunkInitRange.lean"
    try:
        window, body = _translate_chunk_init((REPO / "strax" / "chunk.py").read_text())
    except (Untranslatable, StopIteration, SyntaxError) as e:
        ctx.translator["Chunk.__init__ range checks"] = f"untranslatable: {e}"
        ctx.violation("translator:chunk_init_range", "translator", None, {"reason": str(e)},
                      "translator regenerates Generated.chunkInitRange from the source of Chunk.__init__", False)
        return
    ctx.translator["Chunk.__init__ range checks"] = "translated"
    text = ("-- GENERATED by checks/props/c12.py:regen from /repo/strax/chunk.py (Chunk.__init__: range checks). Do not edit.\n"
            "import StraxModel.Model.Basic\n"
            "namespace Strax.Generated\n"
            "/-- N of `strax.endtime(self.data[-N:]).max()` -/\n"
            f"def chunkInitWindow : Nat := {window}\n"
            "/-- `nonempty` = `len(self.data) != 0`, `dataStart` = `self.data[0]['time']`, `dataEnd` = `strax.endtime(self.data[-N:]).max()` -/\n"
            "def chunkInitRange (start stop : Int) (nonempty : Bool) (dataStart dataEnd : Int) : Except Strax.Err Unit :=\n"
            f"{body}\n"
            "end Strax.Generated\n")
    if not out.exists() or out.read_text() != text:
        out.write_text(text)

# epoch-scale times: ns since 1970 of late 2023, int64-safe, far above 2**53 and odd — float64 cannot hold it exactly
# (the spacing of doubles there is 256 ns), so integer arithmetic replaced by floats shows up as off-by-one decisions
T0 = 1_700_000_000_000_000_137


def shift_chunk_case(case, t0=T0):
    c = dict(case)
    c["rows"] = [(t + t0, e + t0, i) for t, e, i in case["rows"]]
    c["start"], c["end"] = case["start"] + t0, case["end"] + t0
    return c

# ----------------------------------------------------------------------------- dtypes and encodings
I8, I4, I2 = np.int64, np.int32, np.int16
DT = np.dtype([(("Start time", "time"), I8), (("End time", "endtime"), I8), (("Identity", "id"), I8)])
DT_NOTITLE = np.dtype([("time", I8), ("endtime", I8), ("id", I8)])
DT_OTHERTITLE = np.dtype([(("t0", "time"), I8), ("endtime", I8), (("who", "id"), I8)])
DT_LEN = np.dtype([(("Start time", "time"), I8), (("Length", "length"), I4), (("Width", "dt"), I2), (("Identity", "id"), I8)])
DT_ARR = np.dtype([(("Start time", "time"), I8), (("End time", "endtime"), I8), (("Identity", "id"), I8), (("Payload", "wave"), I2, (3,))])
DT_Q = np.dtype([(("Start time", "time"), I8), (("End time", "endtime"), I8), (("Other", "qq"), I4)])
DECLARED = {"end": DT, "len": DT_LEN, "arr": DT_ARR}


def wrong_variants(dt):
    """dtypes that differ from dt in one contract-relevant way: name -> dtype"""
    d = strax.unpack_dtype(dt)
    out = {}
    out["extra"] = np.dtype(d + [(("Extra", "xx"), I2)])
    last_name = d[-1][0][-1] if isinstance(d[-1][0], tuple) else d[-1][0]
    out["dropped"] = np.dtype(d[:-1]) if len(d) > 3 else np.dtype(d[:2] + [(("Else", "zz"), I8)])
    # same names, one type changed (the `id` field, or the last one)
    idx = [i for i, f in enumerate(d) if (f[0][-1] if isinstance(f[0], tuple) else f[0]) == "id"]
    i = idx[0] if idx else len(d) - 1
    typ = list(d)
    typ[i] = (d[i][0], I4 if np.dtype(d[i][1]) != np.dtype(I4) else I8)
    out["type"] = np.dtype(typ)
    nm = list(d)
    nm[i] = ((("Identity", "idd")), d[i][1]) + tuple(d[i][2:])
    out["name"] = np.dtype(nm)
    if len(d) >= 3:
        out["order"] = np.dtype([d[0], d[2], d[1]] + d[3:])
    if any(np.dtype(f[1]).subdtype for f in d):
        sh = [(f[0], np.dtype(f[1]).base, (4,)) if np.dtype(f[1]).subdtype else f for f in d]
        out["shape"] = np.dtype(sh)
    del last_name
    return out


def same_variants(dt):
    """dtypes equal to dt up to titles"""
    d = strax.unpack_dtype(dt)
    strip = [(f[0][-1] if isinstance(f[0], tuple) else f[0],) + tuple(f[1:]) for f in d]
    other = [(("x " + str(i), f[0]),) + tuple(f[1:]) if i % 2 == 0 else f for i, f in enumerate(strip)]
    return {"same": dt, "notitle": np.dtype(strip), "othertitle": np.dtype(other)}


def enc_code(fd):
    fd = np.dtype(fd)
    if fd.subdtype:
        return fd.base.str.replace("|", "") + str(fd.shape).replace(" ", "")
    return fd.str.replace("|", "")


def enc_dtype(dt):
    dt = np.dtype(dt)
    if not dt.names:
        return "-"
    out = []
    for name in dt.names:
        info = dt.fields[name]
        title = info[2] if len(info) == 3 else None
        t = (str(title).replace(" ", "_") + "/") if title is not None else ""
        out.append(f"{t}{name}:{enc_code(info[0])}")
    return ";".join(out)


def enc_stripped(dt):
    dt = np.dtype(dt)
    return ";".join(f"{n}:{enc_code(dt.fields[n][0])}" for n in dt.names) if dt.names else "-"


def rows_any(a):
    """(time, endtime, id) of a structured array of ANY dtype; missing pieces read as 0"""
    names = a.dtype.names or ()
    n = len(a)
    t = a["time"].astype(np.int64) if "time" in names else np.zeros(n, np.int64)
    if "endtime" in names:
        e = a["endtime"].astype(np.int64)
    elif "dt" in names and "length" in names and "time" in names:
        e = t + a["dt"].astype(np.int64) * a["length"].astype(np.int64)
    else:
        e = np.zeros(n, np.int64)
    k = a["id"].astype(np.int64) if "id" in names else np.zeros(n, np.int64)
    return [(int(x), int(y), int(z)) for x, y, z in zip(t, e, k)]


def mk_arr(rows, dt):
    """structured array of dtype dt holding (time, endt, id) rows as far as dt has the fields"""
    dt = np.dtype(dt)
    a = np.zeros(len(rows), dt)
    names = dt.names
    for i, (t, e, k) in enumerate(rows):
        if "time" in names:
            a[i]["time"] = t
        if "endtime" in names:
            a[i]["endtime"] = e
        elif "dt" in names and "length" in names:
            a[i]["dt"] = 1
            a[i]["length"] = e - t
        if "id" in names:
            a[i]["id"] = k
    return a


def enc_runs(d):
    return sl.show_runs(d)


def enc_chunk_body(c):
    rid = "-" if c.run_id is None else c.run_id
    return "|".join([c.data_type, c.data_kind, rid, str(int(c.start)), str(int(c.end)), sl.show_rows(rows_any(c.data)),
                     enc_runs(c.subruns), enc_runs(c.superrun)])


def show_cchunk(c):
    """canonical text of a real chunk == Lean `showCChunk`"""
    return f"{enc_chunk_body(c)}~{enc_stripped(c.dtype)}~{enc_stripped(c.data.dtype)}"


def enc_leaf(x):
    """encode a python object handed back by compute (not a dict of outputs)"""
    if isinstance(x, strax.Chunk):
        return f"C~{enc_dtype(x.dtype)}~{enc_dtype(x.data.dtype)}~{enc_chunk_body(x)}|1000"
    if isinstance(x, np.ndarray):
        if x.dtype.names:
            return f"A~{enc_dtype(x.dtype)}~{sl.show_rows(rows_any(x))}"
        return f"P~{len(x)}"
    if x is None:
        return "N"
    if isinstance(x, (list, tuple)):
        return f"S~{len(x)}"
    if isinstance(x, dict) and all(isinstance(v, np.ndarray) and not v.dtype.names for v in x.values()):
        if not x:
            return "D~-"
        return "D~" + "&".join(f"{k}={sl.show_ints(v)}" for k, v in x.items())
    raise ValueError(f"cannot encode leaf {type(x)}")


def is_cols(x):
    return isinstance(x, dict) and all(isinstance(v, np.ndarray) and not v.dtype.names for v in x.values())


def enc_result(x):
    if isinstance(x, dict) and not is_cols(x):
        if not x:
            return "O"
        return "O@" + "@".join(f"{k}^{enc_leaf(v)}" for k, v in x.items())
    return enc_leaf(x)


def enc_plugin(p):
    prov = ",".join(p.provides)
    if p.multi_output:
        dt = "-"
        dts = "&".join(f"{k}={enc_dtype(v)}" for k, v in p.dtype.items())
        kind = "-"
        kinds = "&".join(f"{k}={v}" for k, v in p.data_kind.items())
    else:
        dt, dts, kind, kinds = enc_dtype(p.dtype), "-", p.data_kind, "-"
    return "+".join([prov, dt, dts, kind, kinds, p._run_id, "1000"])


def enc_range(start, end):
    return "-" if start is None else f"{int(start)},{int(end)}"


# ----------------------------------------------------------------------------- 1. Chunk construction
def build_chunk_case(case):
    rows = [tuple(r) for r in case["rows"]]
    declared = DTYPE_TABLE[case["declared"]]
    if case["data"] == "None":
        data = None
    elif case["data"] == "!":
        data = [1, 2, 3]
    else:
        data = mk_arr(rows, DTYPE_TABLE[case["data"]])
    return strax.Chunk(data_type="d", data_kind="k", dtype=declared, run_id=case.get("run_id", "r"), start=case["start"], end=case["end"],
                       data=data, subruns=sl.parse_runs(case.get("subruns", "-")), superrun=sl.parse_runs(case.get("superrun", "-")))


DTYPE_TABLE: dict = {}


def _fill_dtype_table():
    for enc, dt in DECLARED.items():
        DTYPE_TABLE[enc] = dt
        for k, v in same_variants(dt).items():
            DTYPE_TABLE[f"{enc}/{k}"] = v
        for k, v in wrong_variants(dt).items():
            DTYPE_TABLE[f"{enc}/!{k}"] = v
    DTYPE_TABLE["q"] = DT_Q


_fill_dtype_table()


def impl_chunk(case):
    return sl.guarded(lambda: show_cchunk(build_chunk_case(case)))


def op_chunk(case):
    rid = case.get("run_id", "r")
    rc = "|".join(["d", "k", "-" if rid is None else rid, str(case["start"]), str(case["end"]), sl.show_rows(case["rows"]),
                   case.get("subruns", "-"), case.get("superrun", "-"), "1000"])
    data = case["data"] if case["data"] in ("None", "!") else enc_dtype(DTYPE_TABLE[case["data"]])
    return f"c12.chunk {enc_dtype(DTYPE_TABLE[case['declared']])} {data} {rc}"


def sorted_by_time(rows):
    return all(a[0] <= b[0] for a, b in zip(rows[:-1], rows[1:]))


def oracle_chunk(case, out):
    rows = [tuple(r) for r in case["rows"]]
    ok = out.startswith("ok")
    if case["data"] == "!":
        return "a non-array was accepted as chunk data" if ok else None
    if case["data"] != "None":
        if enc_stripped(DTYPE_TABLE[case["data"]]) != enc_stripped(DTYPE_TABLE[case["declared"]]):
            return "chunk accepted data of another dtype than declared" if ok else None
        if len(rows) <= 500 and sorted_by_time(rows) and any(t < case["start"] or e > case["end"] for t, e, _ in rows):
            return "chunk accepted a row outside its time range" if ok else None
        # beyond the scope of the property, the documented window: the first row and the last 500 rows are inspected
        if rows and (rows[0][0] < case["start"] or any(e > case["end"] for _, e, _ in rows[-500:])):
            return "chunk accepted a first row starting early or a row among its last 500 ending late" if ok else None
    plain = case.get("subruns", "-") == "-" and case.get("superrun", "-") == "-" and case.get("run_id", "r") is not None
    if plain and 0 <= case["start"] <= case["end"] and all(case["start"] <= t and e <= case["end"] for t, e, _ in rows) and not ok:
        return f"valid chunk refused: {out}"
    if ok:
        body = out[3:].split("~")[0].split("|")
        if body[5] != (sl.show_rows(rows) if case["data"] != "None" else "-"):
            return "chunk does not hold the rows it was given"
    return None


def chunk_cases(ctx):
    rng = ctx.rng
    ex = []
    max_n, grid = ctx.pick((3, 4), (3, 5))
    for rows in gen.all_sorted_rows(max_n, grid, allow_zero=True):
        for start in range(-1, grid):
            for end in range(0, grid + 2):
                ex.append(dict(rows=rows, start=start, end=end, declared="end", data="end/notitle"))
    # unsorted: every list of <= 2 rows in any order
    ivs = gen.intervals(0, grid, True)
    for combo in itertools.product(ivs, repeat=2):
        if combo[0][0] > combo[1][0]:
            for start in range(0, 3):
                for end in range(2, grid + 2):
                    ex.append(dict(rows=[(a, b, i) for i, (a, b) in enumerate(combo)], start=start, end=end, declared="end", data="end"))
    rnd = []
    keys = list(DTYPE_TABLE)
    for _ in range(ctx.pick(8000, 40000)):
        enc = rng.choice(list(DECLARED))
        rows = gen.gen_rows(rng, rng.randint(0, 6))
        s, e = gen.run_of(rng, rows)
        mode = rng.random()
        if mode < 0.25:
            data = rng.choice([k for k in keys if k.startswith(enc + "/") and "!" not in k])
        elif mode < 0.7:
            data = rng.choice([k for k in keys if k.startswith(enc + "/!")])
        elif mode < 0.8:
            data = rng.choice(keys)
        elif mode < 0.85:
            data = rng.choice(["None", "!"])
        else:
            data = enc
            k = rng.random()
            if rows and k < 0.3:
                e = max(r[1] for r in rows) - rng.randint(1, 2)
            elif rows and k < 0.6:
                s = rows[0][0] + rng.randint(1, 2)
            elif k < 0.7:
                s, e = e + 1, s
            elif k < 0.75:
                s = -1
        case = dict(rows=rows, start=s, end=e, declared=rng.choice([enc] + [k for k in keys if k.startswith(enc + "/") and "!" not in k]), data=data)
        r = rng.random()
        if r < 0.08:
            case["subruns"] = rng.choice(["a:0:5,b:5:9", "a:0:6,b:5:9", "b:5:9,a:0:5"])
        if r > 0.9:
            case["superrun"] = rng.choice(["{}", "a:0:5,b:5:9", "a:0:6,b:5:9", f"r:{s}:{e}"])
        if rng.random() < 0.03:
            case["run_id"] = None
        rnd.append(case)
    # the 500-row window: long arrays with one late / early row at a chosen index
    big = []
    for _ in range(ctx.pick(120, 600)):
        n = rng.choice([499, 500, 501, 502, 700, 1001])
        rows = [(2 * i, 2 * i + 1, i) for i in range(n)]
        e = 2 * n + 5
        j = rng.choice([0, 1, n - 501, n - 500, n - 499, n - 2, n - 1, rng.randrange(n)])
        j = min(max(j, 0), n - 1)
        if rng.random() < 0.8:
            rows[j] = (rows[j][0], e + 3, j)
        big.append(dict(rows=rows, start=0, end=e, declared="end", data="end"))
    return ex, rnd, big


# ----------------------------------------------------------------------------- plugin instances for unit-level calls
def make_plugin(spec):
    """spec: dict(kind=ordinary|multi|source|down|downmulti|loop|cut|overlap, enc=end|len|arr, run_id=str)"""
    kind, enc, run_id = spec["kind"], spec.get("enc", "end"), spec.get("run_id", "r0")
    dt = DECLARED[enc]
    body = dict(depends_on=() if kind == "source" else ("src",), provides="pp", dtype=dt, data_kind="things")
    base = strax.Plugin
    if kind in ("multi", "downmulti"):
        body.update(provides=("pp", "qq"), dtype=dict(pp=dt, qq=DT_Q), data_kind=immutabledict(pp="things", qq="things"))
    if kind in ("down", "downmulti"):
        base = strax.DownChunkingPlugin
    elif kind == "loop":
        base = strax.LoopPlugin
    elif kind == "cut":
        base = strax.CutPlugin
        body.pop("dtype")
        body["cut_name"] = "cut_pp"
        body["cut_by"] = lambda self, **kw: True
    elif kind == "overlap":
        base = strax.OverlapWindowPlugin
        body["get_window_size"] = lambda self: 1
    body["compute"] = (lambda self, chunk_i: None) if kind == "source" else (lambda self, **kw: None)
    cls = type("P", (base,), body)
    p = cls()
    p.fix_dtype()
    p.run_id = run_id
    p.config = {}
    return p


# ----------------------------------------------------------------------------- 2. _check_dtype, Plugin.chunk
def build_value(v, declared):
    """materialise a JSON value description into the python object compute would return"""
    t = v["t"]
    if t == "array":
        return mk_arr(v["rows"], DTYPE_OF(v["dt"], declared))
    if t == "chunk":
        dt = DTYPE_OF(v["dt"], declared)
        decl = DTYPE_OF(v.get("decl", v["dt"]), declared)
        return strax.Chunk(data_type=v["label"], data_kind=v.get("kind", "things"), dtype=decl, run_id=v.get("run_id", "r0"),
                           start=v["start"], end=v["end"], data=mk_arr(v["rows"], dt),
                           subruns=sl.parse_runs(v.get("subruns", "-")), superrun=sl.parse_runs(v.get("superrun", "-")))
    if t == "cols":
        return {k: np.array(c, dtype=np.int64) for k, c in v["cols"]}
    if t == "none":
        return None
    if t == "seq":
        return [0] * v["n"] if v.get("list", True) else tuple([0] * v["n"])
    if t == "plain":
        return np.zeros(v["n"])
    if t == "outputs":
        return {k: build_value(x, declared if k != "qq" else DT_Q) for k, x in v["items"]}
    raise ValueError(t)


def DTYPE_OF(name, declared):
    """dtype named relative to the declared one: same/notitle/othertitle/!extra/... or an absolute table key"""
    if name in DTYPE_TABLE:
        return DTYPE_TABLE[name]
    if name.startswith("!"):
        return wrong_variants(declared)[name[1:]]
    return same_variants(declared)[name]


def value_chunk_constructible(v, declared):
    try:
        build_value(v, declared)
        return True
    except Exception:  # noqa: BLE001
        return False


def declared_of(p, d=None):
    return p.dtype[d or "pp"] if p.multi_output else p.dtype


def impl_checkdtype(case):
    p = make_plugin(case["plugin"])
    x = build_value(case["x"], declared_of(p))
    return sl.guarded(lambda: (p._check_dtype(x, case["d"]), "-")[1])


def op_checkdtype(case):
    p = make_plugin(case["plugin"])
    x = build_value(case["x"], declared_of(p))
    return f"c12.checkdtype {enc_plugin(p)} {case['d'] or '-'} {enc_leaf(x)}"


def oracle_checkdtype(case, out):
    p = make_plugin(case["plugin"])
    d = case["d"] or (None if p.multi_output else "pp")
    if d not in ("pp", "qq") or (d == "qq" and not p.multi_output):
        return None
    x = build_value(case["x"], declared_of(p))
    good = isinstance(x, np.ndarray) and x.dtype.names is not None and enc_stripped(x.dtype) == enc_stripped(declared_of(p, d))
    if good and out != "ok -":
        return f"_check_dtype refused data of the declared dtype: {out}"
    if not good and out == "ok -":
        return "_check_dtype accepted something else than an array of the declared dtype"
    if isinstance(x, np.ndarray) and x.dtype.names and not good and out != "err PluginGaveWrongOutput":
        return f"wrong dtype must raise PluginGaveWrongOutput, got {out}"
    return None


def gen_value(rng, declared_enc, start, end, allow_outputs=False, for_qq=False):
    """random value description: mostly a valid array"""
    rows = gen.gen_rows(rng, rng.randint(0, 4), t0=start)
    rows = [(t, e, i) for t, e, i in rows if e <= end] if rng.random() < 0.8 else rows
    r = rng.random()
    same = ["same", "notitle", "othertitle"]
    wrong = ["!" + k for k in wrong_variants(DT_Q if for_qq else DECLARED[declared_enc])]
    if r < 0.3:
        return dict(t="array", dt=rng.choice(same), rows=rows)
    if r < 0.5:
        return dict(t="array", dt=rng.choice(wrong), rows=rows)
    if r < 0.75:
        s2, e2 = (start, end) if rng.random() < 0.6 else (start + rng.randint(-1, 1), end + rng.randint(-1, 1))
        dt = rng.choice(same) if rng.random() < 0.65 else rng.choice(wrong)
        decl = dt if rng.random() < 0.8 else rng.choice(same)
        return dict(t="chunk", dt=dt, decl=decl, rows=rows, start=s2, end=e2,
                    label=("qq" if for_qq else "pp") if rng.random() < 0.75 else rng.choice(["zzz", "qq", "pp", "src"]),
                    run_id=rng.choice(["r0", "r0", "r0", "r1"]))
    if r < 0.87:
        fields = [f for f in (DT_Q if for_qq else DECLARED[declared_enc]).names if f != "wave"]
        ks = [f for f in fields if rng.random() < 0.8]
        if rng.random() < 0.2:
            ks.append(rng.choice(["bogus", "pp"]))
        rng.shuffle(ks)
        n = rng.randint(0, 3)
        cols = []
        for k in ks:
            m = n if rng.random() < 0.85 else rng.choice([1, n + 1])
            base = rng.randint(max(start, 0), max(start, 0) + 3)
            if k == "time":
                col = [base + 3 * i for i in range(m)]
            elif k == "endtime":
                col = [base + 3 * i + 2 for i in range(m)]
            else:
                col = [rng.randint(0, 3) for _ in range(m)]
            cols.append([k, col])
        return dict(t="cols", cols=cols)
    if r < 0.9:
        return dict(t="none")
    if r < 0.95:
        return dict(t="seq", n=rng.choice([0, 0, 2]), list=rng.random() < 0.5)
    return dict(t="plain", n=rng.randint(0, 3))


# ----------------------------------------------------------------------------- 3. _fix_output
def show_fixed(p, res):
    if isinstance(res, dict):
        return "many" + "".join(f" {d}={show_cchunk(c)}" for d, c in res.items())
    return "one " + show_cchunk(res)


def fix_args(case):
    p = make_plugin(case["plugin"])
    result = build_value(case["result"], declared_of(p))
    start, end = case["range"] if case["range"] else (None, None)
    return p, result, start, end, sl.parse_runs(case.get("superrun", "-")), sl.parse_runs(case.get("subruns", "-"))


def impl_fix(case):
    p, result, start, end, sup, sub = fix_args(case)
    return sl.guarded(lambda: show_fixed(p, p._fix_output(result, start, end, sup, sub)))


def op_fix(case):
    p, result, start, end, _, _ = fix_args(case)
    return f"c12.fix {enc_plugin(p)} {enc_range(start, end)} {case.get('superrun', '-')} {case.get('subruns', '-')} {enc_result(result)}"


def violations_of(p, d, x, start, end):
    """contract violations of one delivered value for data type d (independent of the model)"""
    v = []
    decl = enc_stripped(declared_of(p, d))
    if isinstance(x, strax.Chunk):
        if enc_stripped(x.data.dtype) != decl:
            v.append("dtype")
        if x.data_type != d:
            v.append("label")
    elif isinstance(x, np.ndarray) and x.dtype.names:
        if enc_stripped(x.dtype) != decl:
            v.append("dtype")
        elif start is not None:
            rows = rows_any(x)
            if len(rows) <= 500 and sorted_by_time(rows) and any(t < start or e > end for t, e, _ in rows):
                v.append("range")
    return v


def oracle_fix(case, out):
    p, result, start, end, _, _ = fix_args(case)
    ok = out.startswith("ok")
    viol = []
    if p.multi_output:
        if not isinstance(result, dict):
            viol.append("non-dict")
        else:
            for d in p.provides:
                if d in result:
                    viol += violations_of(p, d, result[d], start, end)
    else:
        viol += violations_of(p, "pp", result, start, end)
    if viol and ok:
        return f"_fix_output accepted an output that violates the contract ({','.join(viol)})"
    if ok:
        # whatever was accepted must conform
        for tok in out[3:].split(" ")[1:]:
            d, _, txt = tok.rpartition("=") if p.multi_output else ("pp", "", tok)
            body, dts, ddt = txt.split("~")
            f = body.split("|")
            if f[0] != d:
                return "accepted chunk carries another label"
            if ddt != enc_stripped(declared_of(p, d)) or dts != ddt:
                return "accepted chunk has another dtype than declared"
            for r in ([] if f[5] == "-" else f[5].split(",")):
                t, e, _ = (int(x) for x in r.split(":"))
                if t < int(f[3]) or e > int(f[4]):
                    n = 0 if f[5] == "-" else len(f[5].split(","))
                    if n <= 500:
                        return "accepted chunk holds a row outside its range"
    return None


def gen_fix_cases(ctx, n, t0=0):
    rng = ctx.rng
    cases = []
    kinds = ["ordinary", "ordinary", "multi", "multi", "source", "loop", "cut", "overlap"]
    for _ in range(n):
        kind = rng.choice(kinds)
        enc = "end" if kind == "cut" else rng.choice(["end", "end", "len", "arr"])
        run_id = "r0" if rng.random() < 0.9 else "_sup"
        plugin = dict(kind=kind, enc=enc, run_id=run_id)
        start = t0 + rng.randint(0, 5)
        end = start + rng.randint(0, 12)
        rng_ = None if kind == "source" else [start, end]
        if kind == "cut":
            # declared dtype is (time, endtime, cut_pp:bool): values relative to it
            v = gen_cut_value(rng, start, end)
        elif kind == "multi":
            r = rng.random()
            if r < 0.12:
                # one output delivered with the dtype of its SIBLING (the other output's declared dtype), the sibling itself
                # valid and validated first or second: a verdict must not depend on what the plugin accepted before
                good_pp = dict(t="array", dt="same", rows=[])
                good_qq = dict(t="array", dt="same", rows=[])
                sib_for_qq = dict(t="chunk", dt=enc, decl=enc, rows=[], start=start, end=end, label="qq", run_id="r0")
                sib_for_pp = dict(t="chunk", dt="q", decl="q", rows=[], start=start, end=end, label="pp", run_id="r0")
                items = [["pp", good_pp], ["qq", sib_for_qq]] if rng.random() < 0.6 else [["pp", sib_for_pp], ["qq", good_qq]]
                if rng.random() < 0.3:
                    items.reverse()
                v = dict(t="outputs", items=items)
            elif r < 0.75:
                items = [["pp", gen_value(rng, enc, start, end)], ["qq", gen_value(rng, enc, start, end, for_qq=True)]]
                if rng.random() < 0.1:
                    items = items[:1] if rng.random() < 0.5 else items + [["extra", dict(t="none")]]
                if rng.random() < 0.3:
                    items.reverse()
                v = dict(t="outputs", items=items)
            else:
                v = gen_value(rng, enc, start, end)
        else:
            v = gen_value(rng, enc, start, end)
            if rng.random() < 0.05:
                v = dict(t="outputs", items=[["pp", gen_value(rng, enc, start, end)], ["qq", dict(t="none")]][: rng.randint(1, 2)])
        case = dict(plugin=plugin, range=rng_, result=v)
        r = rng.random()
        if r < 0.12:
            case["superrun"] = rng.choice([f"r0:{start}:{end}", "r0:0:5,r1:5:9", "{}", "a:0:5,_sup:5:9", "a:0:6,b:5:9"])
        elif run_id == "_sup":
            case["superrun"] = rng.choice(["a:0:5,b:5:9", "a:0:5,_sup:5:9", "b:5:9,a:0:5"])
        if rng.random() < 0.08:
            case["subruns"] = rng.choice(["a:0:5,b:5:9", "a:0:6,b:5:9"])
        p = make_plugin(plugin)
        if not value_chunk_constructible(v, declared_of(p)):
            continue   # the offending chunk could not even be constructed inside compute: covered by chunk_init
        cases.append(case)
    return cases


# ----------------------------------------------------------------------------- 3b. verdicts do not depend on history
def _verdict(p, case):
    result = build_value(case["result"], declared_of(p))
    start, end = case["range"] if case["range"] else (None, None)
    return sl.guarded(lambda: show_fixed(p, p._fix_output(result, start, end, sl.parse_runs(case.get("superrun", "-")),
                                                          sl.parse_runs(case.get("subruns", "-")))))


def impl_history(case):
    """the same results handed to ONE plugin instance in sequence | each handed to a fresh instance"""
    shared = make_plugin(case["plugin"])
    seq = [_verdict(shared, dict(c, plugin=case["plugin"])) for c in case["calls"]]
    fresh = [_verdict(make_plugin(case["plugin"]), dict(c, plugin=case["plugin"])) for c in case["calls"]]
    return " || ".join(seq) + " ### " + " || ".join(fresh)


def oracle_history(case, out):
    seq, fresh = out.split(" ### ")
    if seq != fresh:
        a, b = seq.split(" || "), fresh.split(" || ")
        i = next(i for i in range(len(a)) if a[i] != b[i])
        return (f"call {i} on a plugin instance that handled {i} result(s) before gives `{a[i][:60]}`, a fresh instance gives `{b[i][:60]}`: "
                "acceptance of an output depends on what was accepted earlier")
    return None


def gen_history_cases(ctx, n):
    rng = ctx.rng
    cases = []
    pool = gen_fix_cases(ctx, 6 * n)
    by_plugin = {}
    for c in pool:
        by_plugin.setdefault(json_key(c["plugin"]), []).append(c)
    for key, cs in by_plugin.items():
        multi = cs[0]["plugin"]["kind"] == "multi"
        for _ in range(max(1, (n * len(cs)) // max(1, len(pool)) * (3 if multi else 1))):
            k = rng.randint(2, 3)
            calls = [dict((kk, vv) for kk, vv in rng.choice(cs).items() if kk != "plugin") for _ in range(k)]
            cases.append(dict(plugin=cs[0]["plugin"], calls=calls))
    return cases[: 2 * n]


def json_key(x):
    import json
    return json.dumps(x, sort_keys=True)


CUT_DT = None


def cut_dtype():
    global CUT_DT
    if CUT_DT is None:
        CUT_DT = make_plugin(dict(kind="cut")).dtype
        DTYPE_TABLE["cut"] = CUT_DT
        for k, v in wrong_variants(CUT_DT).items():
            DTYPE_TABLE["cut/!" + k] = v
        DTYPE_TABLE["cut/notitle"] = same_variants(CUT_DT)["notitle"]
    return CUT_DT


def gen_cut_value(rng, start, end):
    cut_dtype()
    rows = [(t, e, 0) for t, e, _ in gen.gen_rows(rng, rng.randint(0, 3), t0=start)]
    if rng.random() < 0.8:
        rows = [r for r in rows if r[1] <= end]
    r = rng.random()
    if r < 0.4:
        return dict(t="array", dt=rng.choice(["cut", "cut/notitle"]), rows=rows)
    if r < 0.7:
        return dict(t="array", dt=rng.choice([k for k in DTYPE_TABLE if k.startswith("cut/!")]), rows=rows)
    if r < 0.9:
        dt = rng.choice(["cut", "cut/notitle", "cut/!type", "cut/!extra"])
        return dict(t="chunk", dt=dt, decl=dt, rows=rows, start=start, end=end, label=rng.choice(["pp", "pp", "zzz"]))
    return rng.choice([dict(t="none"), dict(t="seq", n=0), dict(t="plain", n=2)])


# ----------------------------------------------------------------------------- 4. DownChunkingPlugin._fix_output
def down_args(case):
    p = make_plugin(case["plugin"])
    items = None if case["items"] is None else [build_value(v, declared_of(p)) for v in case["items"]]
    return p, items, sl.parse_runs(case.get("superrun", "-")), sl.parse_runs(case.get("subruns", "-"))


def impl_fixdown(case):
    p, items, sup, sub = down_args(case)
    got = []
    try:
        res = (x for x in items) if items is not None else [1, 2]
        for out in p._fix_output(res, 0, 10, sup, sub):
            got.append(show_fixed(p, out))
    except Exception as e:  # noqa: BLE001
        return f"err {sl.err_name(e)} after {len(got)} " + (" ".join(got) if got else "-")
    return f"ok {len(got)} " + (" ".join(got) if got else "-")


def op_fixdown(case):
    p, items, _, _ = down_args(case)
    res = "X" if items is None else ("G" + "".join("#" + enc_result(x) for x in items))
    return f"c12.fixdown {enc_plugin(p)} {case.get('superrun', '-')} {case.get('subruns', '-')} {res}"


def oracle_fixdown(case, out):
    p, items, _, _ = down_args(case)
    if items is None:
        return None if out.startswith("err") else "a non-generator result was accepted"
    delivered = int(out.split(" ")[1] if out.startswith("ok") else out.split(" ")[3])
    for i, it in enumerate(items):
        viol = []
        if p.multi_output and not isinstance(it, dict):
            viol.append("non-dict")
        pairs = list(it.items()) if isinstance(it, dict) else [("pp", it)]
        for d, x in pairs:
            if not isinstance(x, strax.Chunk):
                viol.append("not-a-chunk")
            elif d in p.provides:
                viol += violations_of(p, d, x, None, None)
        if viol:
            if delivered > i:
                return f"down-chunking plugin handed on item {i} that violates the contract ({','.join(viol)})"
            return None
    return None


def gen_down_cases(ctx, n):
    rng = ctx.rng
    cases = []
    for _ in range(n):
        multi = rng.random() < 0.35
        plugin = dict(kind="downmulti" if multi else "down", enc=rng.choice(["end", "end", "len"]), run_id="r0" if rng.random() < 0.9 else "_sup")
        if rng.random() < 0.04:
            cases.append(dict(plugin=plugin, items=None))
            continue
        items = []
        t = 0
        for _ in range(rng.randint(0, 4)):
            e = t + rng.randint(1, 5)

            def one(for_qq=False):
                r = rng.random()
                rows = [x for x in gen.gen_rows(rng, rng.randint(0, 2), t0=t) if x[1] <= e]
                lab = "qq" if for_qq else "pp"
                if r < 0.7:
                    return dict(t="chunk", dt="same", rows=rows, start=t, end=e, label=lab)
                if r < 0.8:
                    return dict(t="chunk", dt="same", rows=rows, start=t, end=e, label=rng.choice(["zzz", "qq", "pp"]))
                if r < 0.9:
                    w = rng.choice(["!type", "!extra", "!name", "notitle", "othertitle"])
                    return dict(t="chunk", dt=w, decl=w, rows=rows, start=t, end=e, label=lab)
                return rng.choice([dict(t="array", dt="same", rows=rows), dict(t="none"), dict(t="cols", cols=[]), dict(t="seq", n=0)])
            if multi and rng.random() < 0.85:
                its = [["pp", one()], ["qq", one(True)]]
                if rng.random() < 0.15:
                    its = its[:1] if rng.random() < 0.5 else its + [["zz", one()]]
                items.append(dict(t="outputs", items=its))
            elif rng.random() < 0.07:
                items.append(dict(t="outputs", items=[["pp", one()]]))
            else:
                items.append(one())
            t = e
        case = dict(plugin=plugin, items=items)
        if plugin["run_id"] == "_sup":
            case["superrun"] = rng.choice(["a:0:5,b:5:9", "a:0:5,_sup:5:9"])
        elif rng.random() < 0.08:
            case["superrun"] = rng.choice(["r0:0:10", "r0:0:5,r1:5:9", "{}"])
        p = make_plugin(plugin)
        if all(value_chunk_constructible(v, declared_of(p)) for v in items):
            cases.append(case)
    return cases


# ----------------------------------------------------------------------------- 5. continuity of the target
def stream_chunks(case):
    out = []
    for (s, e, rid, sub) in case["chunks"]:
        out.append(strax.Chunk(data_type="pp", data_kind="k", dtype=DT, run_id=rid, start=s, end=e, data=None, subruns=sl.parse_runs(sub)))
    return out


def impl_stream(case):
    got = []
    try:
        for c in strax.continuity_check(iter(stream_chunks(case))):
            got.append(f"{c.start}:{c.end}")
    except Exception as e:  # noqa: BLE001
        return f"err {sl.err_name(e)} after {len(got)} " + (" ".join(got) if got else "-")
    return f"ok {len(got)} " + (" ".join(got) if got else "-")


def op_stream(case):
    return "c12.stream " + " ".join(f"pp|k|{rid}|{s}|{e}|-|{sub}|-|1" for s, e, rid, sub in case["chunks"])


def oracle_stream(case, out):
    ch = case["chunks"]
    if any(sub != "-" for *_, sub in ch) or len({rid for _, _, rid, _ in ch}) > 1:
        return None
    first_break = next((i + 1 for i in range(len(ch) - 1) if ch[i][1] != ch[i + 1][0]), None)
    if first_break is None:
        return None if out.startswith("ok") else f"continuous stream refused: {out}"
    if not out.startswith("err ValueError"):
        return "a target stream with a gap or overlap was delivered without an exception"
    if int(out.split(" ")[3]) != first_break:
        return f"expected exactly the {first_break} chunks before the break to be delivered"
    return None


def stream_cases(ctx):
    rng = ctx.rng
    grid = 3
    ivs = gen.intervals(0, grid, True)
    ex = []
    for n in range(0, 4):
        for combo in itertools.product(ivs, repeat=n):
            ex.append(dict(chunks=[[a, b, "r", "-"] for a, b in combo]))
    rnd = random_streams(rng, ctx.pick(6000, 30000), 0)
    return ex, rnd


def random_streams(rng, n, t0):
    rnd = []
    for _ in range(n):
        chunks = []
        t = t0 + rng.randint(0, 3)
        rid = rng.choice(["r", "r", "r", "_sup"])
        for _ in range(rng.randint(1, 6)):
            e = t + rng.randint(0, 4)
            r = rng.random()
            if r < 0.1:
                rid = rng.choice(["r", "s", "_sup"])
            sub = "-"
            # a `_sup` run mostly carries subruns (superrun chunk); sometimes not (then `last_subrun` is None afterwards)
            if (rid == "_sup" and rng.random() < 0.8) or rng.random() < 0.05:
                cut = rng.randint(t, e)
                sub = rng.choice([f"a:{t}:{e}", f"a:{t}:{cut},b:{cut}:{e}", f"a:{t}:{max(t, e - 1)}", f"b:{t}:{e}"])
            chunks.append([t, e, rid, sub])
            t = e if rng.random() < 0.8 else e + rng.choice([-1, 1, 2])
            t = max(t, 0)
        rnd.append(dict(chunks=chunks))
    return rnd


# ----------------------------------------------------------------------------- 6. fix_dtype
FIELD_POOL = [("time", I8), ("endtime", I8), ("dt", I2), ("length", I4), ("area", np.float32)]


def decl_dtype(mask):
    return [(("T " + n, n), t) for i, (n, t) in enumerate(FIELD_POOL) if mask >> i & 1]


def fixdtype_plugin(case):
    body = dict(depends_on=("src",), compute=lambda self, **kw: None)
    if case["multi"]:
        body["provides"] = ("pp", "qq")
        body["data_kind"] = immutabledict(pp="k", qq="k") if case["kind_dict"] else "k"
        if case["dtype"] == "missing":
            pass
        elif case["dtype_dict"]:
            d = {"pp": decl_dtype(case["dtype"][0]), "qq": decl_dtype(case["dtype"][1])}
            if case.get("drop_qq"):
                d.pop("qq")
            body["dtype"] = d
        else:
            body["dtype"] = decl_dtype(case["dtype"][0])
    else:
        body["provides"] = "pp"
        body["data_kind"] = "k"
        if case["dtype"] != "missing":
            body["dtype"] = decl_dtype(case["dtype"][0])
    return type("P", (strax.Plugin,), body)()


def impl_fixdtype(case):
    p = fixdtype_plugin(case)
    return sl.guarded(lambda: (p.fix_dtype(), "-")[1])


def op_fixdtype(case):
    prov = "pp,qq" if case["multi"] else "pp"
    if case["dtype"] == "missing":
        dt = "missing"
    elif case["multi"] and case["dtype_dict"]:
        items = [("pp", case["dtype"][0]), ("qq", case["dtype"][1])]
        if case.get("drop_qq"):
            items = items[:1]
        dt = "dict:" + "&".join(f"{k}={enc_dtype(np.dtype(decl_dtype(m))) if m else '-'}" for k, m in items)
    else:
        dt = enc_dtype(np.dtype(decl_dtype(case["dtype"][0]))) if case["dtype"][0] else "-"
    return f"c12.fixdtype {prov} {dt} {int(case['kind_dict'] if case['multi'] else 0)}"


def has_time(mask):
    names = {n for i, (n, _) in enumerate(FIELD_POOL) if mask >> i & 1}
    return "time" in names and ("endtime" in names or {"dt", "length"} <= names)


def oracle_fixdtype(case, out):
    ok = out == "ok -"
    if case["dtype"] == "missing":
        return "plugin without dtype accepted" if ok else None
    masks = [case["dtype"][0]] if not case["multi"] else ([] if not case["dtype_dict"] else list(case["dtype"][: 1 if case.get("drop_qq") else 2]))
    if any(not has_time(m) for m in masks) and ok:
        return "a declared dtype without time/endtime information was accepted at registration"
    if case["multi"] and (not case["dtype_dict"] or not case["kind_dict"] or case.get("drop_qq")) and ok:
        return "a multi-output plugin with a non-dict declaration was accepted"
    if not case["multi"] and has_time(masks[0]) and not ok:
        return f"valid declaration refused: {out}"
    return None


def fixdtype_cases():
    cases = []
    for m in range(1, 32):
        cases.append(dict(multi=False, kind_dict=False, dtype_dict=False, dtype=[m, 0]))
    cases.append(dict(multi=False, kind_dict=False, dtype_dict=False, dtype="missing"))
    for m1 in (0b00011, 0b01101, 0b00001, 0b00010, 0b11111, 0b01001):
        for m2 in (0b00011, 0b01101, 0b00101, 0b10000):
            for kd in (True, False):
                for dd in (True, False):
                    cases.append(dict(multi=True, kind_dict=kd, dtype_dict=dd, dtype=[m1, m2]))
            cases.append(dict(multi=True, kind_dict=True, dtype_dict=True, dtype=[m1, m2], drop_qq=True))
    cases.append(dict(multi=True, kind_dict=True, dtype_dict=True, dtype="missing"))
    return cases


# ----------------------------------------------------------------------------- 7. pipeline scenarios
W = 10          # width of a source chunk
KINDS = ["source", "ordinary", "multi", "down", "loop", "cut", "overlap"]


class Ctl:
    """scenario control, deliberately outside every lineage: the same classes (same storage keys) behave or misbehave"""
    n = 4
    bad_i = None
    viol = None
    ops: list = []          # model ops for what the misbehaving compute did / handed back
    invoked = 0
    t0 = 0                  # time of the start of the run


def good_rows(i, n=2):
    a = np.zeros(n, DT)
    a["time"] = Ctl.t0 + W * i + 1 + 5 * np.arange(n)
    a["endtime"] = a["time"] + 2
    a["id"] = 100 * i + np.arange(n)
    return a


def as_dtype(a, dt):
    b = np.zeros(len(a), dt)
    for f in ("time", "endtime"):
        b[f] = a[f]
    return b


def _pchunk(plugin, start, end, data, data_type):
    """plugin.chunk(...) with the call recorded as a model op"""
    Ctl.ops.append(f"c12.pchunk {enc_plugin(plugin)} {start},{end} {data_type} {enc_dtype(data.dtype)} {sl.show_rows(rows_any(data))}")
    return plugin.chunk(start=start, end=end, data=data, data_type=data_type)


def misbehave(plugin, data, start, end, d):
    """the offending output of `plugin` for data type d (a bare array or a Chunk); may raise inside compute"""
    Ctl.invoked += 1
    v, _, var = Ctl.viol.partition(":")
    declared = plugin.dtype_for(d)
    if v == "dtype_bare":
        return as_dtype(data, wrong_variants(declared)[var])
    if v == "dtype_chunk":       # wrapped with the plugin's own helper: declared dtype, wrong data
        return _pchunk(plugin, start, end, as_dtype(data, wrong_variants(declared)[var]), d)
    if v == "dtype_selfchunk":   # a self-consistent chunk of another dtype
        x = as_dtype(data, wrong_variants(declared)[var])
        return strax.Chunk(start=start, end=end, data=x, dtype=x.dtype, data_type=d, data_kind=plugin.data_kind_for(d), run_id=plugin._run_id)
    if v in ("row_bare", "row_chunk"):
        x = data.copy()
        if len(x) == 0:
            x = np.zeros(1, declared)
            x["time"], x["endtime"] = start, start + 1
        if var == "late":
            x["endtime"][-1] = end + 1
        else:
            x["time"][0] = start - 1
        return x if v == "row_bare" else _pchunk(plugin, start, end, x, d)
    if v == "label":
        return strax.Chunk(start=start, end=end, data=data, dtype=declared, data_type="zzz", data_kind=plugin.data_kind_for(d), run_id=plugin._run_id)
    if v == "gap":
        s, e = dict(before=(start + 1, end), after=(start, end - 1), overlap_before=(start - 1, end), overlap_after=(start, end + 1))[var]
        keep = data[(data["time"] >= s) & (strax.endtime(data) <= e)]
        return plugin.chunk(start=s, end=e, data=keep, data_type=d)
    raise ValueError(Ctl.viol)


def _record_fix(plugin, result, start, end):
    Ctl.ops.append(f"c12.fix {enc_plugin(plugin)} {enc_range(start, end)} - - {enc_result(result)}")
    return result


def build_classes(kind):
    class Src(strax.Plugin):
        provides = "src"
        depends_on = ()
        dtype = DT
        data_kind = "things"
        rechunk_on_save = False

        def source_finished(self):
            return True

        def is_ready(self, chunk_i):
            return chunk_i < Ctl.n

        def compute(self, chunk_i):
            return self.chunk(start=Ctl.t0 + W * chunk_i, end=Ctl.t0 + W * (chunk_i + 1), data=good_rows(chunk_i))

    def bad(chunk_i):
        return Ctl.bad_i is not None and chunk_i == Ctl.bad_i

    common = dict(provides="pp", depends_on=("src",), dtype=DT, data_kind="things", rechunk_on_save=False)

    if kind == "source":
        class P(strax.Plugin):
            provides = "pp"
            depends_on = ()
            dtype = DT
            data_kind = "pk"
            rechunk_on_save = False

            def source_finished(self):
                return True

            def is_ready(self, chunk_i):
                return chunk_i < Ctl.n

            def compute(self, chunk_i):
                s, e, d = Ctl.t0 + W * chunk_i, Ctl.t0 + W * (chunk_i + 1), good_rows(chunk_i)
                if bad(chunk_i):
                    r = d if Ctl.viol == "bare_from_source" else misbehave(self, d, s, e, "pp")
                    if Ctl.viol == "bare_from_source":
                        Ctl.invoked += 1
                    return _record_fix(self, r, None, None)
                return self.chunk(start=s, end=e, data=d)
        return [P]

    if kind == "ordinary":
        def compute(self, things, chunk_i, start, end):
            if bad(chunk_i):
                return _record_fix(self, misbehave(self, things, start, end, "pp"), start, end)
            return things
        return [Src, type("P", (strax.Plugin,), dict(common, compute=compute))]

    if kind == "multi":
        def compute(self, things, chunk_i, start, end):
            q = as_dtype(things, DT_Q)
            if bad(chunk_i):
                v = Ctl.viol
                if v.startswith("non_dict") or v == "missing_key":
                    Ctl.invoked += 1
                    r = {"non_dict:array": things, "non_dict:list": [things, q], "non_dict:none": None,
                         "non_dict:chunk": self.chunk(start=start, end=end, data=things, data_type="pp"),
                         "missing_key": dict(pp=things)}[v]
                else:
                    r = dict(pp=misbehave(self, things, start, end, "pp"), qq=q)
                return _record_fix(self, r, start, end)
            return dict(pp=things, qq=q)
        return [Src, type("P", (strax.Plugin,), dict(common, provides=("pp", "qq"), dtype=dict(pp=DT, qq=DT_Q),
                                                     data_kind=immutabledict(pp="things", qq="things"), compute=compute))]

    if kind == "down":
        class P(strax.DownChunkingPlugin):
            provides = "pp"
            depends_on = ("src",)
            dtype = DT
            data_kind = "things"
            rechunk_on_save = False

            def compute(self, things, chunk_i, start, end):
                if bad(chunk_i) and Ctl.viol == "not_generator":
                    Ctl.invoked += 1
                    Ctl.ops.append(f"c12.fixdown {enc_plugin(self)} - - X")
                    return things
                return self._gen(things, chunk_i, start, end)

            def _gen(self, things, chunk_i, start, end):
                mid = (start + end) // 2
                a = things[strax.endtime(things) <= mid]
                b = things[things["time"] >= mid]
                first = self.chunk(start=start, end=mid, data=a)
                yield first
                if bad(chunk_i):
                    if Ctl.viol == "down_bare":
                        Ctl.invoked += 1
                        r = b
                    else:
                        r = misbehave(self, b, mid, end, "pp")
                    Ctl.ops.append(f"c12.fixdown {enc_plugin(self)} - - G#{enc_result(first)}#{enc_result(r)}")
                    yield r
                else:
                    yield self.chunk(start=mid, end=end, data=b)
        return [Src, P]

    if kind == "loop":
        class P(strax.LoopPlugin):
            provides = "pp"
            depends_on = ("src",)
            dtype = DT
            data_kind = "things"
            rechunk_on_save = False

            def compute(self, things, chunk_i, start, end):
                r = super().compute(things=things)
                if bad(chunk_i):
                    return _record_fix(self, misbehave(self, r, start, end, "pp"), start, end)
                return r

            def compute_loop(self, thing):
                return dict(time=thing["time"], endtime=thing["endtime"], id=thing["id"])
        return [Src, P]

    if kind == "cut":
        class P(strax.CutPlugin):
            provides = "pp"
            depends_on = ("src",)
            data_kind = "things"
            cut_name = "cut_pp"
            rechunk_on_save = False

            def compute(self, things, chunk_i, start, end):
                r = super().compute(things=things)
                if bad(chunk_i):
                    return _record_fix(self, misbehave(self, r, start, end, "pp"), start, end)
                return r

            def cut_by(self, things):
                return things["id"] % 2 == 0
        return [Src, P]

    if kind == "overlap":
        class P(strax.OverlapWindowPlugin):
            provides = "pp"
            depends_on = ("src",)
            dtype = DT
            data_kind = "pk"
            rechunk_on_save = False

            def get_window_size(self):
                return 1

            def compute(self, things, chunk_i, start, end):
                if bad(chunk_i):
                    return _record_fix(self, misbehave(self, things, start, end, "pp"), start, end)
                return things
        return [Src, P]
    raise ValueError(kind)


def down_class(kind):
    class Down(strax.Plugin):
        provides = "down"
        depends_on = ("pp",)
        dtype = DT
        rechunk_on_save = False
        data_kind = "pk" if kind in ("source", "overlap") else "things"

        def compute(self, **kw):
            (x,) = kw.values()
            r = np.zeros(len(x), DT)
            r["time"], r["endtime"] = x["time"], strax.endtime(x)
            return r
    return Down


SCRATCH = None


def scratch_dir():
    global SCRATCH
    if SCRATCH is None:
        import atexit
        import os
        SCRATCH = tempfile.mkdtemp(prefix="verif_c12_")
        pid = os.getpid()
        atexit.register(lambda: shutil.rmtree(SCRATCH, ignore_errors=True) if os.getpid() == pid else None)
    return SCRATCH


def applicable(kind, viol):
    v = viol.partition(":")[0]
    if kind == "source":
        return v in ("dtype_chunk", "dtype_selfchunk", "row_chunk", "label", "gap", "bare_from_source")
    if kind == "multi":
        return v not in ("bare_from_source", "down_bare", "not_generator")
    if kind == "down":
        return v in ("dtype_chunk", "dtype_selfchunk", "row_chunk", "label", "gap", "down_bare", "not_generator")
    if kind == "overlap" and v == "gap":
        return False      # the overlap-window plugin re-cuts its output at its own split points: the boundaries are not the plugin's
    return v in ("dtype_bare", "dtype_chunk", "dtype_selfchunk", "row_bare", "row_chunk", "label", "gap")


def scenario(case):
    """run one scenario on a real context; returns a flat result dict (JSON-able)"""
    kind, viol, bad_i, proc, target = case["kind"], case["viol"], case["bad_i"], case["processor"], case["target"]
    mode = case.get("mode", "plain")
    tmp = tempfile.mkdtemp(prefix="s_", dir=scratch_dir())
    Ctl.n, Ctl.viol, Ctl.bad_i, Ctl.ops, Ctl.invoked, Ctl.t0 = case.get("n", 4), viol, bad_i, [], 0, case.get("t0", 0)
    classes = build_classes(kind) + [down_class(kind)]

    mw = case.get("max_workers")
    # eager threaded pipeline: allow_lazy=False, or any max_workers > 1 (the processor then ignores allow_lazy)
    lazy = not (mode in ("eager", "eager_slow") and not mw)

    def ctx_():
        return strax.Context(storage=[strax.DataDirectory(tmp)], register=classes, allow_multiprocess=False, timeout=30,
                             allow_lazy=lazy)
    res = dict(delivered=[])
    sink = io.StringIO()
    try:
        with warnings.catch_warnings(), contextlib.redirect_stdout(sink), contextlib.redirect_stderr(sink):
            warnings.simplefilter("ignore")
            st = ctx_()
            try:
                for c in st.get_iter("r0", target, processor=proc, progress_bar=False, max_workers=mw):
                    res["delivered"].append(dict(label=c.data_type, start=int(c.start), end=int(c.end), dtype=enc_stripped(c.data.dtype),
                                                 rows=rows_any(c.data)))
                    if mode == "eager_slow" and len(res["delivered"]) == 1:
                        # the consumer is slower than the pipeline, by construction: it waits until the pipeline has drained
                        # (the saver of the target has renamed its directory, i.e. closed) before it asks for the next chunk
                        import glob
                        import time
                        t_wait = time.time()
                        while time.time() - t_wait < 20:
                            if any(not d.endswith("_temp") for d in glob.glob(f"{tmp}/r0-{target}-*")):
                                break
                            time.sleep(0.01)
                        res["drained"] = any(not d.endswith("_temp") for d in glob.glob(f"{tmp}/r0-{target}-*"))
                res["out"] = "ok"
            except Exception as e:  # noqa: BLE001
                res["out"] = "err " + sl.err_name(e)
                res["exc"] = type(e).__name__
            res["invoked"] = Ctl.invoked
            res["ops"] = list(Ctl.ops)
            st2 = ctx_()
            res["stored"] = {d: bool(st2.is_stored("r0", d)) for d in ("src", "pp", "qq", "down") if d in st2._plugin_class_registry}
            # what is stored must load and conform
            res["stored_bad"] = []
            for d, s in res["stored"].items():
                if s and d in ("pp", "qq", "down"):
                    try:
                        chunks = list(st2.get_iter("r0", d, progress_bar=False))
                        ends = [(int(c.start), int(c.end)) for c in chunks]
                        if any(a[1] != b[0] for a, b in zip(ends[:-1], ends[1:])):
                            res["stored_bad"].append(f"{d}: stored chunks are not continuous {ends}")
                    except Exception as e:  # noqa: BLE001
                        res["stored_bad"].append(f"{d}: stored data does not load: {type(e).__name__}")
            # a subsequent correct run
            Ctl.bad_i = None
            st3 = ctx_()
            try:
                arr = st3.get_array("r0", target, processor=proc, progress_bar=False, max_workers=mw)
                res["rerun"] = dict(ok=True, n=len(arr), rows=rows_any(arr), stored=bool(st3.is_stored("r0", target)))
            except Exception as e:  # noqa: BLE001
                res["rerun"] = dict(ok=False, err=type(e).__name__ + ": " + str(e)[:80])
    finally:
        shutil.rmtree(tmp, ignore_errors=True)
    return res


SCEN_CACHE: dict = {}


def case_key(case):
    return "|".join(str(case.get(k)) for k in ("kind", "viol", "bad_i", "processor", "target", "mode", "rep", "t0", "max_workers"))


def impl_scenario(case):
    r = scenario(case)
    SCEN_CACHE[case_key(case)] = r
    return r["out"]


def op_scenario(case):
    """the model's verdict for the very object the misbehaving compute handed back (or for the stream it produced)"""
    r = SCEN_CACHE.get(case_key(case))
    v = case["viol"].partition(":")[0]
    if r is None or case["bad_i"] is None:
        return None
    if v == "gap":
        if case["kind"] == "overlap":
            return None       # the overlap-window plugin re-cuts its output: the stream is not the plugin's
        return "c12.stream " + " ".join(f"pp|k|r0|{s}|{e}|-|-|-|1" for s, e in plugin_stream(case))
    if not r["ops"]:
        return None
    return r["ops"][0]


def plugin_stream(case):
    """chunk boundaries the (mis)behaving plugin hands over, for the gap kinds"""
    out = []
    var = case["viol"].partition(":")[2]
    t0 = case.get("t0", 0)
    for i in range(case.get("n", 4)):
        a, b = t0 + W * i, t0 + W * (i + 1)
        parts = [(a, (a + b) // 2), ((a + b) // 2, b)] if case["kind"] == "down" else [(a, b)]
        if i == case["bad_i"]:
            s, e = parts[-1]
            parts[-1] = dict(before=(s + 1, e), after=(s, e - 1), overlap_before=(s - 1, e), overlap_after=(s, e + 1))[var]
        out += parts
    return out


def model_post_scenario(s):
    if s.startswith("ok"):
        return "ok"
    return " ".join(s.split(" ")[:2])


def expected_rows(case):
    n = case.get("n", 4)
    rows = []
    Ctl.t0 = case.get("t0", 0)
    for i in range(n):
        rows += rows_any(good_rows(i))
    if case["target"] in ("down",) or case["kind"] == "cut":
        rows = [(t, e, 0) for t, e, _ in rows]
    return rows


F3_TOKEN = "F3-gap-stored-after-exception"   # known finding: EAGER threaded pipeline only (the lazy variant needed D6, fixed)


def oracle_scenario(case, out):
    r = SCEN_CACHE[case_key(case)]
    kind, viol, target = case["kind"], case["viol"], case["target"]
    v = viol.partition(":")[0]
    msgs = []
    bad = case["bad_i"] is not None
    # the listed finding F3 / D21 applies to exactly this: eager threaded pipeline with a slow consumer, gap/overlap in the target,
    # the caller got the exception, and the TARGET ITSELF (pp) is what stayed in storage
    f3 = (bad and v == "gap" and case["processor"] == "threaded_mailbox" and case.get("mode") == "eager_slow" and target == "pp"
          and out.startswith("err") and bool(r["stored"].get("pp")))
    rr = r["rerun"]
    if not rr.get("ok"):
        if not f3:      # under F3 the later run loads the stored gapped pp again: a consequence, not a second failure
            msgs.append(f"a subsequent correct run failed: {rr.get('err')}")
    elif rr["rows"] != expected_rows(case) or not rr["stored"]:
        msgs.append("a subsequent correct run returned other rows or did not store its target")
    stored_bad = [m for m in r["stored_bad"] if not (f3 and m.startswith("pp:"))]
    if stored_bad:
        msgs.append("data left in storage as valid does not conform: " + "; ".join(stored_bad))
    if out.startswith("err"):
        if not bad:
            msgs.append(f"a well-behaved pipeline raised {r.get('exc')}")
        # (for the gap kinds the sibling output qq is itself continuous and correct: it may legitimately be stored)
        for d in (("pp", "down") if v == "gap" else ("pp", "qq", "down")):
            if r["stored"].get(d) and not (f3 and d == "pp"):
                msgs.append(f"processing stopped with {r.get('exc')} but {d} is stored as valid data")
        if f3:
            f3msg = (f"{F3_TOKEN}: processor=threaded_mailbox eager: the caller got {r.get('exc')} for a target with a gap/overlap, "
                     "but the target is left in storage as valid data")
            if not msgs:
                return f3msg
            msgs.append("(also: " + f3msg + ")")      # anything else wrong in the same scenario is NOT covered by the finding
    else:
        # nothing was raised: everything handed to the user must conform to the declaration
        decl = "time:<i8;endtime:<i8;cut_pp:b1" if (kind == "cut" and target == "pp") else enc_stripped(DT)
        chunks = r["delivered"]
        if any(c["label"] != target for c in chunks):
            msgs.append("a chunk labelled with another data type was handed to the user")
        if any(c["dtype"] != decl for c in chunks):
            msgs.append("data of another dtype than declared was handed to the user")
        if any(t < c["start"] or e > c["end"] for c in chunks for t, e, _ in c["rows"]):
            msgs.append("a row outside its chunk was handed to the user")
        if any(a["end"] != b["start"] for a, b in zip(chunks[:-1], chunks[1:])):
            msgs.append("the requested target was delivered with a gap or overlap between chunks")
        if not msgs and [x for c in chunks for x in map(tuple, c["rows"])] != expected_rows(case):
            msgs.append("no exception, but the delivered rows differ from the correct result")
        if bad and r["invoked"] and v != "gap":
            msgs.append(f"the plugin handed back a contract violation ({viol}) and no exception reached the caller")
    return "; ".join(msgs) if msgs else None


VIOLS = ["dtype_bare:type", "dtype_bare:extra", "dtype_bare:name", "dtype_bare:order", "dtype_chunk:type", "dtype_selfchunk:type",
         "dtype_selfchunk:extra", "row_bare:late", "row_bare:early", "row_chunk:late", "row_chunk:early", "label",
         "gap:before", "gap:after", "gap:overlap_before", "gap:overlap_after",
         "non_dict:array", "non_dict:chunk", "non_dict:list", "non_dict:none", "missing_key",
         "bare_from_source", "down_bare", "not_generator"]
# variants of a kind already run at all three positions: one random position is enough in the quick tier
SECONDARY = {"dtype_bare:extra", "dtype_bare:name", "dtype_bare:order", "dtype_selfchunk:extra", "row_chunk:early",
             "non_dict:chunk", "non_dict:list", "non_dict:none"}


def scenario_cases(ctx):
    n = 4
    cases = []
    for kind in KINDS:
        for proc in ("single_thread", "threaded_mailbox"):
            cases.append(dict(kind=kind, viol="none", bad_i=None, processor=proc, target="pp", n=n))
            cases.append(dict(kind=kind, viol="none", bad_i=None, processor=proc, target="down", n=n))
            for viol in VIOLS:
                if not applicable(kind, viol):
                    continue
                positions = (0, ctx.rng.choice([1, 2]), n - 1)
                if viol in SECONDARY and not ctx.thorough:
                    positions = (ctx.rng.choice(positions),)
                for bad_i in positions:
                    cases.append(dict(kind=kind, viol=viol, bad_i=bad_i, processor=proc, target="pp", n=n))
                    if ctx.thorough and bad_i in (1, 2):
                        cases.append(dict(kind=kind, viol=viol, bad_i=3 - bad_i, processor=proc, target="pp", n=n))
                if not viol.startswith("gap") and (ctx.thorough or viol not in SECONDARY):
                    # nothing derived from the offending output may be stored either
                    for bad_i in ((0, 1, n - 1) if ctx.thorough else (ctx.rng.choice([0, 1, 2, n - 1]),)):
                        cases.append(dict(kind=kind, viol=viol, bad_i=bad_i, processor=proc, target="down", n=n))
    return cases


def eager_scenario_cases(ctx):
    """the threaded processor in EAGER mode (allow_lazy=False; max_workers=2) with a fast consumer: every violation kind that is
    raised inside the pipeline (the gap kinds are detected by the consumer and belong to the F3 probe below)"""
    n = 4
    cases = []
    for kind in KINDS:
        for extra in (dict(mode="eager"), dict(max_workers=2)):
            cases.append(dict(kind=kind, viol="none", bad_i=None, processor="threaded_mailbox", target="pp", n=n, **extra))
            for viol in VIOLS:
                if viol.startswith("gap") or not applicable(kind, viol) or (viol in SECONDARY and not ctx.thorough):
                    continue
                for bad_i in ((0, 1, n - 1) if ctx.thorough else (ctx.rng.choice([0, 1, 2, n - 1]),)):
                    tgt = "pp" if ctx.thorough or ctx.rng.random() < 0.7 else "down"
                    cases.append(dict(kind=kind, viol=viol, bad_i=bad_i, processor="threaded_mailbox", target=tgt, n=n, **extra))
    return cases


def eager_cases():
    """reproducer of F3 / D21: eager threaded pipeline (allow_lazy=False, or max_workers=2), consumer slower than the pipeline"""
    out = [dict(kind="source", viol="gap:before", bad_i=b, processor="threaded_mailbox", target="pp", n=4, mode="eager_slow") for b in (1, 2, 3)]
    out += [dict(kind=k, viol=v, bad_i=2, processor="threaded_mailbox", target="pp", n=4, mode="eager_slow", max_workers=2)
            for k, v in (("ordinary", "gap:overlap_before"), ("cut", "gap:after"))]
    # (streams of 4 chunks: they fit into the target's mailbox, max_messages = 4, so the pipeline can drain ahead of the consumer;
    #  a down-chunking plugin's 8 chunks would block the producer on the slow reader instead)
    return out


def impl_eager_probe(case):
    """observable outcome of the F3 / D21 probe, in the form of the model op `c12.processeager`"""
    out = impl_scenario(case)
    r = SCEN_CACHE[case_key(case)]
    head = "ok" if out == "ok" else out
    return f"{head} {'stored' if r['stored'].get('pp') else 'not-stored'}"


def op_eager_probe(case):
    return "c12.processeager " + ",".join(f"{a}:{b}" for a, b in plugin_stream(case))


def branch_scenario(c, o):
    return f"{c['viol'].partition(':')[0]}:{c['kind']}:{'first' if c['bad_i'] == 0 else 'last' if c['bad_i'] == c.get('n', 4) - 1 else 'none' if c['bad_i'] is None else 'middle'}:{o}"


# ----------------------------------------------------------------------------- 8. the saver protocol of the single-thread processor
class RecSaver(strax.Saver):
    """a real strax.Saver (save / close logic of the base class) that records instead of writing"""
    allow_rechunk = False

    def __init__(self, metadata, log):
        super().__init__(metadata)
        self.log = log

    def _save_chunk(self, data, chunk_info, executor=None):
        return dict(), None

    def _save_chunk_metadata(self, chunk_info):
        self.md["chunks"].append(chunk_info)
        self.log.append(("save", int(chunk_info["start"]), int(chunk_info["end"])))

    def _close(self):
        self.log.append(("close", "exception" in self.md))


def run_protocol(script):
    """script: list of [a, b] (an accepted chunk) | "!" (label violation -> ValueError) | "!P" (wrong dtype -> PluginGaveWrongOutput)"""
    log = []

    class Scripted(strax.Plugin):
        provides = "pp"
        depends_on = ()
        dtype = DT
        data_kind = "pk"
        rechunk_on_save = False

        def source_finished(self):
            return True

        def is_ready(self, chunk_i):
            return chunk_i < len(script)

        def compute(self, chunk_i):
            it = script[chunk_i]
            if it == "!":
                return strax.Chunk(start=0, end=1, data=np.zeros(0, DT), dtype=DT, data_type="zzz", data_kind="pk", run_id="r0")
            if it == "!P":
                w = wrong_variants(DT)["type"]
                return strax.Chunk(start=0, end=1, data=np.zeros(0, w), dtype=w, data_type="pp", data_kind="pk", run_id="r0")
            return self.chunk(start=it[0], end=it[1], data=np.zeros(0, DT))

    st = strax.Context(storage=[], register=[Scripted], allow_multiprocess=False)
    orig = st.get_components

    def get_components(*a, **k):
        comps = orig(*a, **k)
        return comps._replace(savers={"pp": [RecSaver(comps.plugins["pp"].metadata("r0", "pp"), log)]})
    st.get_components = get_components
    delivered = 0
    err = None
    sink = io.StringIO()
    with warnings.catch_warnings(), contextlib.redirect_stdout(sink), contextlib.redirect_stderr(sink):
        warnings.simplefilter("ignore")
        try:
            for _ in st.get_iter("r0", "pp", processor="single_thread", progress_bar=False):
                delivered += 1
        except Exception as e:  # noqa: BLE001
            err = sl.err_name(e)
    saves = [x for x in log if x[0] == "save"]
    closes = [x for x in log if x[0] == "close"]
    visible = len(closes) == 1 and closes[0][1] is False
    return delivered, err, saves, closes, visible


def impl_protocol(case):
    delivered, err, saves, closes, visible = run_protocol(case["script"])
    if len(closes) > 1:
        return "saver closed more than once"
    vis = "stored" if visible else "not-stored"
    head = f"ok {delivered}" if err is None else f"err {err} after {delivered}"
    return f"{head} {vis} written={len(saves)} closed={len(closes)}"


def op_protocol(case):
    return "c12.process " + ",".join(it if isinstance(it, str) else f"{it[0]}:{it[1]}" for it in case["script"])


def oracle_protocol(case, out):
    script = case["script"]
    first_bad = next((i for i, it in enumerate(script) if isinstance(it, str)), None)
    first_break = next((i + 1 for i in range(len(script) - 1)
                        if not isinstance(script[i], str) and not isinstance(script[i + 1], str) and script[i][1] != script[i + 1][0]), None)
    offending = min([x for x in (first_bad, first_break) if x is not None], default=None)
    if out.startswith("saver closed"):
        return out
    ok = out.startswith("ok")
    if offending is not None:
        if ok:
            return "an offending output did not stop processing with an exception"
        if " stored " in out:
            return "processing stopped with an exception but the saver was closed as valid"
        if int(out.split(" ")[3]) > offending:
            return "the offending chunk (or a later one) was handed to the user"
    else:
        if not ok or " not-stored " in out:
            return f"a well-behaved stream was refused or not stored: {out}"
    return None


def protocol_cases(ctx):
    rng = ctx.rng
    ivs = [[a, b] for a, b in gen.intervals(0, 2, True)]
    syms = ivs + ["!", "!P"]
    cases = [dict(script=list(c)) for n in (1, 2, 3) for c in itertools.product(syms, repeat=n)]
    four = [dict(script=list(c)) for c in itertools.product(syms, repeat=4)]
    cases += four if ctx.thorough else rng.sample(four, 1200)
    # longer, mostly contiguous streams with at most one defect
    for _ in range(ctx.pick(400, 3000)):
        t, script = rng.randint(0, 3), []
        for _ in range(rng.randint(1, 7)):
            e = t + rng.randint(0, 3)
            script.append([t, e])
            t = e
        r = rng.random()
        if r < 0.3:
            script[rng.randrange(len(script))] = rng.choice(["!", "!P"])
        elif r < 0.6 and len(script) > 1:
            i = rng.randrange(1, len(script))
            d = rng.choice([-1, 1])
            script[i] = [max(0, script[i][0] + d), max(script[i][1], script[i][0] + d, 0)]
        cases.append(dict(script=script))
    return cases


# ----------------------------------------------------------------------------- run
def run(ctx):
    rng = ctx.rng
    cut_dtype()

    ex, rnd, big = chunk_cases(ctx)
    ctx.correspond("chunk_init/exhaustive", ex, impl_chunk, op_chunk, oracle_chunk, exhaustive=True,
                   nontrivial=lambda c, o: len(c["rows"]) >= 1,
                   rule="every time-sorted list of <= 3 rows (zero-duration allowed) on a small grid x every start x every end, plus every "
                        "out-of-order pair; non-trivial = at least one row",
                   branch=lambda c, o: ("inside" if all(c["start"] <= t and e <= c["end"] for t, e, _ in c["rows"]) else "outside") + ":" + o.split(" ")[0])
    ctx.correspond("chunk_init/random", rnd, impl_chunk, op_chunk, oracle_chunk,
                   nontrivial=lambda c, o: True,
                   rule="random chunks over 3 declared dtypes x data dtype equal up to titles / differing in one field (extra, dropped, type, "
                        "name, order, sub-array shape) / None / not an array; rows inside or sticking out early/late; negative start, "
                        "start > end; run annotations",
                   branch=lambda c, o: (c["data"].split("/")[-1] if "/" in c["data"] else c["data"]) + ":" + o.split(" ")[0])
    ctx.correspond("chunk_init/500-window", big, impl_chunk, op_chunk, oracle_chunk, nontrivial=lambda c, o: True,
                   rule="arrays of 499..1001 sorted rows with one row ending late at an index around len-500: only the last 500 rows are inspected",
                   branch=lambda c, o: ("<=500" if len(c["rows"]) <= 500 else ">500") + ":" + o.split(" ")[0])

    cases = []
    for _ in range(ctx.pick(4000, 20000)):
        kind = rng.choice(["ordinary", "multi", "loop", "overlap", "down"])
        enc = rng.choice(["end", "len", "arr"])
        plugin = dict(kind=kind, enc=enc)
        d = rng.choice(["pp", "pp", "qq", None, "zzz"])
        x = gen_value(rng, enc, 0, 10, for_qq=(d == "qq" and kind == "multi"))
        if x["t"] == "chunk":
            x = dict(t="array", dt=x["dt"], rows=x["rows"])
        cases.append(dict(plugin=plugin, d=d, x=x))
    ctx.correspond("check_dtype", cases, impl_checkdtype, op_checkdtype, oracle_checkdtype, nontrivial=lambda c, o: c["x"]["t"] == "array",
                   rule="real plugin instances (single / multi-output; base, loop, overlap, down-chunking classes) x 3 declared dtypes x "
                        "values: arrays equal up to titles or differing in one field, None, sequences, column dicts, plain arrays; "
                        "data type given, omitted, or not provided",
                   branch=lambda c, o: c["x"]["t"] + ":" + (c["x"].get("dt", "")[:1]) + ":" + o)

    fcases = gen_fix_cases(ctx, ctx.pick(15000, 80000))
    ctx.correspond("fix_output", fcases, impl_fix, op_fix, oracle_fix, nontrivial=lambda c, o: True,
                   rule="real plugin instances of kinds source/ordinary/multi-output/loop/cut/overlap-window x results: array / chunk "
                        "(own label, own dtype, own range) / column dict / None / sequence / plain array / dict of these, mostly valid "
                        "with one defect; superrun and subruns annotations incl. superrun run ids",
                   branch=lambda c, o: c["plugin"]["kind"] + ":" + c["result"]["t"] + ":" + " ".join(o.split(" ")[:2 if o.startswith("err") else 1]))
    dcases = gen_down_cases(ctx, ctx.pick(8000, 40000))
    ctx.check_oracle("fix_output/history", gen_history_cases(ctx, ctx.pick(1500, 8000)), impl_history, oracle_history)
    ctx.correspond("fix_output_down", dcases, impl_fixdown, op_fixdown, oracle_fixdown, nontrivial=lambda c, o: bool(c["items"]),
                   rule="real DownChunkingPlugin instances (single / multi-output) x generators of 0..4 items: chunks with right / wrong "
                        "label, right / wrong dtype, dicts with missing / extra keys, non-chunks; or no generator at all; compared: what "
                        "was yielded before the error, and the error kind",
                   branch=lambda c, o: c["plugin"]["kind"] + ":" + " ".join(o.split(" ")[:2 if o.startswith("ok") else 4]))

    ex, rnd = stream_cases(ctx)
    ctx.correspond("continuity/exhaustive", ex, impl_stream, op_stream, oracle_stream, exhaustive=True, nontrivial=lambda c, o: len(c["chunks"]) >= 2,
                   rule="every sequence of <= 3 chunks with boundaries on grid 0..3 (same run)",
                   branch=lambda c, o: " ".join(o.split(" ")[:2]))
    ctx.correspond("continuity/random", rnd, impl_stream, op_stream, oracle_stream, nontrivial=lambda c, o: len(c["chunks"]) >= 2,
                   rule="random streams of 1..6 chunks, 20 % of boundaries broken by -1/+1/+2, run id changes, superrun chunks with subruns",
                   branch=lambda c, o: " ".join(o.split(" ")[:2]))

    ctx.correspond("fix_dtype", fixdtype_cases(), impl_fixdtype, op_fixdtype, oracle_fixdtype, exhaustive=True, nontrivial=lambda c, o: True,
                   rule="every subset of {time, endtime, dt, length, area} as single-output dtype; multi-output with dict / non-dict dtype "
                        "and data_kind, a missing entry, no dtype at all",
                   branch=lambda c, o: ("multi" if c["multi"] else "single") + ":" + o)

    scases = scenario_cases(ctx)
    ctx.correspond("pipeline", scases, impl_scenario, op_scenario, oracle_scenario, model_post=model_post_scenario,
                   nontrivial=lambda c, o: c["bad_i"] is not None,
                   rule="violation kind x plugin kind (source, ordinary, multi-output, down-chunking, loop, cut, overlap-window; only "
                        "applicable pairs) x position of the offending chunk (first / middle / last of 4) x processor (single_thread, "
                        "threaded_mailbox) x target (the plugin's output, or a plugin derived from it) on a real Context with a fresh "
                        "DataDirectory; plus the well-behaved pipeline of every kind",
                   branch=branch_scenario, max_samples=6)
    ctx.correspond("pipeline/eager", eager_scenario_cases(ctx), impl_scenario, op_scenario, oracle_scenario, model_post=model_post_scenario,
                   nontrivial=lambda c, o: c["bad_i"] is not None,
                   rule="threaded_mailbox in EAGER mode — allow_lazy=False, and max_workers=2 — with a fast consumer: every violation kind "
                        "raised inside the pipeline x plugin kind, one random position, target = the output or a derived plugin; "
                        "stored is evaluated after get_iter returned (threads joined, executors shut down)",
                   branch=lambda c, o: ("mw2" if c.get("max_workers") else "nolazy") + ":" + branch_scenario(c, o))
    pcs = protocol_cases(ctx)
    ctx.correspond("saver_protocol", pcs, impl_protocol, op_protocol, oracle_protocol, exhaustive=True,
                   nontrivial=lambda c, o: len(c["script"]) >= 2,
                   rule="tie of Contract.process: a scripted source (accepted chunks [a,b) on grid 0..2, or outputs rejected by _fix_output with "
                        "ValueError / PluginGaveWrongOutput) run through the real Context.get_iter + SingleThreadProcessor with a recording "
                        "strax.Saver: compared = chunks delivered, error kind, number of save calls, saver closed (once) and whether an exception was recorded; "
                        "all scripts of <= 3 outputs, a sample of those with 4, and longer mostly contiguous streams with at most one defect",
                   branch=lambda c, o: " ".join(o.split(" ")[:2]) + ":" + o.split(" ")[-3])
    ctx.correspond("pipeline/eager-slow-consumer", eager_cases(), impl_eager_probe, op_eager_probe, oracle_scenario, nontrivial=lambda c, o: True,
                   rule="F3 / D21 probe and tie of Contract.processEager: gap or overlap in the target, threaded_mailbox with allow_lazy=False "
                        "or max_workers=2, the consumer takes its second chunk only after the pipeline has drained (target directory renamed); "
                        "compared with the model: error kind and whether the target is visible in storage", branch=branch_scenario)
    run_epoch(ctx)


def run_epoch(ctx):
    """the same functions with every time shifted by T0 (epoch-scale ns): integer decisions must not depend on the magnitude"""
    rng = ctx.rng
    ex, rnd, big = chunk_cases(ctx)
    sub = [c for c in ex if len(c["rows"]) <= 2] + rng.sample(ex, min(len(ex), ctx.pick(3000, 12000)))
    cases = [shift_chunk_case(c) for c in sub + rnd[: ctx.pick(1500, 8000)] + big[: ctx.pick(30, 200)]]
    ctx.correspond("epoch/chunk_init", cases, impl_chunk, op_chunk, oracle_chunk, nontrivial=lambda c, o: len(c["rows"]) >= 1,
                   rule=f"chunk_init cases (all exhaustive ones with <= 2 rows, a sample of the others, random, 500-window) with start, end "
                        f"and every row shifted by T0 = {T0}; rows stick out by 1..2 ns, which float64 cannot resolve there",
                   branch=lambda c, o: ("inside" if all(c["start"] <= t and e <= c["end"] for t, e, _ in c["rows"]) else "outside") + ":" + o.split(" ")[0])
    sex, _ = stream_cases_exhaustive_only()
    scases = [dict(chunks=[[a + T0, b + T0, rid, s] for a, b, rid, s in c["chunks"]]) for c in sex] + random_streams(rng, ctx.pick(2000, 10000), T0)
    ctx.correspond("epoch/continuity", scases, impl_stream, op_stream, oracle_stream, nontrivial=lambda c, o: len(c["chunks"]) >= 2,
                   rule="the exhaustive continuity streams and random ones (run changes, superrun chunks) shifted by T0: breaks of 1 ns",
                   branch=lambda c, o: " ".join(o.split(" ")[:2]))
    fcases = gen_fix_cases(ctx, ctx.pick(2500, 12000), t0=T0)
    ctx.correspond("epoch/fix_output", fcases, impl_fix, op_fix, oracle_fix, nontrivial=lambda c, o: True,
                   rule="fix_output cases generated around T0 (ranges, rows, column dicts, chunks)",
                   branch=lambda c, o: c["plugin"]["kind"] + ":" + c["result"]["t"] + ":" + " ".join(o.split(" ")[:2 if o.startswith("err") else 1]))
    pcases = []
    for kind in KINDS:
        for proc in ("single_thread", "threaded_mailbox"):
            pcases.append(dict(kind=kind, viol="none", bad_i=None, processor=proc, target="pp", n=4, t0=T0))
            for viol in ("row_bare:late", "row_bare:early", "row_chunk:late", "gap:before", "gap:after", "gap:overlap_after"):
                if applicable(kind, viol):
                    pcases.append(dict(kind=kind, viol=viol, bad_i=rng.choice([1, 2]), processor=proc, target="pp", n=4, t0=T0))
    ctx.correspond("epoch/pipeline", pcases, impl_scenario, op_scenario, oracle_scenario, model_post=model_post_scenario,
                   nontrivial=lambda c, o: c["bad_i"] is not None,
                   rule="pipeline scenarios whose run starts at T0: rows 1 ns outside their chunk, 1 ns gaps / overlaps in the target, "
                        "every plugin kind, both processors, plus the well-behaved pipeline",
                   branch=branch_scenario)


def stream_cases_exhaustive_only():
    grid = 3
    ivs = gen.intervals(0, grid, True)
    ex = []
    for n in range(0, 4):
        for combo in itertools.product(ivs, repeat=n):
            ex.append(dict(chunks=[[a, b, "r", "-"] for a, b in combo]))
    return ex, None


def search(ctx):
    """an obligation broke: hunt with the oracles only, deeper"""
    ctx.check_oracle("search/fix_output", gen_fix_cases(ctx, 20000), impl_fix, oracle_fix)
    ctx.check_oracle("search/fix_output_down", gen_down_cases(ctx, 8000), impl_fixdown, oracle_fixdown)
    ex, rnd, big = chunk_cases(ctx)
    ctx.check_oracle("search/chunk_init", rnd + big, impl_chunk, oracle_chunk)


REPLAYERS = {
    "chunk_init": (impl_chunk, oracle_chunk), "check_dtype": (impl_checkdtype, oracle_checkdtype), "fix_output": (impl_fix, oracle_fix),
    "fix_output_down": (impl_fixdown, oracle_fixdown), "continuity": (impl_stream, oracle_stream), "fix_dtype": (impl_fixdtype, oracle_fixdtype),
    "pipeline": (impl_scenario, oracle_scenario), "saver_protocol": (impl_protocol, oracle_protocol),
}
EPOCH_ALIAS = {"chunk_init": "chunk_init", "continuity": "continuity", "fix_output": "fix_output", "pipeline": "pipeline"}


def replay(ctx, body):
    comp = body["component"].split("/")
    name = comp[0] if comp[0] not in ("search", "epoch") else EPOCH_ALIAS.get(comp[1], comp[1])
    impl, oracle = REPLAYERS.get(name, (None, None))
    if impl is None or body.get("case") is None:
        return f"obligation {body['component']} has no input to replay (no-failing-input-found); re-run the check"
    cut_dtype()
    case = body["case"]["case"]
    out = impl(case)
    print("implementation output:", out)
    return oracle(case, out) if oracle else None
