"""C02 — stored data is reused only under an identical lineage (no stale reads).

Model: lean/StraxModel/Model/Lineage.lean; theorems: Props/C02.lean (lemmas in Lemmas/Lineage*.lean).
Tie: random, directed and enumerated *histories* (set_config / register / new_context / set fuzzy options /
lineage / is_stored / make / get_array, each issued to one of two real contexts that share one
DataDirectory; single- and multi-output, child and default-less-option plugin classes) are executed on the real
strax.Context and on the compiled Lean state machine; every step's observable is compared: the exact JSON text
fed to SHA-1 for a lineage, is_stored, the error kind, the provenance of the rows get_array returned, and the
directory listing.  On their own: `json.dumps(hashablize(v))` vs `canonString (canon v)` (hash/json-text),
`StorageFrontend._matches` vs `fuzzyMatches .textEq` (fuzzy/matches), equality of auto-inferred versions vs
`autoVersion` (autoversion/version).
Oracle (independent of the model): a brand-new context with the same settings on an empty directory
returns rows of the same provenance; a tracked change / version bump / class change alters exactly the
keys of the plugin's outputs and their descendants, an untracked change alters none; lineage() of a context
changes only through set_config / register / new_context; fuzzy matching accepts exactly the lineages that
differ only in the named parts, writes nothing, and leaves no trace once switched off; editing the code of a
`__version__ = None` plugin changes its key; hashes are identical in subprocesses with other PYTHONHASHSEEDs
and permuted insertion orders.

Provenance of rows: every harness plugin writes into each of its output rows the index of a table entry that
describes what it *really* used at compute time (class name, version, effective values of its tracked
options, provenance of its input rows) — independent of strax's own lineage bookkeeping.
"""
from __future__ import annotations

import base64
import contextlib
import hashlib
import io
import json
import logging
import os
import shutil
import subprocess
import sys
import tempfile

from lib import straxlib as sl          # must be the first import of strax (private numba cache)
from lib.straxlib import strax

import numpy as np                       # noqa: E402
from immutabledict import immutabledict  # noqa: E402

ID = "C02"
LEAN_MODULES = ["StraxModel.Props.C02", "StraxModel.Props.C02Gates"]
TRUSTED = [
    "SHA-1 + base32 truncation (`deterministic_hash`) is represented by an abstract injective function H; the check compares the text fed to it",
    "modelled not verified: CPython dict/set semantics, json.dumps formatting (incl. float repr, taken from Python as a plain decimal), "
    "numpy scalar/array conversion in NumpyJSONEncoder, inspect.getsource (auto-inferred versions: the harness sends a digest of each attribute's source)",
    "the JSON printer of the model is proved injective (json_text_injective), so nothing but injectivity of H is assumed about the hash",
]
ASSUMPTIONS = [
    "scope of the model, hence of EVERY theorem (stated once; no theorem name repeats it): two contexts on ONE DataDirectory frontend, one run id, "
    "save_when = ALWAYS for every output, set_config in mode update, new_context() without arguments, no per-run defaults, no superruns; "
    "plugin graphs with single- and multi-output plugins, child plugins, tracked / untracked / shared / default-less options are inside",
    "option values: int (unbounded), str, bool, None, float with a plain-decimal repr, tuple, list, dict with str keys, set of str "
    "(plus immutabledict / numpy scalars and arrays in the hash-only part); 'the same value' always means the same under hashablize (tuple = list, {} = ())",
    "class identity is structural: the harness builds one class object per distinct class description",
    "use_per_run_defaults is off (with it strax does not cache plugins at all)",
    "A-untracked: untracked options do not influence results — provenance (model `prov`, harness rows) records tracked options only; "
    "this is what reconciles 'returns what a brand-new context would compute' with 'an untracked option changes no key'",
    "A-O4: when a brand-new context cannot compute the data because a required option has neither value nor default "
    "(strax.InvalidConfiguration 'Missing option'), rows loaded from a shared directory are not counted as stale; any other failure of the fresh context is",
    "Python `==` of defaults in register's conflict check is modelled structurally (True != 1, 1.0 != 1); the harness never shares such defaults between classes",
]

RUN = "0"
logging.getLogger("strax").setLevel(logging.CRITICAL)

_ROOT = tempfile.mkdtemp(prefix="verif_c02_")

# ----------------------------------------------------------------------------- step 0: translator (round 5)
def translate_lineage_gates():
    """Scalar / structural decisions of the lineage, context-hash and fuzzy-matching code, read off the AST of the current source:
    which options enter a lineage entry (`__add_lineage_to_plugin`), what `_context_hash` hashes, which parts `_filter_lineage`
    drops and how `_matches` compares.  Returns dict name -> Lean body.  (AST helpers shared with c11.py.)"""
    import ast
    from lib.engine import REPO
    from props import c11 as T
    U = T.Untranslatable
    ctree = ast.parse((REPO / "strax" / "context.py").read_text())
    stree = ast.parse((REPO / "strax" / "storage" / "common.py").read_text())
    out = {}

    # Context.__add_lineage_to_plugin
    fn = T._func(ctree, "__add_lineage_to_plugin")
    top = [s for s in fn.body if isinstance(s, ast.If) and T._same_ast(s.test, "plugin.child_plugin")]
    if len(top) != 1 or not top[0].orelse:
        raise U("__add_lineage_to_plugin has no `if plugin.child_plugin: ... else: ...`")
    child, plain = top[0].body, top[0].orelse
    po = next((s for s in child if isinstance(s, ast.Assign) and isinstance(s.targets[0], ast.Name) and s.targets[0].id == "parent_options"), None)
    if po is None or not T._same_ast(po.value, "[option.parent_option_name for option in plugin.takes_config.values() if option.child_option]"):
        raise U("parent_options is not the list of parent_option_name of the child options")
    loops = [s for s in child if isinstance(s, ast.For)]
    if len(loops) != 2 or not T._same_ast(loops[0].iter, "plugin.config.items()") or ast.unparse(loops[0].target) != "(option_name, v)":
        raise U("child branch is not `for option_name, v in plugin.config.items()` followed by the loop over the bases")
    if not (T._same_ast(loops[1].iter, "plugin.__class__.__bases__") and len(loops[1].body) == 1
            and T._same_ast(loops[1].body[0], "configs[parent_class.__name__] = parent_class.version()", "exec")):
        raise U("the loop over __bases__ does not add `configs[parent_class.__name__] = parent_class.version()`")
    atoms = {"option_name in parent_options": "isParentOption", "option_name not in parent_options": "(!isParentOption)",
             "plugin.takes_config[option_name].track": "tracked"}
    keep_child = T._gate_block(list(loops[0].body), atoms, cont="false", end="false",
                               stop=lambda s: "true" if T._same_ast(s, "configs[option_name] = v", "exec") else None)
    if not (len(plain) == 1 and isinstance(plain[0], ast.Assign) and isinstance(plain[0].value, ast.DictComp)):
        raise U("the non-child branch is not one dict comprehension")
    dc = plain[0].value
    g = dc.generators
    if not (len(g) == 1 and T._same_ast(g[0].iter, "plugin.config.items()") and ast.unparse(g[0].target) == "(option, setting)"
            and T._same_ast(dc.key, "option") and T._same_ast(dc.value, "setting") and len(g[0].ifs) == 1):
        raise U("the non-child branch is not `{option: setting for option, setting in plugin.config.items() if ...}`")
    keep_plain = T._gate_expr(g[0].ifs[0], {"plugin.takes_config[option].track": "tracked"}, {})
    lin = next((s for s in fn.body if isinstance(s, ast.Assign) and ast.unparse(s.targets[0]) == "plugin.lineage"), None)
    if lin is None or not T._same_ast(lin.value, "{last_provide: (plugin.__class__.__name__, plugin.version(), configs)}"):
        raise U("plugin.lineage is not {last_provide: (class name, version, configs)}")
    out["lineageKeeps"] = f"(if child then {keep_child} else {keep_plain})"

    # Context._context_hash
    fn = T._func(ctree, "_context_hash")
    ret = next((s for s in fn.body if isinstance(s, ast.Return)), None)
    reg = next((s for s in fn.body if isinstance(s, ast.Assign) and ast.unparse(s.targets[0]) == "_base_hash_on_plugins"), None)
    cfg = next((s for s in fn.body if isinstance(s, ast.Assign) and ast.unparse(s.targets[0]) == "_base_hash_on_config"), None)
    if ret is None or cfg is None or not T._same_ast(cfg.value, "deepcopy(self.config)"):
        raise U("_context_hash does not start from deepcopy(self.config)")
    updates = [n for n in ast.walk(fn) if isinstance(n, ast.Call) and ast.unparse(n.func) == "_base_hash_on_config.update"]
    if reg is not None and not updates and T._same_ast(ret.value, "strax.deterministic_hash((_base_hash_on_config, _base_hash_on_plugins))"):
        pair, comp = True, reg.value
    elif reg is None and len(updates) == 1 and T._same_ast(ret.value, "strax.deterministic_hash(_base_hash_on_config)"):
        pair, comp = False, updates[0].args[0]
    else:
        raise U("_context_hash hashes neither the pair (config, registry part) nor the merged dict")
    if not (isinstance(comp, ast.DictComp) and len(comp.generators) == 1 and T._same_ast(comp.key, "data_type")
            and T._same_ast(comp.generators[0].iter, "self._plugin_class_registry.items()")
            and ast.unparse(comp.generators[0].target) == "(data_type, plugin)" and isinstance(comp.value, ast.Tuple)):
        raise U("registry part of _context_hash is not {data_type: (...) for data_type, plugin in self._plugin_class_registry.items()}")
    fields = {"plugin.version()": ".str cls.version", "plugin.compressor": ".str cls.compressor", "plugin.input_timeout": ".int cls.inputTimeout"}
    elts = []
    for e in comp.value.elts:
        src = ast.unparse(e)
        if src not in fields:
            raise U(f"registry part of _context_hash contains {src}")
        elts.append(fields[src])
    out["registryHashEntry"] = ".seq true [" + ", ".join(elts) + "]"
    ifs = comp.generators[0].ifs
    out["hashKeepsType"] = "true" if not ifs else "(" + " && ".join(
        T._gate_expr(i, {"data_type.startswith(TEMP_DATA_TYPE_PREFIX)": "isTemp"}, {}) for i in ifs) + ")"

    # StorageFrontend._filter_lineage / _matches
    fn = T._func(stree, "_filter_lineage")
    ret = next((s for s in fn.body if isinstance(s, ast.Return)), None)
    outer = ret.value if ret is not None else None
    if not (isinstance(outer, ast.DictComp) and T._same_ast(outer.key, "data_type") and len(outer.generators) == 1
            and T._same_ast(outer.generators[0].iter, "lineage.items()") and isinstance(outer.value, ast.Tuple) and len(outer.value.elts) == 3
            and T._same_ast(outer.value.elts[0], "v[0]") and T._same_ast(outer.value.elts[1], "v[1]")
            and isinstance(outer.value.elts[2], ast.DictComp)):
        raise U("_filter_lineage is not {data_type: (v[0], v[1], {...}) for data_type, v in lineage.items() if ...}")
    inner = outer.value.elts[2]
    if not (len(inner.generators) == 1 and T._same_ast(inner.generators[0].iter, "v[2].items()") and T._same_ast(inner.key, "option_name")
            and ast.unparse(inner.generators[0].target) == f"(option_name, {ast.unparse(inner.value)})"):
        raise U("inner comprehension of _filter_lineage is not {option_name: b for option_name, b in v[2].items() if ...}")
    conj = lambda ifs, atoms: "true" if not ifs else "(" + " && ".join(T._gate_expr(i, atoms, {}) for i in ifs) + ")"  # noqa: E731
    out["filterKeepsType"] = conj(outer.generators[0].ifs, {"data_type in fuzzy_for": "inFuzzyFor", "data_type not in fuzzy_for": "(!inFuzzyFor)"})
    out["filterKeepsOption"] = conj(inner.generators[0].ifs, {"option_name in fuzzy_for_options": "inFuzzyOpts",
                                                              "option_name not in fuzzy_for_options": "(!inFuzzyOpts)"})
    fn = T._func(stree, "_matches")
    body = [s for s in fn.body if not (isinstance(s, ast.Expr) and isinstance(s.value, ast.Constant))]
    if not (body and isinstance(body[0], ast.If) and len(body[0].body) == 1 and T._same_ast(body[0].body[0], "return lineage == desired_lineage", "exec")
            and not body[0].orelse):
        raise U("_matches does not start with `if <not fuzzy>: return lineage == desired_lineage`")
    out["matchesExactMode"] = T._gate_expr(body[0].test, {"fuzzy_for": "fuzzyForGiven", "fuzzy_for_options": "fuzzyOptsGiven"}, {})
    rest = [s for s in body[1:] if not (isinstance(s, ast.Assign) and ast.unparse(s) == "args = [fuzzy_for, fuzzy_for_options]")]
    if len(rest) != 1 or not isinstance(rest[0], ast.Return):
        raise U("fuzzy branch of _matches is not one return")
    src = ast.unparse(rest[0].value)
    f1, f2 = "self._filter_lineage(lineage, *args)", "self._filter_lineage(desired_lineage, *args)"
    rule = {f"strax.deterministic_hash({f1}) == strax.deterministic_hash({f2})": ".textEq",
            f"strax.hashablize({f1}) == strax.hashablize({f2})": ".pyEqCanon",
            f"{f1} == {f2}": ".pyEqVals"}.get(src)
    if rule is None:
        raise U("comparison of the fuzzy branch of _matches: " + src[:100])
    out["rules"] = f"{{ Rules.fixed with pairHash := {str(pair).lower()}, matchRule := {rule} }}"
    return out


LINEAGE_GATE_SIGS = [
    ("lineageKeeps", "(child isParentOption tracked : Bool) : Bool",
     "Context.__add_lineage_to_plugin: does an entry of plugin.config go into the `configs` of the lineage entry"),
    ("registryHashEntry", "(cls : PluginClass) : Val", "Context._context_hash: what is hashed per registered data type"),
    ("hashKeepsType", "(isTemp : Bool) : Bool", "Context._context_hash: which registered data types are hashed"),
    ("filterKeepsType", "(inFuzzyFor : Bool) : Bool", "StorageFrontend._filter_lineage: lineage entries kept"),
    ("filterKeepsOption", "(inFuzzyOpts : Bool) : Bool", "StorageFrontend._filter_lineage: options kept inside an entry"),
    ("matchesExactMode", "(fuzzyForGiven fuzzyOptsGiven : Bool) : Bool", "StorageFrontend._matches: plain `==` of the lineages is used"),
    ("rules", ": Rules", "what _context_hash hashes (pair vs merged dict) and how fuzzy _matches compares; resetOnReplace is not read from the source"),
]


def regen(ctx):
    from lib.engine import LEAN
    from props import c11 as T
    out = LEAN / "StraxModel" / "Generated" / "LineageGates.lean"
    try:
        bodies = translate_lineage_gates()
    except (T.Untranslatable, SyntaxError, OSError, AttributeError) as e:
        ctx.translator["lineage.gates"] = f"untranslatable: {e}"
        ctx.note(f"translator could not handle the lineage / context-hash / fuzzy decisions ({e}); Generated/LineageGates.lean is the PREVIOUS translation")
        ctx.violation("translator:lineage_gates", "translator", None, {"reason": str(e)},
                      "translator regenerates Generated/LineageGates.lean (lineageKeeps, registryHashEntry, hashKeepsType, filterKeepsType, "
                      "filterKeepsOption, matchesExactMode, rules) from __add_lineage_to_plugin, _context_hash, _filter_lineage, _matches", False)
        return
    ctx.translator["lineage.gates"] = "ok"
    text = ("-- GENERATED by checks/props/c02.py:regen from /repo/strax/context.py (Context.__add_lineage_to_plugin, _context_hash) and\n"
            "-- /repo/strax/storage/common.py (StorageFrontend._filter_lineage, _matches). Do not edit.\n"
            "import StraxModel.Model.Lineage\n"
            "namespace Strax.Generated.LineageGates\n"
            "open Strax Strax.Lineage\n\n"
            + "".join(f"/-- {doc} -/\ndef {name} {sig} :=\n  {bodies[name]}\n\n" for name, sig, doc in LINEAGE_GATE_SIGS)
            + "end Strax.Generated.LineageGates\n")
    if not out.exists() or out.read_text() != text:
        out.write_text(text)


import atexit  # noqa: E402

_PID = os.getpid()
atexit.register(lambda: shutil.rmtree(_ROOT, ignore_errors=True) if os.getpid() == _PID else None)


def _tmpdir():
    return tempfile.mkdtemp(dir=_ROOT)


# ----------------------------------------------------------------------------- value language
# JSON-able description of a Python value: int | str | ["t", [..]] tuple | ["l", [..]] list |
# ["d", [[k, v], ..]] dict (insertion order) | ["D", ..] immutabledict | ["S", [str..]] set (listed
# order irrelevant) | ["F", ..] frozenset | ["ni", int] numpy int64 | ["na", [ints]] numpy array |
# ["b", 0/1] bool | ["N", 0] None | ["fl", "<repr>"] float (plain decimal repr)
def build(v):
    if isinstance(v, (int, str)):
        return v
    t, x = v
    if t == "b":
        return bool(x)
    if t == "N":
        return None
    if t == "fl":
        return float(x)
    if t == "t":
        return tuple(build(a) for a in x)
    if t == "l":
        return [build(a) for a in x]
    if t == "d":
        return {k: build(a) for k, a in x}
    if t == "D":
        return immutabledict({k: build(a) for k, a in x})
    if t == "S":
        return set(x)
    if t == "F":
        return frozenset(x)
    if t == "ni":
        return np.int64(x)
    if t == "na":
        return np.array(x, dtype=np.int64)
    raise ValueError(v)


def tok_s(s):
    assert " " not in s and "\n" not in s, s
    return "~" + s


def enc_py(o):
    """driver tokens of a real Python value (sets in their *iteration* order)"""
    if isinstance(o, bool):
        return f"b {int(o)}"
    if o is None:
        return "n"
    if isinstance(o, float):
        r = repr(o)
        if "e" in r or "n" in r or "." not in r:       # exponent form, inf, nan: outside the model
            raise TypeError("float outside the modelled range")
        neg = r.startswith("-")
        ip, frac = r.lstrip("-").split(".")
        return " ".join([f"f {int(neg)} {int(ip)} {len(frac)}"] + list(frac))
    if isinstance(o, np.bool_):
        raise TypeError("numpy bool not in the model")
    if isinstance(o, (int, np.integer)):
        return f"i {int(o)}"
    if isinstance(o, str):
        return "s " + tok_s(o)
    if isinstance(o, tuple):
        return " ".join([f"t {len(o)}"] + [enc_py(a) for a in o])
    if isinstance(o, list):
        return " ".join([f"l {len(o)}"] + [enc_py(a) for a in o])
    if isinstance(o, np.ndarray):
        return enc_py(o.tolist())
    if isinstance(o, (dict, immutabledict)):
        return " ".join([f"d {len(o)}"] + [tok_s(k) + " " + enc_py(a) for k, a in o.items()])
    if isinstance(o, (set, frozenset)):
        return " ".join([f"S {len(o)}"] + [tok_s(a) for a in o])
    raise TypeError(type(o))


def enc(v):
    return enc_py(build(v))


def canon_json(o):
    """the harness's own rendering of `json.dumps(hashablize(o))` (independent re-implementation)"""
    def c(o):
        if isinstance(o, (dict, immutabledict)):
            return [[k, c(o[k])] for k in sorted(o)]
        if isinstance(o, (tuple, list)):
            return [c(a) for a in o]
        if isinstance(o, np.ndarray):
            return c(o.tolist())
        if isinstance(o, (set, frozenset)):
            return sorted(c(a) for a in o)
        if isinstance(o, (np.integer,)):
            return int(o)
        return o
    return json.dumps(c(o))


def strax_json(o):
    """exactly what deterministic_hash feeds to SHA-1"""
    return json.dumps(strax.hashablize(o), cls=strax.utils.NumpyJSONEncoder)


def sha_b32(text, length=10):
    return base64.b32encode(hashlib.sha1(text.encode("ascii")).digest())[:length].decode("ascii").lower()


# ----------------------------------------------------------------------------- harness plugin classes
PROV_DTYPE = strax.time_fields + [(("Index into the provenance table", "prov"), np.int64)]
PROV_DTYPE_NP = strax.to_numpy_dtype(PROV_DTYPE)
PROV_TABLE: list = []      # index -> lineage-shaped dict of what was really used
PROV_INDEX: dict = {}      # canon_json -> index


def _prov_id(prov):
    key = canon_json(prov)
    if key not in PROV_INDEX:
        PROV_INDEX[key] = len(PROV_TABLE)
        PROV_TABLE.append(prov)
    return PROV_INDEX[key]


def _provenance(self, inputs):
    cls = type(self)
    tc = cls.takes_config
    if cls.child_plugin:
        parent_opts = [o.parent_option_name for o in tc.values() if o.child_option]
        cfg = {}
        for k, o in tc.items():
            if k in parent_opts or not o.track:
                continue
            # a child option is read by the parent's code under the parent's name
            cfg[k] = self.config[o.parent_option_name] if o.child_option else self.config[k]
        for b in cls.__bases__:
            cfg[b.__name__] = b.version()
    else:
        cfg = {k: self.config[k] for k, o in tc.items() if o.track}
    prov = {cls.provides[-1]: (cls.__name__, cls.__version__, cfg)}
    for d in self.depends_on:
        prov.update(PROV_TABLE[int(inputs[d]["prov"][0])])
    return prov


def _row(self, inputs):
    """one row per output, all carrying the same provenance (the plugin's)"""
    pid = _prov_id(_provenance(self, inputs))
    out = {}
    for o in type(self).provides:
        r = np.zeros(1, dtype=PROV_DTYPE_NP)
        r["time"] = 0
        r["endtime"] = 1
        r["prov"] = pid
        out[o] = r
    return out if len(out) > 1 else out[type(self).provides[0]]


def _compute_for(deps):
    if not deps:
        def compute(self, chunk_i):
            rows = _row(self, {})
            if isinstance(rows, dict):
                return {o: self.chunk(start=0, end=1, data=r, data_type=o) for o, r in rows.items()}
            return self.chunk(start=0, end=1, data=rows)
        return compute
    names = list(dict.fromkeys(deps))   # duplicate dependencies are refused by Plugin.__init__, not here
    src = f"def compute(self, {', '.join(names)}):\n    return _row(self, dict(" + ", ".join(f"{d}={d}" for d in names) + "))\n"
    g = {"_row": _row}
    exec(src, g)
    return g["compute"]


_CLASS_MEMO: dict = {}


def make_class(spec):
    """spec: dict(name, version, provides, also=[other outputs], deps, opts=[[name, default|None, track, parent|None]],
    parent=spec|None, compressor, timeout).  The class provides also + [provides].  One class object per distinct spec."""
    key = json.dumps(spec, sort_keys=True)
    if key in _CLASS_MEMO:
        return _CLASS_MEMO[key]
    base = make_class(spec["parent"]) if spec.get("parent") else strax.Plugin
    deps = tuple(spec["deps"])
    outs = tuple(spec.get("also", [])) + (spec["provides"],)
    multi = len(outs) > 1
    ns = dict(__version__=spec["version"], provides=outs, depends_on=deps,
              dtype={o: PROV_DTYPE for o in outs} if multi else PROV_DTYPE,
              data_kind=immutabledict({o: o for o in outs}) if multi else spec["provides"],
              child_plugin=bool(spec.get("parent")), compressor=spec.get("compressor", "blosc"),
              input_timeout=spec.get("timeout", 80), compute=_compute_for(deps), rechunk_on_save=False)
    if not deps:
        ns["is_ready"] = lambda self, chunk_i: chunk_i == 0
        ns["source_finished"] = lambda self: True
    cls = type(spec["name"], (base,), ns)
    opts = []
    for name, default, track, parent in spec["opts"]:
        kw = dict(name=name, track=bool(track))
        if default is not None:
            kw["default"] = build(default[0])
        if parent is not None:
            kw.update(child_option=True, parent_option_name=parent)
        opts.append(strax.Option(**kw))
    if opts:
        cls = strax.takes_config(*opts)(cls)
    _CLASS_MEMO[key] = cls
    return cls


def enc_class(cls):
    """driver tokens, read off the real class object"""
    deps = strax.to_str_tuple(cls.depends_on)
    outs = strax.to_str_tuple(cls.provides)
    toks = [tok_s(cls.__name__), tok_s(cls.__version__), tok_s(outs[-1]),
            str(len(deps)), *map(tok_s, deps), str(int(bool(cls.child_plugin)))]
    bases = [(b.__name__, b.version()) for b in cls.__bases__] if cls.child_plugin else []
    toks += [str(len(bases))] + [tok_s(x) for b in bases for x in b]
    toks += [tok_s(cls.compressor), str(int(cls.input_timeout)), str(len(cls.takes_config))]
    for name, o in cls.takes_config.items():
        toks += [tok_s(name), str(int(bool(o.track))), tok_s(o.parent_option_name) if o.child_option else "-"]
        if o.default is strax.OMITTED:
            toks.append("0")
        else:
            toks += ["1", enc_py(o.default)]
    toks += [str(len(outs) - 1), *map(tok_s, outs[:-1])]
    return " ".join(toks)


# ----------------------------------------------------------------------------- running a history on real contexts
# op (JSON): ["SC", who, [[k, v], ..]] | ["RG", who, spec] | ["NC", who] | ["SF", who, [types], [opts]]
#          | ["LN", who, d] | ["ST", who, d] | ["MK", who, d] | ["GT", who, d] | ["LS"]
SIDE: dict = {}


def case_key(case):
    return json.dumps(case, sort_keys=True)


def op_tokens(op):
    tag = op[0]
    if tag == "LS":
        return "LS"
    who = str(int(op[1]))
    if tag == "SC":
        return " ".join(["SC", who, str(len(op[2]))] + [tok_s(k) + " " + enc(v) for k, v in op[2]])
    if tag == "RG":
        return " ".join(["RG", who, enc_class(make_class(op[2]))])
    if tag == "NC":
        return f"NC {who}"
    if tag == "SF":
        return " ".join(["SF", who, str(len(op[2])), *map(tok_s, op[2]), str(len(op[3])), *map(tok_s, op[3])])
    return f"{tag} {who} {tok_s(op[2])}"


def history_op(case):
    return " ".join(["c02.run", case.get("rules", "fixed")] + [op_tokens(o) for o in case["ops"]])


def listing(path):
    """[(type, json text of the metadata lineage, hash in the name)] of the complete data directories"""
    out = []
    for fn in sorted(os.listdir(path)):
        parts = fn.split("-")
        if len(parts) != 3 or fn.endswith("_temp"):
            continue
        with open(os.path.join(path, fn, f"{parts[1]}-{parts[2]}-metadata.json")) as f:
            md = json.load(f)
        out.append((parts[1], strax_json(md["lineage"]), parts[2]))
    return out


def fresh_get(ctx, d):
    """the oracle: a brand-new context with ctx's settings on an empty directory"""
    new = strax.Context(storage=[strax.DataDirectory(_tmpdir())], config=dict(ctx.config))
    for cls in dict.fromkeys(ctx._plugin_class_registry.values()):
        try:
            new.register(cls)
        except ValueError:
            pass   # default conflict: the class is registered all the same
    try:
        a = new.get_array(RUN, d, progress_bar=False)
        return "ok " + canon_json(PROV_TABLE[int(a["prov"][0])])
    except strax.InvalidConfiguration as e:
        # a required option has neither a value nor a default (assumption A-O4)
        return "err InvalidConfiguration" if "Missing option" in str(e) else "err Other"
    except Exception as e:  # noqa: BLE001
        return "err " + sl.err_name(e)


def is_fuzzy(ctx):
    return bool(ctx.context_config["fuzzy_for"]) or bool(ctx.context_config["fuzzy_for_options"])


def run_history(case):
    with contextlib.redirect_stdout(io.StringIO()):   # strax prints "Source finished!"
        return _run_history(case)


def _run_history(case):
    path = _tmpdir()
    ctxs = [strax.Context(storage=[strax.DataDirectory(path)]), strax.Context(storage=[strax.DataDirectory(path)])]
    outs = []
    side = dict(fresh={}, hash_bad=[], fuzzy_wrote=[], fuzzy_data={}, listing_bad=[])
    for i, op in enumerate(case["ops"]):
        tag = op[0]
        try:
            if tag == "LS":
                ls = listing(path)
                for t, txt, h in ls:
                    if sha_b32(txt) != h:
                        side["listing_bad"].append([i, t, txt, h])
                out = "ok " + (" & ".join(sorted(f"{t}={txt}" for t, txt, _ in ls)) if ls else "-")
                outs.append(out)
                continue
            who = int(op[1])
            ctx = ctxs[who]
            before = sorted(os.listdir(path)) if is_fuzzy(ctx) else None
            if tag == "SC":
                ctx.set_config({k: build(v) for k, v in op[2]})
                out = "ok"
            elif tag == "RG":
                ctx.register(make_class(op[2]))
                out = "ok"
            elif tag == "NC":
                ctxs[who] = ctx.new_context()
                out = "ok"
            elif tag == "SF":
                ctx.set_context_config(dict(fuzzy_for=tuple(op[2]), fuzzy_for_options=tuple(op[3])))
                out = "ok"
            elif tag == "LN":
                lin = ctx.lineage(RUN, op[2])
                txt = strax_json(lin)
                key = ctx.key_for(RUN, op[2])
                if sha_b32(txt) != key.lineage_hash or strax.deterministic_hash(lin) != key.lineage_hash:
                    side["hash_bad"].append([i, txt, key.lineage_hash])
                out = "ok " + txt
            elif tag == "ST":
                out = "ok " + str(bool(ctx.is_stored(RUN, op[2])))
            elif tag == "MK":
                ctx.make(RUN, op[2], progress_bar=False)
                out = "ok"
            elif tag == "GT":
                a = ctx.get_array(RUN, op[2], progress_bar=False)
                got = canon_json(PROV_TABLE[int(a["prov"][0])])
                if is_fuzzy(ctx):
                    side["fuzzy_data"][str(i)] = got
                    out = "ok fuzzy"
                else:
                    out = "ok " + got
            else:
                raise ValueError(tag)
        except Exception as e:  # noqa: BLE001
            out = "err " + sl.err_name(e)
        if tag == "GT" and not is_fuzzy(ctxs[int(op[1])]):
            side["fresh"][str(i)] = fresh_get(ctxs[int(op[1])], op[2])
        if before is not None and tag in ("MK", "GT", "ST", "LN"):
            after = sorted(os.listdir(path))
            if after != before:
                side["fuzzy_wrote"].append([i, sorted(set(after) - set(before))])
        if out.startswith("err"):
            # a failed get leaves the savers' "<dir>_temp" folders behind (crash leftovers are C04's subject)
            for fn in os.listdir(path):
                if fn.endswith("_temp"):
                    shutil.rmtree(os.path.join(path, fn), ignore_errors=True)
        outs.append(out)
    SIDE[case_key(case)] = side
    shutil.rmtree(path, ignore_errors=True)
    return " ;; ".join(outs)


def oracle_history(case, out):
    side = SIDE.get(case_key(case))
    if side is None:
        return "history was not executed"
    steps = out.split(" ;; ")
    if len(steps) != len(case["ops"]):
        return "step count mismatch"
    for i, txt, h in side["hash_bad"]:
        return f"step {i}: key_for's hash {h} is not the SHA-1 of the JSON text of lineage() ({txt})"
    for i, t, txt, h in side["listing_bad"]:
        return f"step {i}: directory of {t} named {h} holds metadata lineage hashing to something else"
    for i, new in side["fuzzy_wrote"]:
        return f"step {i}: a context with fuzzy matching switched on wrote {new}"
    # lineage() of one context depends on its registry and config only: queries and fuzzy settings in between change nothing
    last = {}
    for i, op in enumerate(case["ops"]):
        if op[0] in ("SC", "RG", "NC"):
            last = {k: v for k, v in last.items() if k[0] != op[1]}
        elif op[0] == "LN" and steps[i].startswith("ok"):
            k = (op[1], op[2])
            if k in last and last[k][1] != steps[i]:
                return (f"step {i}: lineage({op[2]}) = {steps[i]}, but at step {last[k][0]} the same context with the same registry "
                        f"and config answered {last[k][1]}")
            last[k] = (i, steps[i])
    for i, fresh in side["fresh"].items():
        got = steps[int(i)]
        if fresh.startswith("ok") and got != fresh:
            return (f"step {i} ({case['ops'][int(i)]}): get_array returned {got}, a brand-new context with the "
                    f"same settings on an empty directory computes {fresh}")
        if fresh.startswith("err") and got.startswith("ok"):
            # rows exist although a fresh context cannot compute them: tolerated only when the fresh context lacks a
            # required option (strax.InvalidConfiguration "Missing option …", assumption A-O4), nothing else
            if fresh != "err InvalidConfiguration":
                return f"step {i}: get_array returned {got}, a brand-new context fails with {fresh}"
    return None


# ----------------------------------------------------------------------------- generators
TYPES = ["aa", "bb", "cc", "dd"]
SHAPES = {
    "chain": dict(aa=[], bb=["aa"], cc=["bb"], dd=["cc"]),
    "diamond": dict(aa=[], bb=["aa"], cc=["aa"], dd=["bb", "cc"]),
    "fork": dict(aa=[], bb=[], cc=["aa", "bb"], dd=["cc"]),
    "short": dict(aa=[], bb=["aa"]),
    "vee": dict(aa=[], bb=["aa"], cc=["aa"]),
    # multi-output plugins: the key is the LAST output (`provides[-1]`, the key of the lineage entry)
    "multi": dict(bb=[], cc=["aa"], dd=["bb", "cc"]),       # plugin bb also provides aa
    "multi2": dict(aa=[], cc=["aa"], dd=["bb"]),            # plugin cc also provides bb
}
SHAPE_ALSO = {"multi": dict(bb=["aa"]), "multi2": dict(cc=["bb"])}


def shape_also(shape_name, key):
    return list(SHAPE_ALSO.get(shape_name, {}).get(key, []))


def shape_types(shape_name):
    out = []
    for key in SHAPES[shape_name]:
        out += shape_also(shape_name, key) + [key]
    return sorted(out)


def plugin_key(shape_name, t):
    for key in SHAPES[shape_name]:
        if t == key or t in shape_also(shape_name, key):
            return key
    return t


VALUES = [0, 1, 2, 3, "x", "yy", ["b", 1], ["N", 0], ["fl", "0.5"], ["fl", "2.0"], 2 ** 70, ["t", [1, 2]], ["t", [2, 1]], ["l", [1, 2]], ["t", []], ["d", [["k", 1]]],
          ["d", [["k", 2], ["j", ["t", [1]]]]], ["d", [["j", ["t", [1]]], ["k", 2]]], ["t", [["t", [1, "a"]], 2]]]


def descendants_or_self(shape, t, shape_name=None):
    """all data types whose lineage contains the entry of the plugin that provides t"""
    def outs(key):
        return set(shape_also(shape_name, key)) | {key} if shape_name else {key}
    key = plugin_key(shape_name, t) if shape_name else t
    out = set(outs(key))
    changed = True
    while changed:
        changed = False
        for x, deps in shape.items():
            if x not in out and any(d in out for d in deps):
                out |= outs(x)
                changed = True
    return out


def base_spec(t, deps, rng, shared=True, also=()):
    """class of data type t (and `also`): own tracked option t_t, own untracked t_u, optionally the shared tracked option sh"""
    opts = [[f"{t}_t", [rng.choice([0, 1, 2])], 1, None], [f"{t}_u", [rng.choice([0, 1])], 0, None]]
    if shared and rng.random() < 0.5:
        opts.append(["sh", [7], 1, None])
    return dict(name=f"P{t}", version="0.0.1", provides=t, also=list(also), deps=list(deps), opts=opts, parent=None,
                compressor="blosc", timeout=80)


def variant(spec, rng, all_specs, shape):
    """a same-named (or renamed) replacement class for the same data type"""
    s = json.loads(json.dumps(spec))
    t = s["provides"]
    kind = rng.choice(["default", "default", "udefault", "version", "name", "deps", "track", "shared", "compressor", "child",
                       "nodefault", "same", "split", "also"])
    if kind == "default":
        s["opts"][0][1] = [rng.choice(VALUES)]
    elif kind == "udefault":
        s["opts"][1][1] = [rng.choice(VALUES)]
    elif kind == "version":
        s["version"] = rng.choice(["0.0.2", "0.1.0", "1"])
    elif kind == "name":
        s["name"] = s["name"] + rng.choice(["X", "Y"])
    elif kind == "deps":
        pool = [x for x in TYPES if x != t] + ["zz", t]
        k = rng.choice([0, 1, 1, 2])
        s["deps"] = rng.sample(pool, k)
    elif kind == "track":
        i = rng.randrange(len(s["opts"]))
        s["opts"][i][2] = 1 - s["opts"][i][2]
    elif kind == "shared":
        s["opts"] = [o for o in s["opts"] if o[0] != "sh"] + [["sh", [rng.choice([7, 7, 8])], 1, None]]
    elif kind == "compressor":
        s["compressor"] = "zstd"
        s["timeout"] = 81
    elif kind == "child":
        parents = [p for p in all_specs if p["provides"] != t and not p.get("parent")]
        if parents:
            p = rng.choice(parents)
            tracked = [o for o in p["opts"] if o[3] is None]
            po = rng.choice(tracked)
            s = dict(name=f"C{t}", version="0.0.3", provides=t, also=s.get("also", []), deps=s["deps"], parent=p, compressor="blosc", timeout=80,
                     opts=[[f"{t}_c", [rng.choice([4, 5, ["t", [4]]])], po[2], po[0]], [f"{t}_t", [rng.choice([0, 1])], 1, None]])
    elif kind == "nodefault":
        s["opts"].append([f"{t}_n", None, rng.choice([0, 1]), None])
    elif kind == "split":
        # provide only one of the outputs: the old class loses all of them
        if s.get("also"):
            keep = rng.choice(s["also"] + [t])
            s["provides"], s["also"], s["name"] = keep, [], s["name"] + "s"
        else:
            s["also"] = []
    elif kind == "also":
        # take over another data type as an additional output
        others = [x for x in TYPES if x != t and x not in s.get("also", []) and x not in s["deps"]]
        if others:
            s["also"] = s.get("also", []) + [rng.choice(others)]
            s["name"] = s["name"] + "m"
    return s


def option_names(specs):
    names = []
    for s in specs:
        p = s
        while p:
            names += [o[0] for o in p["opts"]]
            p = p.get("parent")
    return sorted(set(names))


def gen_history(rng, max_len=12):
    shape_name = rng.choice(list(SHAPES))
    shape = SHAPES[shape_name]
    specs = {t: base_spec(t, deps, rng, also=shape_also(shape_name, t)) for t, deps in shape.items()}
    types = shape_types(shape_name)
    ops = []
    # both contexts start from the same graph most of the time
    for who in (0, 1):
        if who == 1 and rng.random() < 0.15:
            continue
        for t in shape:
            ops.append(["RG", who, specs[t]])
    current = {0: dict(specs), 1: dict(specs)}
    n = rng.randint(3, max_len)
    for _ in range(n):
        who = 0 if rng.random() < 0.7 else 1
        r = rng.random()
        cur = current[who]
        if r < 0.22:
            t = plugin_key(shape_name, rng.choice(types))
            s = variant(cur.get(t, specs[t]), rng, list(cur.values()), shape)
            try:
                make_class(s)
            except RuntimeError:      # e.g. an option specified twice along the inheritance chain: not a class at all
                s = cur.get(t, specs[t])
            cur[s["provides"]] = s
            ops.append(["RG", who, s])
        elif r < 0.42:
            names = option_names(cur.values()) + ["free_opt"]
            # sometimes an option that is named like a data type
            k = rng.choice(names) if rng.random() < 0.93 else rng.choice(types)
            ops.append(["SC", who, [[k, rng.choice(VALUES)]]])
        elif r < 0.49:
            ops.append(["NC", who])
        elif r < 0.515:
            ff = [t for t in types if rng.random() < 0.3]
            ffo = [o for o in option_names(cur.values()) if rng.random() < 0.2]
            ops.append(["SF", who, ff, ffo])
        elif r < 0.53:
            ops.append(["SF", who, [], []])
        elif r < 0.62:
            ops.append(["MK", who, rng.choice(types)])
        elif r < 0.84:
            ops.append(["GT", who, rng.choice(types * 4 + ["zz"])])
        elif r < 0.92:
            ops.append(["LN", who, rng.choice(types)])
        elif r < 0.97:
            ops.append(["ST", who, rng.choice(types)])
        else:
            ops.append(["LS"])
    # closing sweep: what does every context see now, and what is on disk
    for who in (0, 1):
        t = rng.choice(types)
        ops.append(["GT", who, t])
    ops.append(["LS"])
    return dict(shape=shape_name, ops=ops)


def nontrivial_history(case, out):
    """a read after data was made and settings changed in between"""
    tags = [o[0] for o in case["ops"]]
    made = [i for i, t in enumerate(tags) if t in ("MK", "GT")]
    if not made:
        return False
    first = made[0]
    changed = [i for i, o in enumerate(case["ops"]) if i > first and o[0] in ("RG", "SC", "NC")]
    return bool(changed) and any(i > changed[0] for i in made)


def branch_history(case, out):
    steps = out.split(" ;; ")
    errs = sorted({s for s in steps if s.startswith("err")})
    return ",".join(e[4:] for e in errs) if errs else "clean"


# -- directed families -----------------------------------------------------------------------------
def d4_family():
    """register P(default 1); make; register P'(default 2); get — and relatives"""
    def P(default, version="1", name="P", opts=None):
        return dict(name=name, version=version, provides="aa", deps=[], parent=None, compressor="blosc", timeout=80,
                    opts=opts if opts is not None else [["x", [default], 1, None]])
    Q = dict(name="Q", version="1", provides="bb", deps=["aa"], parent=None, compressor="blosc", timeout=80, opts=[["y", [0], 1, None]])
    out = []
    for first, second in [(P(1), P(2)), (P(1), P(1, version="2")), (P(1), P(1, name="P2")), (P(1), P(1, opts=[["x", [1], 0, None]])),
                          (P(1), P(["t", [1]])), (P(1), P(1))]:
        for target in ("aa", "bb"):
            for pre in (["MK", 0, target], ["GT", 0, target], ["LN", 0, target], ["ST", 0, target]):
                out.append(dict(ops=[["RG", 0, first], ["RG", 0, Q], pre, ["RG", 0, second], ["GT", 0, target], ["LN", 0, target], ["LS"]]))
    # an option named like a data type (the context hash used to lose it)
    A = dict(name="A", version="1", provides="aa", deps=[], parent=None, compressor="blosc", timeout=80, opts=[["aa", [1], 1, None]])
    for v in (2, ["t", [1]]):
        out.append(dict(ops=[["RG", 0, A], ["GT", 0, "aa"], ["SC", 0, [["aa", v]]], ["GT", 0, "aa"], ["LN", 0, "aa"], ["LS"]]))
        out.append(dict(ops=[["RG", 0, A], ["SC", 0, [["aa", 1]]], ["MK", 0, "aa"], ["SC", 0, [["aa", v]]], ["GT", 0, "aa"], ["LS"]]))
    # a second context with other settings writes to the same directory
    for v in (1, 2):
        out.append(dict(ops=[["RG", 0, P(1)], ["RG", 1, P(1)], ["SC", 1, [["x", v]]], ["MK", 1, "aa"], ["ST", 0, "aa"], ["GT", 0, "aa"], ["LS"]]))
    # missing option, missing dependency, cycle, duplicate dependency, child of a parent lacking the option
    N = dict(name="N", version="1", provides="aa", deps=[], parent=None, compressor="blosc", timeout=80, opts=[["n", None, 1, None]])
    out.append(dict(ops=[["RG", 0, N], ["LN", 0, "aa"], ["GT", 0, "aa"], ["SC", 0, [["n", 3]]], ["GT", 0, "aa"], ["LS"]]))
    Nu = dict(N, opts=[["n", None, 0, None]])
    out.append(dict(ops=[["RG", 0, Nu], ["RG", 1, Nu], ["SC", 1, [["n", 3]]], ["MK", 1, "aa"], ["GT", 0, "aa"], ["LS"]]))
    out.append(dict(ops=[["RG", 0, dict(Q, deps=["zz"])], ["LN", 0, "bb"], ["GT", 0, "bb"], ["ST", 0, "bb"]]))
    out.append(dict(ops=[["RG", 0, P(1)], ["RG", 0, dict(Q, deps=["aa", "bb"])], ["LN", 0, "bb"], ["GT", 0, "bb"], ["GT", 0, "aa"], ["LN", 0, "bb"]]))
    out.append(dict(ops=[["RG", 0, P(1)], ["RG", 0, dict(Q, deps=["aa", "aa"])], ["LN", 0, "bb"], ["GT", 0, "bb"]]))
    Cbad = dict(name="Cb", version="1", provides="bb", deps=["aa"], parent=P(1), compressor="blosc", timeout=80, opts=[["c", [5], 1, "nope"]])
    out.append(dict(ops=[["RG", 0, P(1)], ["RG", 0, Cbad], ["LN", 0, "bb"], ["GT", 0, "bb"]]))
    Cnod = dict(name="Cn", version="1", provides="bb", deps=["aa"], parent=P(1), compressor="blosc", timeout=80, opts=[["c", None, 1, "x"]])
    out.append(dict(ops=[["RG", 0, P(1)], ["RG", 0, Cnod], ["LN", 0, "bb"], ["SC", 0, [["c", 9]]], ["LN", 0, "bb"], ["GT", 0, "bb"], ["LS"]]))
    Cok = dict(name="Ck", version="2", provides="bb", deps=["aa"], parent=P(1), compressor="blosc", timeout=80,
               opts=[["c", [5], 1, "x"], ["own", [0], 1, None]])
    out.append(dict(ops=[["RG", 0, P(1)], ["RG", 0, Cok], ["LN", 0, "bb"], ["GT", 0, "bb"], ["SC", 0, [["x", 3]]], ["LN", 0, "bb"], ["GT", 0, "bb"],
                         ["SC", 0, [["c", 6]]], ["LN", 0, "bb"], ["GT", 0, "bb"], ["LS"]]))
    # default conflict on a shared option: ValueError, but the class is registered
    S1 = dict(name="S1", version="1", provides="aa", deps=[], parent=None, compressor="blosc", timeout=80, opts=[["sh", [7], 1, None]])
    S2 = dict(name="S2", version="1", provides="bb", deps=["aa"], parent=None, compressor="blosc", timeout=80, opts=[["sh", [8], 1, None]])
    out.append(dict(ops=[["RG", 0, S1], ["RG", 0, S2], ["LN", 0, "bb"], ["GT", 0, "bb"], ["LS"]]))
    # multi-output plugins: one lineage entry (keyed by the last output) for all outputs; register deregisters overlapping classes
    def M(default, outs=("aa", "bb"), name="M", version="1", deps=()):
        return dict(name=name, version=version, provides=outs[-1], also=list(outs[:-1]), deps=list(deps), parent=None,
                    compressor="blosc", timeout=80, opts=[["mx", [default], 1, None], ["mu", [0], 0, None]])
    Qa = dict(name="Qa", version="1", provides="qq", also=[], deps=["aa"], parent=None, compressor="blosc", timeout=80, opts=[["qy", [0], 1, None]])
    Qb = dict(Qa, name="Qb", provides="rr", deps=["bb", "aa"])
    for second in (M(2), M(1, version="2"), M(1, name="M2"), M(1), M(1, outs=("bb", "aa"))):
        for pre in (["MK", 0, "qq"], ["GT", 0, "aa"], ["LN", 0, "bb"]):
            out.append(dict(ops=[["RG", 0, M(1)], ["RG", 0, Qa], ["RG", 0, Qb], pre, ["RG", 0, second], ["GT", 0, "qq"], ["GT", 0, "rr"],
                                 ["LN", 0, "aa"], ["LN", 0, "bb"], ["ST", 0, "aa"], ["LS"]]))
    # a class providing (bb, cc) takes bb away from M(aa, bb): aa is deregistered too
    N2 = M(1, outs=("bb", "cc"), name="N2")
    out.append(dict(ops=[["RG", 0, M(1)], ["RG", 0, Qa], ["MK", 0, "qq"], ["RG", 0, N2], ["LN", 0, "bb"], ["LN", 0, "cc"], ["LN", 0, "aa"],
                         ["GT", 0, "qq"], ["GT", 0, "bb"], ["ST", 0, "aa"], ["LS"]]))
    # a single-output class takes aa: bb goes as well; then M comes back
    A1 = dict(name="A1", version="1", provides="aa", also=[], deps=[], parent=None, compressor="blosc", timeout=80, opts=[["mx", [1], 1, None]])
    out.append(dict(ops=[["RG", 0, M(1)], ["RG", 0, Qb], ["GT", 0, "rr"], ["RG", 0, A1], ["LN", 0, "aa"], ["LN", 0, "bb"], ["GT", 0, "rr"],
                         ["GT", 0, "aa"], ["RG", 0, M(1)], ["GT", 0, "rr"], ["GT", 0, "aa"], ["LS"]]))
    # two contexts: one with M(aa,bb), the other with separate classes for aa and bb
    B1 = dict(A1, name="B1", provides="bb", opts=[["by", [1], 1, None]])
    out.append(dict(ops=[["RG", 0, M(1)], ["RG", 0, Qb], ["RG", 1, A1], ["RG", 1, B1], ["RG", 1, Qb], ["MK", 0, "rr"], ["GT", 1, "rr"], ["GT", 1, "aa"],
                         ["GT", 0, "aa"], ["ST", 1, "bb"], ["SC", 0, [["mx", 5]]], ["GT", 0, "rr"], ["GT", 0, "bb"], ["LS"]]))
    # tracked / untracked option of a multi-output plugin
    for k, v in (("mx", 3), ("mu", 3)):
        out.append(dict(ops=[["RG", 0, M(1)], ["RG", 0, Qa], ["MK", 0, "qq"], ["LN", 0, "aa"], ["SC", 0, [[k, v]]], ["LN", 0, "aa"], ["LN", 0, "bb"],
                             ["ST", 0, "qq"], ["GT", 0, "qq"], ["LS"]]))
    return out


def keychange_cases(rng, n):
    """[register graph, set config, LN all, one change, LN all] with the expected set of changed keys"""
    out = []
    for _ in range(n):
        shape_name = rng.choice(list(SHAPES))
        shape = SHAPES[shape_name]
        specs = {t: base_spec(t, deps, rng, also=shape_also(shape_name, t)) for t, deps in shape.items()}
        keys = list(shape)
        types = shape_types(shape_name)
        ops = [["RG", 0, specs[t]] for t in keys]
        preset = {}
        if rng.random() < 0.5:
            t = rng.choice(keys)
            preset[f"{t}_t"] = rng.choice([0, 1, 2])
            ops.append(["SC", 0, [[k, v] for k, v in preset.items()]])
        ops += [["LN", 0, t] for t in types]
        t = rng.choice(keys)
        kind = rng.choice(["tracked", "untracked", "version", "class", "default", "udefault", "shared", "free", "compressor"])
        expect = set()
        if kind == "tracked":
            old = preset.get(f"{t}_t", specs[t]["opts"][0][1][0])
            new = rng.choice([v for v in VALUES if canon_json(build(v)) != canon_json(build(old))])
            ops.append(["SC", 0, [[f"{t}_t", new]]])
            expect = descendants_or_self(shape, t, shape_name)
        elif kind == "untracked":
            ops.append(["SC", 0, [[f"{t}_u", rng.choice(VALUES[4:])]]])
        elif kind == "free":
            ops.append(["SC", 0, [["free_opt", rng.choice(VALUES)]]])
        elif kind == "shared":
            takers = [x for x in keys if any(o[0] == "sh" for o in specs[x]["opts"])]
            ops.append(["SC", 0, [["sh", rng.choice([8, "z"])]]])
            for x in takers:
                expect |= descendants_or_self(shape, x, shape_name)
        elif kind == "version":
            ops.append(["RG", 0, dict(specs[t], version="9.9")])
            expect = descendants_or_self(shape, t, shape_name)
        elif kind == "class":
            ops.append(["RG", 0, dict(specs[t], name="Other")])
            expect = descendants_or_self(shape, t, shape_name)
        elif kind == "compressor":
            ops.append(["RG", 0, dict(specs[t], compressor="zstd", timeout=3)])
        elif kind == "default":
            s = json.loads(json.dumps(specs[t]))
            old = s["opts"][0][1][0]
            s["opts"][0][1] = [rng.choice([v for v in VALUES if canon_json(build(v)) != canon_json(build(old))])]
            ops.append(["RG", 0, s])
            if f"{t}_t" not in preset:
                expect = descendants_or_self(shape, t, shape_name)
        elif kind == "udefault":
            s = json.loads(json.dumps(specs[t]))
            s["opts"][1][1] = [rng.choice(VALUES[4:])]
            ops.append(["RG", 0, s])
        ops += [["LN", 0, x] for x in types]
        out.append(dict(shape=shape_name, kind=kind, types=types, expect=sorted(expect), ops=ops))
    return out


def oracle_keychange(case, out):
    msg = oracle_history(case, out)
    if msg:
        return msg
    steps = out.split(" ;; ")
    n = len(case["types"])
    lns = [i for i, o in enumerate(case["ops"]) if o[0] == "LN"]
    before, after = lns[:n], lns[n:]
    if any(not steps[i].startswith("ok") for i in before + after):
        return f"lineage() failed in a well-formed graph: {[steps[i] for i in before + after]}"
    changed = sorted(t for t, i, j in zip(case["types"], before, after) if steps[i] != steps[j])
    if changed != case["expect"]:
        return (f"{case['kind']} change on {case['ops'][before[-1] + 1]}: keys changed for {changed}, "
                f"expected exactly {case['expect']} (the type and its descendants / nothing for untracked)")
    return None


def fuzzy_cases(thorough):
    """context 0 makes bb (aa <- bb); context 1 differs in a subset of parts and asks with every fuzzy setting"""
    def A(x=1, version="1", name="A"):
        return dict(name=name, version=version, provides="aa", deps=[], parent=None, compressor="blosc", timeout=80,
                    opts=[["ax", [x], 1, None], ["ay", [["t", [1, 2]]], 1, None]])

    def B(x=1, version="1", name="B"):
        return dict(name=name, version=version, provides="bb", deps=["aa"], parent=None, compressor="blosc", timeout=80,
                    opts=[["bx", [x], 1, None], ["sh", [["d", [["k", ["t", [3]]]]]], 1, None]])
    parts = ["a.ax", "a.version", "a.cls", "b.bx", "b.version"]
    out = []
    subsets = [()] + [(p,) for p in parts] + [("a.ax", "b.bx"), ("a.ax", "b.version"), ("a.version", "b.bx"), ("a.cls", "b.bx")]
    ffs = [[], ["aa"], ["bb"], ["aa", "bb"]]
    ffos = [[], ["ax"], ["bx"], ["ax", "bx"], ["ay"]]
    for diff in subsets:
        a2 = A(x=2 if "a.ax" in diff else 1, version="2" if "a.version" in diff else "1", name="A2" if "a.cls" in diff else "A")
        b2 = B(x=2 if "b.bx" in diff else 1, version="2" if "b.version" in diff else "1")
        for ff in ffs:
            for ffo in ffos:
                if not thorough and len(diff) == 2 and (len(ff) == 2 or len(ffo) == 2):
                    continue
                # is the difference covered by the named parts?
                def covered(p):
                    t, what = p.split(".")
                    typ = "aa" if t == "a" else "bb"
                    if typ in ff:
                        return True
                    return what in ("ax", "bx") and what in ffo
                exp_bb = all(covered(p) for p in diff)
                exp_aa = all(covered(p) for p in diff if p.startswith("a."))
                ops = [["RG", 0, A()], ["RG", 0, B()], ["MK", 0, "bb"], ["RG", 1, a2], ["RG", 1, b2], ["LN", 1, "bb"], ["SF", 1, ff, ffo],
                       ["ST", 1, "bb"], ["ST", 1, "aa"], ["GT", 1, "bb"], ["GT", 1, "aa"], ["LS"], ["SF", 1, [], []], ["ST", 1, "bb"],
                       ["LN", 1, "bb"], ["GT", 1, "bb"], ["LS"]]
                out.append(dict(diff=list(diff), ff=ff, ffo=ffo, expect=[exp_bb, exp_aa], exact=not diff, ops=ops))
    return out


def oracle_fuzzy(case, out):
    msg = oracle_history(case, out)
    if msg:
        return msg
    steps = out.split(" ;; ")
    side = SIDE[case_key(case)]
    got = [steps[7], steps[8]]
    want = ["ok " + str(case["expect"][0]), "ok " + str(case["expect"][1])]
    fuzzy_on = bool(case["ff"] or case["ffo"])
    if not fuzzy_on:
        want = ["ok " + str(case["exact"]), "ok " + str(not any(p.startswith("a.") for p in case["diff"]))]
    if got != want:
        return (f"stored lineage differs in {case['diff']}, fuzzy_for={case['ff']} fuzzy_for_options={case['ffo']}: "
                f"is_stored(bb), is_stored(aa) = {got}, expected {want} (accepted exactly when every difference is named)")
    if fuzzy_on:
        # rows returned under fuzzy matching: the stored ones when accepted
        if case["expect"][0] and side["fuzzy_data"].get("9") is None:
            return "accepted data was not returned"
    # nothing written while fuzzy was on: the listing after equals the listing of the two directories made by context 0
    if fuzzy_on and steps[11].count("=") != 2:
        return f"directory listing changed under fuzzy matching: {steps[11]}"
    # fuzzy matching switched off again on the same context: exact matching, as if it had never been on
    if fuzzy_on and steps[13] != "ok " + str(case["exact"]):
        return (f"after set_context_config(fuzzy_for=(), fuzzy_for_options=()) is_stored(bb) = {steps[13]}, expected ok {case['exact']} "
                f"(stored lineage differs in {case['diff']})")
    if steps[14] != steps[5]:
        return (f"lineage(bb) of the same context with the same registry and config changed after fuzzy matching was switched on and "
                f"off again: before {steps[5]}, after {steps[14]}")
    return None


# ----------------------------------------------------------------------------- `_matches` on its own
def enc_lineage(lin):
    """lin: [[type, cls, version, [[opt, value-spec], ..]], ..]"""
    toks = [str(len(lin))]
    for t, c, v, cfg in lin:
        toks += [tok_s(t), tok_s(c), tok_s(v), str(len(cfg))] + [tok_s(k) + " " + enc(x) for k, x in cfg]
    return " ".join(toks)


def py_lineage(lin):
    return {t: (c, v, {k: build(x) for k, x in cfg}) for t, c, v, cfg in lin}


_SF = []


def impl_match(case):
    if not _SF:
        _SF.append(strax.DataDirectory(_tmpdir()))
    stored = json.loads(json.dumps(py_lineage(case["stored"])))       # what metadata.json gives back
    want = py_lineage(case["want"])

    def f():
        return str(bool(_SF[0]._matches(stored, want, tuple(case["ff"]), tuple(case["ffo"]))))
    return sl.guarded(f)


def op_match(case):
    return " ".join(["c02.match text", enc_lineage(case["stored"]), enc_lineage(case["want"]),
                     str(len(case["ff"])), *map(tok_s, case["ff"]), str(len(case["ffo"])), *map(tok_s, case["ffo"])])


def oracle_match(case, out):
    a = {t: (c, v, dict(cfg)) for t, c, v, cfg in case["stored"]}
    b = {t: (c, v, dict(cfg)) for t, c, v, cfg in case["want"]}
    ok = True
    for t in set(a) | set(b):
        if t in case["ff"]:
            continue
        if (t in a) != (t in b):
            ok = False
            continue
        (c1, v1, g1), (c2, v2, g2) = a[t], b[t]
        if c1 != c2 or v1 != v2:
            ok = False
        for o in set(g1) | set(g2):
            if o in case["ffo"]:
                continue
            if (o in g1) != (o in g2) or canon_json(build(g1[o])) != canon_json(build(g2[o])):
                ok = False
    if out != "ok " + str(ok):
        return (f"_matches(stored, wanted, fuzzy_for={case['ff']}, fuzzy_for_options={case['ffo']}) = {out}, but the lineages "
                f"{'differ only' if ok else 'do not differ only'} in the named parts")
    return None


def match_cases(rng, n):
    vals = [1, 2, "x", ["t", [1, 2]], ["t", [1, 3]], ["l", [1, 2]], ["d", [["k", ["t", [3]]]]], ["d", [["k", ["t", [4]]]]],
            ["b", 1], ["N", 0], ["fl", "0.5"], ["t", []], ["d", []]]
    out = []
    for _ in range(n):
        stored = [["aa", "A", "1", [["ax", rng.choice(vals)], ["ay", rng.choice(vals)]]],
                  ["bb", "B", "1", [["bx", rng.choice(vals)], ["ax", rng.choice(vals)]]]]
        if rng.random() < 0.3:
            stored.append(["cc", "C", "2", []])
        want = json.loads(json.dumps(stored))
        for _k in range(rng.choice([0, 1, 1, 2, 3])):
            e = rng.choice(want)
            what = rng.choice(["opt", "opt", "ver", "cls", "drop", "addopt", "droptype", "order"])
            if what == "opt" and e[3]:
                rng.choice(e[3])[1] = rng.choice(vals)
            elif what == "ver":
                e[2] = "9"
            elif what == "cls":
                e[1] = e[1] + "x"
            elif what == "drop" and e[3]:
                e[3].pop(rng.randrange(len(e[3])))
            elif what == "addopt":
                e[3].append(["new", rng.choice(vals)])
            elif what == "droptype" and len(want) > 1:
                want.remove(e)
            elif what == "order":
                rng.shuffle(want)
                rng.shuffle(e[3])
        ff = [t for t in ("aa", "bb", "cc") if rng.random() < 0.3]
        ffo = [o for o in ("ax", "ay", "bx", "new") if rng.random() < 0.3]
        if not ff and not ffo:
            ffo = [rng.choice(["ax", "ay", "bx"])]
        out.append(dict(stored=stored, want=want, ff=ff, ffo=ffo))
    return out


# ----------------------------------------------------------------------------- hashing: model, seeds, insertion orders
HASH_CHILD = r'''
import json, os, sys, random
sys.path.insert(0, os.environ["STRAX_REPO_PATH"])
import numpy as np
from immutabledict import immutabledict
from strax.utils import deterministic_hash, hashablize, NumpyJSONEncoder

def build(v, rng):
    if isinstance(v, (int, str)):
        return v
    t, x = v
    if t == "b": return bool(x)
    if t == "N": return None
    if t == "fl": return float(x)
    if t == "t": return tuple(build(a, rng) for a in x)
    if t == "l": return [build(a, rng) for a in x]
    if t in ("d", "D"):
        items = list(x)
        rng.shuffle(items)                      # permuted insertion order
        d = {k: build(a, rng) for k, a in items}
        return d if t == "d" else immutabledict(d)
    if t in ("S", "F"):
        items = list(x)
        rng.shuffle(items)
        return set(items) if t == "S" else frozenset(items)
    if t == "ni": return np.int64(x)
    if t == "na": return np.array(x, dtype=np.int64)
    raise ValueError(v)

cases = json.load(sys.stdin)
rng = random.Random(int(os.environ.get("PERM_SEED", "0")))
out = []
for v in cases:
    try:
        cfg = {"opt": build(v, rng), "other": 1}
        items = list(cfg.items()); rng.shuffle(items)
        lin = {"foo": ("P", "1", dict(items)), "bar": ("Q", "2", {})}
        litems = list(lin.items()); rng.shuffle(litems)
        lin = dict(litems)
        out.append([deterministic_hash(lin), json.dumps(hashablize(lin), cls=NumpyJSONEncoder)])
    except Exception as e:
        out.append(["err " + type(e).__name__, ""])
json.dump(out, sys.stdout)
'''


def gen_value(rng, depth=0, rich=True):
    r = rng.random()
    if depth >= 3 or r < 0.3:
        return rng.choice([0, 1, -7, 12345678901, 2 ** 64, -(2 ** 63), 10 ** 30, "a", "bc", "", "q\"uote", "back\\slash", "A_b.9",
                           ["b", 1], ["b", 0], ["N", 0], ["fl", "0.5"], ["fl", "-0.0"], ["fl", "1.0"], ["fl", "1234.5678"],
                           ["fl", "0.0001"], ["fl", "-3.25"], ["fl", "1000000000000000.0"], ["fl", "0.1"], ["fl", "2.675"]])
    if r < 0.45:
        return ["t", [gen_value(rng, depth + 1, rich) for _ in range(rng.randint(0, 3))]]
    if r < 0.55:
        return ["l", [gen_value(rng, depth + 1, rich) for _ in range(rng.randint(0, 3))]]
    if r < 0.8:
        keys = rng.sample(["k", "j", "a", "zz", "B", "k2", "_", "0"], rng.randint(0, 4))
        kind = "d" if (not rich or depth > 0 or rng.random() < 0.7) else "D"
        return [kind, [[k, gen_value(rng, depth + 1, rich)] for k in keys]]
    if r < 0.9:
        return ["S", rng.sample(["alpha", "beta", "gamma", "delta", "e", "f", "Z", "a1"], rng.randint(0, 5))]
    if rich and r < 0.95:
        return ["ni", rng.choice([0, 5, -3])]
    if rich:
        return ["na", [rng.randint(-3, 3) for _ in range(rng.randint(0, 3))]]
    return rng.randint(0, 9)


def impl_canon(case):
    v = build(case["v"])

    def f():
        return strax_json(v)
    return sl.guarded(f)


def hash_subprocesses(cases, seeds, perm_seeds):
    script = os.path.join(_ROOT, "hash_child.py")
    with open(script, "w") as f:
        f.write(HASH_CHILD)
    procs = []
    for hs, ps in zip(seeds, perm_seeds):
        env = dict(os.environ, PYTHONHASHSEED=str(hs), PERM_SEED=str(ps), STRAX_REPO_PATH=str(sl.REPO))
        procs.append(subprocess.Popen([sys.executable, script], stdin=subprocess.PIPE, stdout=subprocess.PIPE, stderr=subprocess.PIPE,
                                      env=env, text=True))
    payload = json.dumps([c["v"] for c in cases])
    results = []
    for p in procs:
        o, e = p.communicate(payload, timeout=900)
        if p.returncode != 0:
            raise RuntimeError("hash subprocess failed: " + e[-800:])
        results.append(json.loads(o))
    return results


# ----------------------------------------------------------------------------- run / search / replay
def run(ctx):
    rng = ctx.rng

    # 1. the JSON text fed to SHA-1: model vs real, and across hash seeds / insertion orders
    vcases = [dict(v=v) for v in VALUES] + [dict(v=gen_value(rng)) for _ in range(ctx.pick(600, 4000))]
    vcases += [dict(v=["S", ["alpha", "beta", "gamma", "delta"]]), dict(v=["t", [1, ["S", ["a", "b", "c"]]]]),
               dict(v=["d", [["k", ["S", ["x", "y", "z"]]]]])]
    seeds = ctx.pick([0, 1, 2], [0, 1, 2, 3, 4, 5])
    results = hash_subprocesses(vcases, seeds, [rng.randrange(10**6) for _ in seeds])
    cross = {}
    for i, c in enumerate(vcases):
        hs = [r[i] for r in results]
        if len({tuple(h) for h in hs}) != 1:
            cross[case_key(c)] = hs

    def oracle_canon(case, out):
        bad = cross.get(case_key(case))
        if bad:
            return f"hash differs between processes (PYTHONHASHSEED {seeds}, permuted insertion orders): {bad}"
        return None
    ctx.correspond("hash/json-text", vcases, impl_canon, lambda c: "c02.canon " + enc(c["v"]), oracle_canon,
                   nontrivial=lambda c, o: not isinstance(c["v"], (int, str)),
                   rule="random nested values (int incl. > 2^64, str incl. quotes/backslashes, bool, None, float with plain-decimal repr, tuple, list, dict, immutabledict, set of str, numpy scalar/array): "
                        "json.dumps(hashablize(v)) vs the model's canonString; oracle: identical deterministic_hash in subprocesses with "
                        f"PYTHONHASHSEED {seeds} and shuffled dict/set insertion orders",
                   branch=lambda c, o: ("int" if isinstance(c["v"], int) else "str") if isinstance(c["v"], (int, str)) else c["v"][0])

    # 2. directed histories (D4 family, option named like a type, second context, malformed graphs)
    ctx.correspond("history/directed", d4_family(), run_history, history_op, oracle_history, nontrivial=nontrivial_history,
                   rule="register P; make|get|lineage|is_stored; register P' (other default / version / name / track flag / same); get — for the type "
                        "and a dependent type; option named like a data type; second context writing with other settings; missing option / dependency, "
                        "cycle, duplicate dependency, child plugins, default conflict", exhaustive=True, branch=branch_history)

    # 3. random histories
    hcases = [gen_history(rng) for _ in range(ctx.pick(300, 2500))]
    ctx.correspond("history/random", hcases, run_history, history_op, oracle_history, nontrivial=nontrivial_history,
                   rule="random histories (3..12 ops after the initial registrations, closing get on both contexts + listing) over chain / diamond / fork "
                        "graphs of 2-4 real plugin classes with tracked, untracked, shared, child and default-less options; non-trivial = a read after "
                        "data was made and settings changed in between", branch=branch_history,
                   in_hyp=lambda c, o: any(v.startswith("ok") for v in SIDE[case_key(c)]["fresh"].values()))

    # 4. which keys change
    kcases = keychange_cases(rng, ctx.pick(130, 1000))
    ctx.correspond("keychange", kcases, run_history, history_op, oracle_keychange, nontrivial=lambda c, o: True,
                   rule="one change (tracked / untracked / shared / unknown option, version, class name, default, compressor) in a random graph: "
                        "the keys of exactly the type(s) taking it and their descendants change", branch=lambda c, o: c["kind"])

    # 5. auto-inferred versions (oracle only); fuzzy matching: the predicate on its own, then enumerated end to end
    _run_auto(ctx)
    _run_match(ctx)
    fcases = fuzzy_cases(ctx.thorough)
    ctx.correspond("fuzzy", fcases, run_history, history_op, oracle_fuzzy, nontrivial=lambda c, o: bool(c["ff"] or c["ffo"]), exhaustive=True,
                   rule="aa <- bb stored by context 0; context 1 differs in every subset (<= 2) of {aa option, aa version, aa class, bb option, bb version} "
                        "x fuzzy_for in subsets of {aa, bb} x fuzzy_for_options in {[], ax, bx, ax+bx, ay}; tuple- and dict-valued options present",
                   branch=lambda c, o: f"diff={len(c['diff'])},accepted={o.split(' ;; ')[7][3:]}")


# ----------------------------------------------------------------------------- auto-inferred versions (__version__ = None)
AUTO_SRC = '''
import numpy as np
import strax

class AutoP(strax.Plugin):
    """plugin with an auto-inferred version; TAG is what its code computes"""
    __version__ = None
    provides = ("aa",)
    depends_on = ()
    dtype = strax.time_fields + [(("what the code computed", "tag"), np.int64)]
    rechunk_on_save = False
    TAG = {tag}

    def helper(self):
        return {tag}

    def is_ready(self, chunk_i):
        return chunk_i == 0

    def source_finished(self):
        return True

    def compute(self, chunk_i):
        r = np.zeros(1, dtype=self.dtype)
        r["endtime"] = 1
        r["tag"] = self.helper()
        return self.chunk(start=0, end=1, data=r)
'''
_AUTO = {}


def auto_class(module_name, tag):
    """the class AutoP from a real source file <module_name>_<tag>.py (inspect.getsource needs a file)"""
    import importlib
    key = (module_name, tag)
    if key not in _AUTO:
        d = os.path.join(_ROOT, "auto_modules")
        os.makedirs(d, exist_ok=True)
        name = f"{module_name}_{tag}"
        with open(os.path.join(d, name + ".py"), "w") as f:
            f.write(AUTO_SRC.format(tag=tag))
        if d not in sys.path:
            sys.path.insert(0, d)
        _AUTO[key] = importlib.import_module(name).AutoP
    return _AUTO[key]


def impl_auto(case):
    """register A; make; register B (same name, other code); get — B's rows must come back"""
    def f():
        A, B = auto_class(case["module"], case["tags"][0]), auto_class(case["module"], case["tags"][1])
        path = _tmpdir()
        st = strax.Context(storage=[strax.DataDirectory(path)], register=[A])
        with contextlib.redirect_stdout(io.StringIO()):
            first = int(st.get_array(RUN, "aa", progress_bar=False)["tag"][0])
            k1 = st.key_for(RUN, "aa").lineage_hash
            st.register(B)
            second = int(st.get_array(RUN, "aa", progress_bar=False)["tag"][0])
            k2 = st.key_for(RUN, "aa").lineage_hash
        shutil.rmtree(path, ignore_errors=True)
        return f"{first} {second} {int(k1 == k2)} {int(A.version() == B.version())}"
    return sl.guarded(f)


def oracle_auto(case, out):
    if not out.startswith("ok"):
        return f"unexpected error {out}"
    first, second, samekey, samever = map(int, out.split()[1:])
    a, b = case["tags"]
    if first != a:
        return "harness problem: first class did not compute its own tag"
    if second != b:
        return (f"a same-named class with __version__ = None and other code (module {case['module']}_*) was registered after data was "
                f"made: get_array returned rows computed by the OLD code (tag {second}, fresh context computes {b}); "
                f"same key: {bool(samekey)}, same auto version: {bool(samever)}")
    if a != b and (samekey or samever):
        return "code changed but the auto-inferred version / key did not"
    return None


def _own_attrs(cls):
    """attribute -> digest of its source (or repr), for the attributes the class itself defines"""
    import inspect
    out = []
    for a, obj in sorted(vars(cls).items()):
        if a.startswith("__") or a in cls.takes_config:
            continue
        try:
            txt = inspect.getsource(obj)
        except (TypeError, OSError):
            txt = repr(obj)
        out.append((a, hashlib.sha1(txt.encode()).hexdigest()[:12]))
    return out


def impl_autover(case):
    def f():
        A, B = auto_class(case["modules"][0], case["tags"][0]), auto_class(case["modules"][1], case["tags"][1])
        return str(A.version() == B.version())
    return sl.guarded(f)


def op_autover(case):
    A, B = auto_class(case["modules"][0], case["tags"][0]), auto_class(case["modules"][1], case["tags"][1])
    toks = ["c02.autover"]
    for cls in (A, B):
        attrs = _own_attrs(cls)
        toks += [str(len(attrs))] + [tok_s(a) + " " + tok_s(d) for a, d in attrs]
    return " ".join(toks)


def oracle_autover(case, out):
    same_code = case["tags"][0] == case["tags"][1]
    if out != "ok " + str(same_code):
        return (f"auto-inferred versions of AutoP from {case['modules'][0]}_{case['tags'][0]} and {case['modules'][1]}_{case['tags'][1]} "
                f"are {'equal' if out == 'ok True' else 'different'} although the code is {'the same' if same_code else 'different'}")
    return None


def _run_auto(ctx):
    mods = ("strax_c02auto", "straxen_like", "c02auto", "mypkg_strax")
    vcases = [dict(modules=[m1, m2], tags=[t1, t2]) for m1 in mods for m2 in mods for (t1, t2) in ((1, 2), (2, 3), (1, 1))
              if (m1, t1) != (m2, t2)]
    ctx.correspond("autoversion/version", vcases, impl_autover, op_autover, oracle_autover, exhaustive=True, nontrivial=lambda c, o: True,
                   rule="Plugin._auto_version of two generated classes (same / different code, modules named strax… / straxen… / other): "
                        "equal iff the sources of all attributes are equal (model: autoVersion over attribute -> source digest)",
                   branch=lambda c, o: o)
    cases = [dict(module=m, tags=[1, t]) for m in ("strax_c02auto", "straxen_like", "c02auto", "mypkg_strax") for t in (2, 3)]
    ctx.check_oracle("autoversion", cases, impl_auto, oracle_auto, exhaustive=True, nontrivial=lambda c, o: True,
                     rule="plugin classes with __version__ = None defined in real modules (names starting with strax…, straxen…, and others): "
                          "register A; get; register same-named B with other code; get must return B's rows under another key "
                          "(oracle only: the model takes the version string as given)", branch=lambda c, o: c["module"])


MATCH_CORPUS = [
    # D34: Python `==` of hashablized lineages accepted 1 for True (and 0.0 for 0, …) although the keys differ
    dict(stored=[["aa", "A", "1", [["ax", 1]]]], want=[["aa", "A", "1", [["ax", ["b", 1]]]]], ff=[], ffo=["ay"]),
    dict(stored=[["aa", "A", "1", [["ax", 0], ["ay", 5]]]], want=[["aa", "A", "1", [["ax", ["fl", "0.0"]], ["ay", 6]]]], ff=[], ffo=["ay"]),
    dict(stored=[["aa", "A", "1", [["ax", ["b", 0]]]]], want=[["aa", "A", "1", [["ax", 0]]]], ff=["bb"], ffo=[]),
    dict(stored=[["aa", "A", "1", [["ax", ["t", [1, 2]]]]]], want=[["aa", "A", "1", [["ax", ["l", [1, 2]]]]]], ff=[], ffo=["ay"]),
]


def _run_match(ctx):
    ctx.correspond("fuzzy/matches", MATCH_CORPUS, impl_match, op_match, oracle_match, rule="corpus of past failures (1 == True)")
    mcases = match_cases(ctx.rng, ctx.pick(300, 4000))
    ctx.correspond("fuzzy/matches", mcases, impl_match, op_match, oracle_match, nontrivial=lambda c, o: c["stored"] != c["want"],
                   rule="StorageFrontend._matches on a JSON-round-tripped stored lineage (2-3 types, tuple / list / dict / bool / None / float "
                        "option values) vs a wanted lineage with 0-3 edits (option value, version, class, dropped / added option or type, "
                        "reordering) under random fuzzy_for / fuzzy_for_options", branch=lambda c, o: o)


def search(ctx):
    rng = ctx.rng
    cases = [gen_history(rng) for _ in range(400)]
    ctx.check_oracle("search/history", cases, run_history, oracle_history)
    ctx.check_oracle("search/keychange", keychange_cases(rng, 200), run_history, oracle_keychange)


def replay(ctx, body):
    comp = body["component"]
    if body.get("case") is None:
        return f"obligation {comp} has no input to replay (no-failing-input-found); re-run the check"
    case = body["case"]["case"]
    if comp.startswith("hash"):
        out = impl_canon(case)
        print("implementation output:", out)
        res = hash_subprocesses([case], [0, 1, 2], [1, 2, 3])
        hs = [tuple(r[0]) for r in res]
        return None if len(set(hs)) == 1 else f"hash differs between processes: {hs}"
    if "matches" in comp:
        out = impl_match(case)
        print("implementation output:", out)
        return oracle_match(case, out)
    if "autoversion" in comp:
        out = impl_auto(case)
        print("implementation output:", out)
        return oracle_auto(case, out)
    out = run_history(case)
    print("implementation output:", out)
    if "keychange" in comp:
        return oracle_keychange(case, out)
    if "fuzzy" in comp:
        return oracle_fuzzy(case, out)
    return oracle_history(case, out)
