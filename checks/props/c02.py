"""C02 — stored data is reused only under an identical lineage (no stale reads).

Model: lean/StraxModel/Model/Lineage.lean; theorems: Props/C02.lean (lemmas in Lemmas/Lineage*.lean).
Tie: random and enumerated *histories* (set_config / register / new_context / set fuzzy options /
lineage / is_stored / make / get_array, each issued to one of two real contexts that share one
DataDirectory) are executed on the real strax.Context and on the compiled Lean state machine; every
step's observable is compared: the exact JSON text fed to SHA-1 for a lineage, is_stored, the error kind,
the provenance of the rows get_array returned, and the directory listing.
Oracle (independent of the model): a brand-new context with the same settings on an empty directory
returns rows of the same provenance; a tracked change / version bump / class change alters exactly the
keys of the type and its descendants, an untracked change alters none; fuzzy matching accepts exactly the
lineages that differ only in the named parts and writes nothing; hashes are identical in subprocesses with
other PYTHONHASHSEEDs and permuted insertion orders.

Provenance of rows: every harness plugin writes into its single output row the index of a table entry that
describes what it *really* used at compute time (class name, version, effective values of its tracked
options, provenance of its input rows) — independent of strax's own lineage bookkeeping.
"""
from __future__ import annotations

import base64
import contextlib
import hashlib
import io
import json
import logging
import os
import shutil
import subprocess
import sys
import tempfile

from lib import straxlib as sl          # must be the first import of strax (private numba cache)
from lib.straxlib import strax

import numpy as np                       # noqa: E402
from immutabledict import immutabledict  # noqa: E402

ID = "C02"
LEAN_MODULES = ["StraxModel.Props.C02"]
TRUSTED = [
    "SHA-1 + base32 truncation (`deterministic_hash`) is represented by an abstract injective function H; the check compares the text fed to it",
    "modelled not verified: CPython dict/set semantics, json.dumps formatting, numpy scalar/array conversion in NumpyJSONEncoder",
]
ASSUMPTIONS = [
    "one run id, one DataDirectory frontend, single-output plugins with save_when=ALWAYS (multi-output and save policies are C11's model)",
    "option values: int, str, tuple, list, dict with str keys, set of str (plus immutabledict / numpy scalars and arrays in the hash-only part)",
    "class identity is structural: the harness builds one class object per distinct class description",
    "use_per_run_defaults is off (with it strax does not cache plugins at all)",
]

RUN = "0"
logging.getLogger("strax").setLevel(logging.CRITICAL)

_ROOT = tempfile.mkdtemp(prefix="verif_c02_")
import atexit  # noqa: E402

_PID = os.getpid()
atexit.register(lambda: shutil.rmtree(_ROOT, ignore_errors=True) if os.getpid() == _PID else None)


def _tmpdir():
    return tempfile.mkdtemp(dir=_ROOT)


# ----------------------------------------------------------------------------- value language
# JSON-able description of a Python value: int | str | ["t", [..]] tuple | ["l", [..]] list |
# ["d", [[k, v], ..]] dict (insertion order) | ["D", ..] immutabledict | ["S", [str..]] set (listed
# order irrelevant) | ["F", ..] frozenset | ["ni", int] numpy int64 | ["na", [ints]] numpy array
def build(v):
    if isinstance(v, (int, str)):
        return v
    t, x = v
    if t == "t":
        return tuple(build(a) for a in x)
    if t == "l":
        return [build(a) for a in x]
    if t == "d":
        return {k: build(a) for k, a in x}
    if t == "D":
        return immutabledict({k: build(a) for k, a in x})
    if t == "S":
        return set(x)
    if t == "F":
        return frozenset(x)
    if t == "ni":
        return np.int64(x)
    if t == "na":
        return np.array(x, dtype=np.int64)
    raise ValueError(v)


def tok_s(s):
    assert " " not in s and "\n" not in s, s
    return "~" + s


def enc_py(o):
    """driver tokens of a real Python value (sets in their *iteration* order)"""
    if isinstance(o, (bool, np.bool_)):
        raise TypeError("bool not in the model")
    if isinstance(o, (int, np.integer)):
        return f"i {int(o)}"
    if isinstance(o, str):
        return "s " + tok_s(o)
    if isinstance(o, tuple):
        return " ".join([f"t {len(o)}"] + [enc_py(a) for a in o])
    if isinstance(o, list):
        return " ".join([f"l {len(o)}"] + [enc_py(a) for a in o])
    if isinstance(o, np.ndarray):
        return enc_py(o.tolist())
    if isinstance(o, (dict, immutabledict)):
        return " ".join([f"d {len(o)}"] + [tok_s(k) + " " + enc_py(a) for k, a in o.items()])
    if isinstance(o, (set, frozenset)):
        return " ".join([f"S {len(o)}"] + [tok_s(a) for a in o])
    raise TypeError(type(o))


def enc(v):
    return enc_py(build(v))


def canon_json(o):
    """the harness's own rendering of `json.dumps(hashablize(o))` (independent re-implementation)"""
    def c(o):
        if isinstance(o, (dict, immutabledict)):
            return [[k, c(o[k])] for k in sorted(o)]
        if isinstance(o, (tuple, list)):
            return [c(a) for a in o]
        if isinstance(o, np.ndarray):
            return c(o.tolist())
        if isinstance(o, (set, frozenset)):
            return sorted(c(a) for a in o)
        if isinstance(o, (np.integer,)):
            return int(o)
        return o
    return json.dumps(c(o))


def strax_json(o):
    """exactly what deterministic_hash feeds to SHA-1"""
    return json.dumps(strax.hashablize(o), cls=strax.utils.NumpyJSONEncoder)


def sha_b32(text, length=10):
    return base64.b32encode(hashlib.sha1(text.encode("ascii")).digest())[:length].decode("ascii").lower()


# ----------------------------------------------------------------------------- harness plugin classes
PROV_DTYPE = strax.time_fields + [(("Index into the provenance table", "prov"), np.int64)]
PROV_TABLE: list = []      # index -> lineage-shaped dict of what was really used
PROV_INDEX: dict = {}      # canon_json -> index


def _prov_id(prov):
    key = canon_json(prov)
    if key not in PROV_INDEX:
        PROV_INDEX[key] = len(PROV_TABLE)
        PROV_TABLE.append(prov)
    return PROV_INDEX[key]


def _provenance(self, inputs):
    cls = type(self)
    tc = cls.takes_config
    if cls.child_plugin:
        parent_opts = [o.parent_option_name for o in tc.values() if o.child_option]
        cfg = {}
        for k, o in tc.items():
            if k in parent_opts or not o.track:
                continue
            # a child option is read by the parent's code under the parent's name
            cfg[k] = self.config[o.parent_option_name] if o.child_option else self.config[k]
        for b in cls.__bases__:
            cfg[b.__name__] = b.version()
    else:
        cfg = {k: self.config[k] for k, o in tc.items() if o.track}
    prov = {cls.provides[-1]: (cls.__name__, cls.__version__, cfg)}
    for d in self.depends_on:
        prov.update(PROV_TABLE[int(inputs[d]["prov"][0])])
    return prov


def _row(self, inputs):
    r = np.zeros(1, dtype=self.dtype)
    r["time"] = 0
    r["endtime"] = 1
    r["prov"] = _prov_id(_provenance(self, inputs))
    return r


def _compute_for(deps):
    if not deps:
        def compute(self, chunk_i):
            return self.chunk(start=0, end=1, data=_row(self, {}))
        return compute
    names = list(dict.fromkeys(deps))   # duplicate dependencies are refused by Plugin.__init__, not here
    src = f"def compute(self, {', '.join(names)}):\n    return _row(self, dict(" + ", ".join(f"{d}={d}" for d in names) + "))\n"
    g = {"_row": _row}
    exec(src, g)
    return g["compute"]


_CLASS_MEMO: dict = {}


def make_class(spec):
    """spec: dict(name, version, provides, deps, opts=[[name, default|None, track, parent|None]], parent=spec|None,
    compressor, timeout).  One class object per distinct spec."""
    key = json.dumps(spec, sort_keys=True)
    if key in _CLASS_MEMO:
        return _CLASS_MEMO[key]
    base = make_class(spec["parent"]) if spec.get("parent") else strax.Plugin
    deps = tuple(spec["deps"])
    ns = dict(__version__=spec["version"], provides=(spec["provides"],), depends_on=deps, dtype=PROV_DTYPE,
              data_kind=spec["provides"], child_plugin=bool(spec.get("parent")), compressor=spec.get("compressor", "blosc"),
              input_timeout=spec.get("timeout", 80), compute=_compute_for(deps), rechunk_on_save=False)
    if not deps:
        ns["is_ready"] = lambda self, chunk_i: chunk_i == 0
        ns["source_finished"] = lambda self: True
    cls = type(spec["name"], (base,), ns)
    opts = []
    for name, default, track, parent in spec["opts"]:
        kw = dict(name=name, track=bool(track))
        if default is not None:
            kw["default"] = build(default[0])
        if parent is not None:
            kw.update(child_option=True, parent_option_name=parent)
        opts.append(strax.Option(**kw))
    if opts:
        cls = strax.takes_config(*opts)(cls)
    _CLASS_MEMO[key] = cls
    return cls


def enc_class(cls):
    """driver tokens, read off the real class object"""
    deps = strax.to_str_tuple(cls.depends_on)
    toks = [tok_s(cls.__name__), tok_s(cls.__version__), tok_s(strax.to_str_tuple(cls.provides)[-1]),
            str(len(deps)), *map(tok_s, deps), str(int(bool(cls.child_plugin)))]
    bases = [(b.__name__, b.version()) for b in cls.__bases__] if cls.child_plugin else []
    toks += [str(len(bases))] + [tok_s(x) for b in bases for x in b]
    toks += [tok_s(cls.compressor), str(int(cls.input_timeout)), str(len(cls.takes_config))]
    for name, o in cls.takes_config.items():
        toks += [tok_s(name), str(int(bool(o.track))), tok_s(o.parent_option_name) if o.child_option else "-"]
        if o.default is strax.OMITTED:
            toks.append("0")
        else:
            toks += ["1", enc_py(o.default)]
    return " ".join(toks)


# ----------------------------------------------------------------------------- running a history on real contexts
# op (JSON): ["SC", who, [[k, v], ..]] | ["RG", who, spec] | ["NC", who] | ["SF", who, [types], [opts]]
#          | ["LN", who, d] | ["ST", who, d] | ["MK", who, d] | ["GT", who, d] | ["LS"]
SIDE: dict = {}


def case_key(case):
    return json.dumps(case, sort_keys=True)


def op_tokens(op):
    tag = op[0]
    if tag == "LS":
        return "LS"
    who = str(int(op[1]))
    if tag == "SC":
        return " ".join(["SC", who, str(len(op[2]))] + [tok_s(k) + " " + enc(v) for k, v in op[2]])
    if tag == "RG":
        return " ".join(["RG", who, enc_class(make_class(op[2]))])
    if tag == "NC":
        return f"NC {who}"
    if tag == "SF":
        return " ".join(["SF", who, str(len(op[2])), *map(tok_s, op[2]), str(len(op[3])), *map(tok_s, op[3])])
    return f"{tag} {who} {tok_s(op[2])}"


def history_op(case):
    return " ".join(["c02.run", case.get("rules", "fixed")] + [op_tokens(o) for o in case["ops"]])


def listing(path):
    """[(type, json text of the metadata lineage, hash in the name)] of the complete data directories"""
    out = []
    for fn in sorted(os.listdir(path)):
        parts = fn.split("-")
        if len(parts) != 3 or fn.endswith("_temp"):
            continue
        with open(os.path.join(path, fn, f"{parts[1]}-{parts[2]}-metadata.json")) as f:
            md = json.load(f)
        out.append((parts[1], strax_json(md["lineage"]), parts[2]))
    return out


def fresh_get(ctx, d):
    """the oracle: a brand-new context with ctx's settings on an empty directory"""
    new = strax.Context(storage=[strax.DataDirectory(_tmpdir())], config=dict(ctx.config))
    for cls in dict.fromkeys(ctx._plugin_class_registry.values()):
        try:
            new.register(cls)
        except ValueError:
            pass   # default conflict: the class is registered all the same
    try:
        a = new.get_array(RUN, d, progress_bar=False)
        return "ok " + canon_json(PROV_TABLE[int(a["prov"][0])])
    except Exception as e:  # noqa: BLE001
        return "err " + sl.err_name(e)


def is_fuzzy(ctx):
    return bool(ctx.context_config["fuzzy_for"]) or bool(ctx.context_config["fuzzy_for_options"])


def run_history(case):
    with contextlib.redirect_stdout(io.StringIO()):   # strax prints "Source finished!"
        return _run_history(case)


def _run_history(case):
    path = _tmpdir()
    ctxs = [strax.Context(storage=[strax.DataDirectory(path)]), strax.Context(storage=[strax.DataDirectory(path)])]
    outs = []
    side = dict(fresh={}, hash_bad=[], fuzzy_wrote=[], fuzzy_data={}, listing_bad=[])
    for i, op in enumerate(case["ops"]):
        tag = op[0]
        try:
            if tag == "LS":
                ls = listing(path)
                for t, txt, h in ls:
                    if sha_b32(txt) != h:
                        side["listing_bad"].append([i, t, txt, h])
                out = "ok " + (" & ".join(sorted(f"{t}={txt}" for t, txt, _ in ls)) if ls else "-")
                outs.append(out)
                continue
            who = int(op[1])
            ctx = ctxs[who]
            before = sorted(os.listdir(path)) if is_fuzzy(ctx) else None
            if tag == "SC":
                ctx.set_config({k: build(v) for k, v in op[2]})
                out = "ok"
            elif tag == "RG":
                ctx.register(make_class(op[2]))
                out = "ok"
            elif tag == "NC":
                ctxs[who] = ctx.new_context()
                out = "ok"
            elif tag == "SF":
                ctx.set_context_config(dict(fuzzy_for=tuple(op[2]), fuzzy_for_options=tuple(op[3])))
                out = "ok"
            elif tag == "LN":
                lin = ctx.lineage(RUN, op[2])
                txt = strax_json(lin)
                key = ctx.key_for(RUN, op[2])
                if sha_b32(txt) != key.lineage_hash or strax.deterministic_hash(lin) != key.lineage_hash:
                    side["hash_bad"].append([i, txt, key.lineage_hash])
                out = "ok " + txt
            elif tag == "ST":
                out = "ok " + str(bool(ctx.is_stored(RUN, op[2])))
            elif tag == "MK":
                ctx.make(RUN, op[2], progress_bar=False)
                out = "ok"
            elif tag == "GT":
                a = ctx.get_array(RUN, op[2], progress_bar=False)
                got = canon_json(PROV_TABLE[int(a["prov"][0])])
                if is_fuzzy(ctx):
                    side["fuzzy_data"][str(i)] = got
                    out = "ok fuzzy"
                else:
                    out = "ok " + got
            else:
                raise ValueError(tag)
        except Exception as e:  # noqa: BLE001
            out = "err " + sl.err_name(e)
        if tag == "GT" and not is_fuzzy(ctxs[int(op[1])]):
            side["fresh"][str(i)] = fresh_get(ctxs[int(op[1])], op[2])
        if before is not None and tag in ("MK", "GT", "ST", "LN"):
            after = sorted(os.listdir(path))
            if after != before:
                side["fuzzy_wrote"].append([i, sorted(set(after) - set(before))])
        if out.startswith("err"):
            # a failed get leaves the savers' "<dir>_temp" folders behind (crash leftovers are C04's subject)
            for fn in os.listdir(path):
                if fn.endswith("_temp"):
                    shutil.rmtree(os.path.join(path, fn), ignore_errors=True)
        outs.append(out)
    SIDE[case_key(case)] = side
    shutil.rmtree(path, ignore_errors=True)
    return " ;; ".join(outs)


def oracle_history(case, out):
    side = SIDE.get(case_key(case))
    if side is None:
        return "history was not executed"
    steps = out.split(" ;; ")
    if len(steps) != len(case["ops"]):
        return "step count mismatch"
    for i, txt, h in side["hash_bad"]:
        return f"step {i}: key_for's hash {h} is not the SHA-1 of the JSON text of lineage() ({txt})"
    for i, t, txt, h in side["listing_bad"]:
        return f"step {i}: directory of {t} named {h} holds metadata lineage hashing to something else"
    for i, new in side["fuzzy_wrote"]:
        return f"step {i}: a context with fuzzy matching switched on wrote {new}"
    for i, fresh in side["fresh"].items():
        got = steps[int(i)]
        if fresh.startswith("ok") and got != fresh:
            return (f"step {i} ({case['ops'][int(i)]}): get_array returned {got}, a brand-new context with the "
                    f"same settings on an empty directory computes {fresh}")
        if fresh.startswith("err") and got.startswith("ok"):
            # data exists although a fresh context cannot compute it: only legitimate for missing required options
            if fresh != "err Other":
                return f"step {i}: get_array returned {got}, a brand-new context fails with {fresh}"
    return None


# ----------------------------------------------------------------------------- generators
TYPES = ["aa", "bb", "cc", "dd"]
SHAPES = {
    "chain": dict(aa=[], bb=["aa"], cc=["bb"], dd=["cc"]),
    "diamond": dict(aa=[], bb=["aa"], cc=["aa"], dd=["bb", "cc"]),
    "fork": dict(aa=[], bb=[], cc=["aa", "bb"], dd=["cc"]),
    "short": dict(aa=[], bb=["aa"]),
    "vee": dict(aa=[], bb=["aa"], cc=["aa"]),
}
VALUES = [0, 1, 2, 3, "x", "yy", ["t", [1, 2]], ["t", [2, 1]], ["l", [1, 2]], ["t", []], ["d", [["k", 1]]],
          ["d", [["k", 2], ["j", ["t", [1]]]]], ["d", [["j", ["t", [1]]], ["k", 2]]], ["t", [["t", [1, "a"]], 2]]]


def descendants_or_self(shape, t):
    out = {t}
    changed = True
    while changed:
        changed = False
        for x, deps in shape.items():
            if x not in out and any(d in out for d in deps):
                out.add(x)
                changed = True
    return out


def base_spec(t, deps, rng, shared=True):
    """class of data type t: own tracked option t_t, own untracked t_u, optionally the shared tracked option sh"""
    opts = [[f"{t}_t", [rng.choice([0, 1, 2])], 1, None], [f"{t}_u", [rng.choice([0, 1])], 0, None]]
    if shared and rng.random() < 0.5:
        opts.append(["sh", [7], 1, None])
    return dict(name=f"P{t}", version="0.0.1", provides=t, deps=list(deps), opts=opts, parent=None, compressor="blosc", timeout=80)


def variant(spec, rng, all_specs, shape):
    """a same-named (or renamed) replacement class for the same data type"""
    s = json.loads(json.dumps(spec))
    t = s["provides"]
    kind = rng.choice(["default", "default", "udefault", "version", "name", "deps", "track", "shared", "compressor", "child",
                       "nodefault", "same"])
    if kind == "default":
        s["opts"][0][1] = [rng.choice(VALUES)]
    elif kind == "udefault":
        s["opts"][1][1] = [rng.choice(VALUES)]
    elif kind == "version":
        s["version"] = rng.choice(["0.0.2", "0.1.0", "1"])
    elif kind == "name":
        s["name"] = s["name"] + rng.choice(["X", "Y"])
    elif kind == "deps":
        pool = [x for x in TYPES if x != t] + ["zz", t]
        k = rng.choice([0, 1, 1, 2])
        s["deps"] = rng.sample(pool, k)
    elif kind == "track":
        i = rng.randrange(len(s["opts"]))
        s["opts"][i][2] = 1 - s["opts"][i][2]
    elif kind == "shared":
        s["opts"] = [o for o in s["opts"] if o[0] != "sh"] + [["sh", [rng.choice([7, 7, 8])], 1, None]]
    elif kind == "compressor":
        s["compressor"] = "zstd"
        s["timeout"] = 81
    elif kind == "child":
        parents = [p for p in all_specs if p["provides"] != t and not p.get("parent")]
        if parents:
            p = rng.choice(parents)
            tracked = [o for o in p["opts"] if o[3] is None]
            po = rng.choice(tracked)
            s = dict(name=f"C{t}", version="0.0.3", provides=t, deps=s["deps"], parent=p, compressor="blosc", timeout=80,
                     opts=[[f"{t}_c", [rng.choice([4, 5, ["t", [4]]])], po[2], po[0]], [f"{t}_t", [rng.choice([0, 1])], 1, None]])
    elif kind == "nodefault":
        s["opts"].append([f"{t}_n", None, rng.choice([0, 1]), None])
    return s


def option_names(specs):
    names = []
    for s in specs:
        p = s
        while p:
            names += [o[0] for o in p["opts"]]
            p = p.get("parent")
    return sorted(set(names))


def gen_history(rng, max_len=12):
    shape_name = rng.choice(list(SHAPES))
    shape = SHAPES[shape_name]
    specs = {t: base_spec(t, deps, rng) for t, deps in shape.items()}
    types = list(shape)
    ops = []
    # both contexts start from the same graph most of the time
    for who in (0, 1):
        if who == 1 and rng.random() < 0.15:
            continue
        for t in types:
            ops.append(["RG", who, specs[t]])
    current = {0: dict(specs), 1: dict(specs)}
    n = rng.randint(3, max_len)
    for _ in range(n):
        who = 0 if rng.random() < 0.7 else 1
        r = rng.random()
        cur = current[who]
        if r < 0.22:
            t = rng.choice(types)
            s = variant(cur.get(t, specs[t]), rng, list(cur.values()), shape)
            try:
                make_class(s)
            except RuntimeError:      # e.g. an option specified twice along the inheritance chain: not a class at all
                s = cur.get(t, specs[t])
            cur[t] = s
            ops.append(["RG", who, s])
        elif r < 0.42:
            names = option_names(cur.values()) + ["free_opt"]
            # sometimes an option that is named like a data type
            k = rng.choice(names) if rng.random() < 0.93 else rng.choice(types)
            ops.append(["SC", who, [[k, rng.choice(VALUES)]]])
        elif r < 0.47:
            ops.append(["NC", who])
        elif r < 0.49:
            ff = [t for t in types if rng.random() < 0.3]
            ffo = [o for o in option_names(cur.values()) if rng.random() < 0.2]
            ops.append(["SF", who, ff, ffo])
        elif r < 0.51:
            ops.append(["SF", who, [], []])
        elif r < 0.62:
            ops.append(["MK", who, rng.choice(types)])
        elif r < 0.84:
            ops.append(["GT", who, rng.choice(types * 4 + ["zz"])])
        elif r < 0.92:
            ops.append(["LN", who, rng.choice(types)])
        elif r < 0.97:
            ops.append(["ST", who, rng.choice(types)])
        else:
            ops.append(["LS"])
    # closing sweep: what does every context see now, and what is on disk
    for who in (0, 1):
        t = rng.choice(types)
        ops.append(["GT", who, t])
    ops.append(["LS"])
    return dict(shape=shape_name, ops=ops)


def nontrivial_history(case, out):
    """a read after data was made and settings changed in between"""
    tags = [o[0] for o in case["ops"]]
    made = [i for i, t in enumerate(tags) if t in ("MK", "GT")]
    if not made:
        return False
    first = made[0]
    changed = [i for i, o in enumerate(case["ops"]) if i > first and o[0] in ("RG", "SC", "NC")]
    return bool(changed) and any(i > changed[0] for i in made)


def branch_history(case, out):
    steps = out.split(" ;; ")
    errs = sorted({s for s in steps if s.startswith("err")})
    return ",".join(e[4:] for e in errs) if errs else "clean"


# -- directed families -----------------------------------------------------------------------------
def d4_family():
    """register P(default 1); make; register P'(default 2); get — and relatives"""
    def P(default, version="1", name="P", opts=None):
        return dict(name=name, version=version, provides="aa", deps=[], parent=None, compressor="blosc", timeout=80,
                    opts=opts if opts is not None else [["x", [default], 1, None]])
    Q = dict(name="Q", version="1", provides="bb", deps=["aa"], parent=None, compressor="blosc", timeout=80, opts=[["y", [0], 1, None]])
    out = []
    for first, second in [(P(1), P(2)), (P(1), P(1, version="2")), (P(1), P(1, name="P2")), (P(1), P(1, opts=[["x", [1], 0, None]])),
                          (P(1), P(["t", [1]])), (P(1), P(1))]:
        for target in ("aa", "bb"):
            for pre in (["MK", 0, target], ["GT", 0, target], ["LN", 0, target], ["ST", 0, target]):
                out.append(dict(ops=[["RG", 0, first], ["RG", 0, Q], pre, ["RG", 0, second], ["GT", 0, target], ["LN", 0, target], ["LS"]]))
    # an option named like a data type (the context hash used to lose it)
    A = dict(name="A", version="1", provides="aa", deps=[], parent=None, compressor="blosc", timeout=80, opts=[["aa", [1], 1, None]])
    for v in (2, ["t", [1]]):
        out.append(dict(ops=[["RG", 0, A], ["GT", 0, "aa"], ["SC", 0, [["aa", v]]], ["GT", 0, "aa"], ["LN", 0, "aa"], ["LS"]]))
        out.append(dict(ops=[["RG", 0, A], ["SC", 0, [["aa", 1]]], ["MK", 0, "aa"], ["SC", 0, [["aa", v]]], ["GT", 0, "aa"], ["LS"]]))
    # a second context with other settings writes to the same directory
    for v in (1, 2):
        out.append(dict(ops=[["RG", 0, P(1)], ["RG", 1, P(1)], ["SC", 1, [["x", v]]], ["MK", 1, "aa"], ["ST", 0, "aa"], ["GT", 0, "aa"], ["LS"]]))
    # missing option, missing dependency, cycle, duplicate dependency, child of a parent lacking the option
    N = dict(name="N", version="1", provides="aa", deps=[], parent=None, compressor="blosc", timeout=80, opts=[["n", None, 1, None]])
    out.append(dict(ops=[["RG", 0, N], ["LN", 0, "aa"], ["GT", 0, "aa"], ["SC", 0, [["n", 3]]], ["GT", 0, "aa"], ["LS"]]))
    Nu = dict(N, opts=[["n", None, 0, None]])
    out.append(dict(ops=[["RG", 0, Nu], ["RG", 1, Nu], ["SC", 1, [["n", 3]]], ["MK", 1, "aa"], ["GT", 0, "aa"], ["LS"]]))
    out.append(dict(ops=[["RG", 0, dict(Q, deps=["zz"])], ["LN", 0, "bb"], ["GT", 0, "bb"], ["ST", 0, "bb"]]))
    out.append(dict(ops=[["RG", 0, P(1)], ["RG", 0, dict(Q, deps=["aa", "bb"])], ["LN", 0, "bb"], ["GT", 0, "bb"], ["GT", 0, "aa"], ["LN", 0, "bb"]]))
    out.append(dict(ops=[["RG", 0, P(1)], ["RG", 0, dict(Q, deps=["aa", "aa"])], ["LN", 0, "bb"], ["GT", 0, "bb"]]))
    Cbad = dict(name="Cb", version="1", provides="bb", deps=["aa"], parent=P(1), compressor="blosc", timeout=80, opts=[["c", [5], 1, "nope"]])
    out.append(dict(ops=[["RG", 0, P(1)], ["RG", 0, Cbad], ["LN", 0, "bb"], ["GT", 0, "bb"]]))
    Cnod = dict(name="Cn", version="1", provides="bb", deps=["aa"], parent=P(1), compressor="blosc", timeout=80, opts=[["c", None, 1, "x"]])
    out.append(dict(ops=[["RG", 0, P(1)], ["RG", 0, Cnod], ["LN", 0, "bb"], ["SC", 0, [["c", 9]]], ["LN", 0, "bb"], ["GT", 0, "bb"], ["LS"]]))
    Cok = dict(name="Ck", version="2", provides="bb", deps=["aa"], parent=P(1), compressor="blosc", timeout=80,
               opts=[["c", [5], 1, "x"], ["own", [0], 1, None]])
    out.append(dict(ops=[["RG", 0, P(1)], ["RG", 0, Cok], ["LN", 0, "bb"], ["GT", 0, "bb"], ["SC", 0, [["x", 3]]], ["LN", 0, "bb"], ["GT", 0, "bb"],
                         ["SC", 0, [["c", 6]]], ["LN", 0, "bb"], ["GT", 0, "bb"], ["LS"]]))
    # default conflict on a shared option: ValueError, but the class is registered
    S1 = dict(name="S1", version="1", provides="aa", deps=[], parent=None, compressor="blosc", timeout=80, opts=[["sh", [7], 1, None]])
    S2 = dict(name="S2", version="1", provides="bb", deps=["aa"], parent=None, compressor="blosc", timeout=80, opts=[["sh", [8], 1, None]])
    out.append(dict(ops=[["RG", 0, S1], ["RG", 0, S2], ["LN", 0, "bb"], ["GT", 0, "bb"], ["LS"]]))
    return out


def keychange_cases(rng, n):
    """[register graph, set config, LN all, one change, LN all] with the expected set of changed keys"""
    out = []
    for _ in range(n):
        shape_name = rng.choice(list(SHAPES))
        shape = SHAPES[shape_name]
        specs = {t: base_spec(t, deps, rng) for t, deps in shape.items()}
        types = list(shape)
        ops = [["RG", 0, specs[t]] for t in types]
        preset = {}
        if rng.random() < 0.5:
            t = rng.choice(types)
            preset[f"{t}_t"] = rng.choice([0, 1, 2])
            ops.append(["SC", 0, [[k, v] for k, v in preset.items()]])
        ops += [["LN", 0, t] for t in types]
        t = rng.choice(types)
        kind = rng.choice(["tracked", "untracked", "version", "class", "default", "udefault", "shared", "free", "compressor"])
        expect = set()
        if kind == "tracked":
            old = preset.get(f"{t}_t", specs[t]["opts"][0][1][0])
            new = rng.choice([v for v in VALUES if canon_json(build(v)) != canon_json(build(old))])
            ops.append(["SC", 0, [[f"{t}_t", new]]])
            expect = descendants_or_self(shape, t)
        elif kind == "untracked":
            ops.append(["SC", 0, [[f"{t}_u", rng.choice(VALUES[4:])]]])
        elif kind == "free":
            ops.append(["SC", 0, [["free_opt", rng.choice(VALUES)]]])
        elif kind == "shared":
            takers = [x for x in types if any(o[0] == "sh" for o in specs[x]["opts"])]
            ops.append(["SC", 0, [["sh", rng.choice([8, "z"])]]])
            for x in takers:
                expect |= descendants_or_self(shape, x)
        elif kind == "version":
            ops.append(["RG", 0, dict(specs[t], version="9.9")])
            expect = descendants_or_self(shape, t)
        elif kind == "class":
            ops.append(["RG", 0, dict(specs[t], name="Other")])
            expect = descendants_or_self(shape, t)
        elif kind == "compressor":
            ops.append(["RG", 0, dict(specs[t], compressor="zstd", timeout=3)])
        elif kind == "default":
            s = json.loads(json.dumps(specs[t]))
            old = s["opts"][0][1][0]
            s["opts"][0][1] = [rng.choice([v for v in VALUES if canon_json(build(v)) != canon_json(build(old))])]
            ops.append(["RG", 0, s])
            if f"{t}_t" not in preset:
                expect = descendants_or_self(shape, t)
        elif kind == "udefault":
            s = json.loads(json.dumps(specs[t]))
            s["opts"][1][1] = [rng.choice(VALUES[4:])]
            ops.append(["RG", 0, s])
        ops += [["LN", 0, x] for x in types]
        out.append(dict(shape=shape_name, kind=kind, types=types, expect=sorted(expect), ops=ops))
    return out


def oracle_keychange(case, out):
    msg = oracle_history(case, out)
    if msg:
        return msg
    steps = out.split(" ;; ")
    n = len(case["types"])
    lns = [i for i, o in enumerate(case["ops"]) if o[0] == "LN"]
    before, after = lns[:n], lns[n:]
    if any(not steps[i].startswith("ok") for i in before + after):
        return f"lineage() failed in a well-formed graph: {[steps[i] for i in before + after]}"
    changed = sorted(t for t, i, j in zip(case["types"], before, after) if steps[i] != steps[j])
    if changed != case["expect"]:
        return (f"{case['kind']} change on {case['ops'][before[-1] + 1]}: keys changed for {changed}, "
                f"expected exactly {case['expect']} (the type and its descendants / nothing for untracked)")
    return None


def fuzzy_cases(thorough):
    """context 0 makes bb (aa <- bb); context 1 differs in a subset of parts and asks with every fuzzy setting"""
    def A(x=1, version="1", name="A"):
        return dict(name=name, version=version, provides="aa", deps=[], parent=None, compressor="blosc", timeout=80,
                    opts=[["ax", [x], 1, None], ["ay", [["t", [1, 2]]], 1, None]])

    def B(x=1, version="1", name="B"):
        return dict(name=name, version=version, provides="bb", deps=["aa"], parent=None, compressor="blosc", timeout=80,
                    opts=[["bx", [x], 1, None], ["sh", [["d", [["k", ["t", [3]]]]]], 1, None]])
    parts = ["a.ax", "a.version", "a.cls", "b.bx", "b.version"]
    out = []
    subsets = [()] + [(p,) for p in parts] + [("a.ax", "b.bx"), ("a.ax", "b.version"), ("a.version", "b.bx"), ("a.cls", "b.bx")]
    ffs = [[], ["aa"], ["bb"], ["aa", "bb"]]
    ffos = [[], ["ax"], ["bx"], ["ax", "bx"], ["ay"]]
    for diff in subsets:
        a2 = A(x=2 if "a.ax" in diff else 1, version="2" if "a.version" in diff else "1", name="A2" if "a.cls" in diff else "A")
        b2 = B(x=2 if "b.bx" in diff else 1, version="2" if "b.version" in diff else "1")
        for ff in ffs:
            for ffo in ffos:
                if not thorough and len(diff) == 2 and (len(ff) == 2 or len(ffo) == 2):
                    continue
                # is the difference covered by the named parts?
                def covered(p):
                    t, what = p.split(".")
                    typ = "aa" if t == "a" else "bb"
                    if typ in ff:
                        return True
                    return what in ("ax", "bx") and what in ffo
                exp_bb = all(covered(p) for p in diff)
                exp_aa = all(covered(p) for p in diff if p.startswith("a."))
                ops = [["RG", 0, A()], ["RG", 0, B()], ["MK", 0, "bb"], ["RG", 1, a2], ["RG", 1, b2], ["SF", 1, ff, ffo],
                       ["ST", 1, "bb"], ["ST", 1, "aa"], ["GT", 1, "bb"], ["GT", 1, "aa"], ["LS"], ["SF", 1, [], []], ["ST", 1, "bb"], ["LS"]]
                out.append(dict(diff=list(diff), ff=ff, ffo=ffo, expect=[exp_bb, exp_aa], exact=not diff, ops=ops))
    return out


def oracle_fuzzy(case, out):
    msg = oracle_history(case, out)
    if msg:
        return msg
    steps = out.split(" ;; ")
    side = SIDE[case_key(case)]
    got = [steps[6], steps[7]]
    want = ["ok " + str(case["expect"][0]), "ok " + str(case["expect"][1])]
    fuzzy_on = bool(case["ff"] or case["ffo"])
    if not fuzzy_on:
        want = ["ok " + str(case["exact"]), "ok " + str(not any(p.startswith("a.") for p in case["diff"]))]
    if got != want:
        return (f"stored lineage differs in {case['diff']}, fuzzy_for={case['ff']} fuzzy_for_options={case['ffo']}: "
                f"is_stored(bb), is_stored(aa) = {got}, expected {want} (accepted exactly when every difference is named)")
    if fuzzy_on:
        # rows returned under fuzzy matching: the stored ones when accepted
        stored_bb = steps[10]
        if case["expect"][0] and side["fuzzy_data"].get("8") is None:
            return "accepted data was not returned"
    # nothing written while fuzzy was on: the listing after equals the listing of the two directories made by context 0
    if fuzzy_on and steps[10].count("=") != 2:
        return f"directory listing changed under fuzzy matching: {steps[10]}"
    return None


# ----------------------------------------------------------------------------- hashing: model, seeds, insertion orders
HASH_CHILD = r'''
import json, os, sys, random
sys.path.insert(0, os.environ["STRAX_REPO_PATH"])
import numpy as np
from immutabledict import immutabledict
from strax.utils import deterministic_hash, hashablize, NumpyJSONEncoder

def build(v, rng):
    if isinstance(v, (int, str)):
        return v
    t, x = v
    if t == "t": return tuple(build(a, rng) for a in x)
    if t == "l": return [build(a, rng) for a in x]
    if t in ("d", "D"):
        items = list(x)
        rng.shuffle(items)                      # permuted insertion order
        d = {k: build(a, rng) for k, a in items}
        return d if t == "d" else immutabledict(d)
    if t in ("S", "F"):
        items = list(x)
        rng.shuffle(items)
        return set(items) if t == "S" else frozenset(items)
    if t == "ni": return np.int64(x)
    if t == "na": return np.array(x, dtype=np.int64)
    raise ValueError(v)

cases = json.load(sys.stdin)
rng = random.Random(int(os.environ.get("PERM_SEED", "0")))
out = []
for v in cases:
    try:
        cfg = {"opt": build(v, rng), "other": 1}
        items = list(cfg.items()); rng.shuffle(items)
        lin = {"foo": ("P", "1", dict(items)), "bar": ("Q", "2", {})}
        litems = list(lin.items()); rng.shuffle(litems)
        lin = dict(litems)
        out.append([deterministic_hash(lin), json.dumps(hashablize(lin), cls=NumpyJSONEncoder)])
    except Exception as e:
        out.append(["err " + type(e).__name__, ""])
json.dump(out, sys.stdout)
'''


def gen_value(rng, depth=0, rich=True):
    r = rng.random()
    if depth >= 3 or r < 0.3:
        return rng.choice([0, 1, -7, 12345678901, "a", "bc", "", "q\"uote", "back\\slash", "A_b.9"])
    if r < 0.45:
        return ["t", [gen_value(rng, depth + 1, rich) for _ in range(rng.randint(0, 3))]]
    if r < 0.55:
        return ["l", [gen_value(rng, depth + 1, rich) for _ in range(rng.randint(0, 3))]]
    if r < 0.8:
        keys = rng.sample(["k", "j", "a", "zz", "B", "k2", "_", "0"], rng.randint(0, 4))
        kind = "d" if (not rich or depth > 0 or rng.random() < 0.7) else "D"
        return [kind, [[k, gen_value(rng, depth + 1, rich)] for k in keys]]
    if r < 0.9:
        return ["S", rng.sample(["alpha", "beta", "gamma", "delta", "e", "f", "Z", "a1"], rng.randint(0, 5))]
    if rich and r < 0.95:
        return ["ni", rng.choice([0, 5, -3])]
    if rich:
        return ["na", [rng.randint(-3, 3) for _ in range(rng.randint(0, 3))]]
    return rng.randint(0, 9)


def impl_canon(case):
    v = build(case["v"])

    def f():
        return strax_json(v)
    return sl.guarded(f)


def hash_subprocesses(cases, seeds, perm_seeds):
    script = os.path.join(_ROOT, "hash_child.py")
    with open(script, "w") as f:
        f.write(HASH_CHILD)
    procs = []
    for hs, ps in zip(seeds, perm_seeds):
        env = dict(os.environ, PYTHONHASHSEED=str(hs), PERM_SEED=str(ps), STRAX_REPO_PATH=str(sl.REPO))
        procs.append(subprocess.Popen([sys.executable, script], stdin=subprocess.PIPE, stdout=subprocess.PIPE, stderr=subprocess.PIPE,
                                      env=env, text=True))
    payload = json.dumps([c["v"] for c in cases])
    results = []
    for p in procs:
        o, e = p.communicate(payload, timeout=900)
        if p.returncode != 0:
            raise RuntimeError("hash subprocess failed: " + e[-800:])
        results.append(json.loads(o))
    return results


# ----------------------------------------------------------------------------- run / search / replay
def run(ctx):
    rng = ctx.rng

    # 1. the JSON text fed to SHA-1: model vs real, and across hash seeds / insertion orders
    vcases = [dict(v=v) for v in VALUES] + [dict(v=gen_value(rng)) for _ in range(ctx.pick(600, 4000))]
    vcases += [dict(v=["S", ["alpha", "beta", "gamma", "delta"]]), dict(v=["t", [1, ["S", ["a", "b", "c"]]]]),
               dict(v=["d", [["k", ["S", ["x", "y", "z"]]]]])]
    seeds = ctx.pick([0, 1, 2], [0, 1, 2, 3, 4, 5])
    results = hash_subprocesses(vcases, seeds, [rng.randrange(10**6) for _ in seeds])
    cross = {}
    for i, c in enumerate(vcases):
        hs = [r[i] for r in results]
        if len({tuple(h) for h in hs}) != 1:
            cross[case_key(c)] = hs

    def oracle_canon(case, out):
        bad = cross.get(case_key(case))
        if bad:
            return f"hash differs between processes (PYTHONHASHSEED {seeds}, permuted insertion orders): {bad}"
        return None
    ctx.correspond("hash/json-text", vcases, impl_canon, lambda c: "c02.canon " + enc(c["v"]), oracle_canon,
                   nontrivial=lambda c, o: not isinstance(c["v"], (int, str)),
                   rule="random nested values (int, str incl. quotes/backslashes, tuple, list, dict, immutabledict, set of str, numpy scalar/array): "
                        "json.dumps(hashablize(v)) vs the model's canonString; oracle: identical deterministic_hash in subprocesses with "
                        f"PYTHONHASHSEED {seeds} and shuffled dict/set insertion orders",
                   branch=lambda c, o: "scalar" if isinstance(c["v"], (int, str)) else c["v"][0])

    # 2. directed histories (D4 family, option named like a type, second context, malformed graphs)
    ctx.correspond("history/directed", d4_family(), run_history, history_op, oracle_history, nontrivial=nontrivial_history,
                   rule="register P; make|get|lineage|is_stored; register P' (other default / version / name / track flag / same); get — for the type "
                        "and a dependent type; option named like a data type; second context writing with other settings; missing option / dependency, "
                        "cycle, duplicate dependency, child plugins, default conflict", exhaustive=True, branch=branch_history)

    # 3. random histories
    hcases = [gen_history(rng) for _ in range(ctx.pick(300, 2500))]
    ctx.correspond("history/random", hcases, run_history, history_op, oracle_history, nontrivial=nontrivial_history,
                   rule="random histories (3..12 ops after the initial registrations, closing get on both contexts + listing) over chain / diamond / fork "
                        "graphs of 2-4 real plugin classes with tracked, untracked, shared, child and default-less options; non-trivial = a read after "
                        "data was made and settings changed in between", branch=branch_history,
                   in_hyp=lambda c, o: any(v.startswith("ok") for v in SIDE[case_key(c)]["fresh"].values()))

    # 4. which keys change
    kcases = keychange_cases(rng, ctx.pick(150, 1000))
    ctx.correspond("keychange", kcases, run_history, history_op, oracle_keychange, nontrivial=lambda c, o: True,
                   rule="one change (tracked / untracked / shared / unknown option, version, class name, default, compressor) in a random graph: "
                        "the keys of exactly the type(s) taking it and their descendants change", branch=lambda c, o: c["kind"])

    # 5. fuzzy matching, enumerated
    fcases = fuzzy_cases(ctx.thorough)
    ctx.correspond("fuzzy", fcases, run_history, history_op, oracle_fuzzy, nontrivial=lambda c, o: bool(c["ff"] or c["ffo"]), exhaustive=True,
                   rule="aa <- bb stored by context 0; context 1 differs in every subset (<= 2) of {aa option, aa version, aa class, bb option, bb version} "
                        "x fuzzy_for in subsets of {aa, bb} x fuzzy_for_options in {[], ax, bx, ax+bx, ay}; tuple- and dict-valued options present",
                   branch=lambda c, o: f"diff={len(c['diff'])},accepted={o.split(' ;; ')[6][3:]}")


def search(ctx):
    rng = ctx.rng
    cases = [gen_history(rng) for _ in range(400)]
    ctx.check_oracle("search/history", cases, run_history, oracle_history)
    ctx.check_oracle("search/keychange", keychange_cases(rng, 200), run_history, oracle_keychange)


def replay(ctx, body):
    comp = body["component"]
    if body.get("case") is None:
        return f"obligation {comp} has no input to replay (no-failing-input-found); re-run the check"
    case = body["case"]["case"]
    if comp.startswith("hash"):
        out = impl_canon(case)
        print("implementation output:", out)
        res = hash_subprocesses([case], [0, 1, 2], [1, 2, 3])
        hs = [tuple(r[0]) for r in res]
        return None if len(set(hs)) == 1 else f"hash differs between processes: {hs}"
    out = run_history(case)
    print("implementation output:", out)
    if "keychange" in comp:
        return oracle_keychange(case, out)
    if "fuzzy" in comp:
        return oracle_fuzzy(case, out)
    return oracle_history(case, out)
