"""C08 — plugins see time-aligned inputs and receive each input row exactly once.

Model: lean/StraxModel/Model/Align.lean (`Strax.Align.iterModel`, a line-by-line model of `Plugin.iter`
plus the time-range check of `Plugin.do_compute`; the save policy is decided by `saveWhenStrict` from the
`save_when` values); theorems: Props/C08.lean (23).
Tie: a recording plugin (single- or multi-output, `save_when` in NEVER / EXPLICIT / TARGET / ALWAYS or dict-valued)
is driven through the REAL `Plugin.iter` with guarded plain iterators of real `strax.Chunk` objects (1-4
dependencies, 1-3 data kinds, every dependency in its own law-abiding chunking, `iters` in any key order);
the list of `compute` calls (start, end, rows per dependency) or the error kind is diffed with the driver
(`c08.iter s:<save_when values> …`); one component repeats a subset at epoch-scale times (1.7e18 ns).
Oracle: the property's wording evaluated directly on the real call list and on the `(start, end)` of every
merged input chunk handed to `do_compute`: alignment, adjacency, every row delivered exactly once and in
order, nothing dropped without an error by a plugin that is saved by default (TARGET / ALWAYS, any output),
and errors only when an error is sanctioned — different run ends, an unfetched trailing zero-duration chunk,
or the ten-pass limit, the latter accepted only when the MODEL classifies this very input as that limit
(`c08.tenpass`; D9 is a finding of C01, not a C08 violation: an error is raised, nothing is dropped).
"""
from __future__ import annotations

import itertools
import json
import os
import signal
import warnings

import numpy as np
from immutabledict import immutabledict

from lib import gen
from lib import straxlib as sl
from lib.straxlib import strax

ID = "C08"
LEAN_MODULES = ["StraxModel.Props.C08"]
TRUSTED = [
    "recording harness plugins (compute records start, end and the per-dependency id / time / endtime columns it is handed; an overridden do_compute records the (start, end) of every merged input chunk and then calls the real one)",
    "the real code is evaluated in forked worker processes for large batches (same function, same inputs)",
    "modelled not verified: numpy concatenate / slicing, strax.merge_arrs column merge (the harness gives every dependency its own columns), Python generator protocol of Plugin.iter",
]
ASSUMPTIONS = [
    "rows are identified by an opaque id; every dependency carries private copies of time / endtime / id so that what each dependency contributed to a merged same-kind input stays observable",
    "chunks are handed to Plugin.iter by plain iterators (mailboxes / loaders are C05 / C03); online-input waiting (is_ready / source_finished), executor submission, chunk_number and superrun-annotated inputs are outside this model",
    "the ten-pass limit of the re-trim loop (D9, a finding of C01) is not a C08 violation (an error is raised, nothing is dropped); the oracle accepts it only when the model classifies the input as exactly that limit (ten passes fail, a budget of rows + 2 passes runs on; if the run then still ends in an error, only when the dependencies end at different times or an unfetched trailing zero-duration chunk exists)",
    "outside the quantifier (malformed stream: different starts, gaps, swapped chunks, empty iterators, rows outside their chunk) only model / implementation agreement is compared; there the IterDone loop is modelled in depends_on order",
]

_MSG: dict[int, tuple] = {}   # side channel for the oracle only, id(case) -> (case, exception message / input-range finding)
_CTX = None                   # the engine context of the current run (the oracle asks the driver about ten-pass errors)
_TENPASS: dict[str, bool] = {}
_CLASSES: dict = {}


# ----------------------------------------------------------------------------- the real code
class _FakeDep:
    def __init__(self, kind):
        self.kind = kind

    def data_kind_for(self, d):
        return self.kind


def _dep_dtype(name):
    return np.dtype(strax.time_fields + [((f"Identity in {name}", f"id_{name}"), np.int64),
                                         ((f"Time copy of {name}", f"t_{name}"), np.int64),
                                         ((f"Endtime copy of {name}", f"e_{name}"), np.int64)])


_OUT_DTYPE = np.dtype(strax.time_fields + [(("Identity", "id"), np.int64)])


def _compute(self, start, end, **kwargs):
    self.rec.append((start, end, kwargs))
    return np.zeros(0, self.dtype)


def _compute_multi(self, start, end, **kwargs):
    self.rec.append((start, end, kwargs))
    return {o: np.zeros(0, _OUT_DTYPE) for o in self.provides}


def _do_compute(self, chunk_i=None, **kwargs):
    """record the [start, end) of every (merged) input chunk, then the real do_compute"""
    self.ranges.append(sorted((k, int(v.start), int(v.end)) for k, v in kwargs.items()))
    return strax.Plugin.do_compute(self, chunk_i=chunk_i, **kwargs)


def policy_of(case):
    """save_when values of the provided data types (NEVER 0, EXPLICIT 1, TARGET 2, ALWAYS 3); one entry = ordinary plugin,
    several = multi-output plugin with a dict-valued save_when"""
    sw = case.get("save_when")
    return list(sw) if sw else [3 if case["strict"] else 0]


def saved_by_default(case):
    """the property's wording: results saved by default = TARGET or ALWAYS; for a multi-output plugin, any of its outputs"""
    return any(v >= 2 for v in policy_of(case))


def _plugin_class(dep_names, save_when):
    key = (tuple(dep_names), tuple(save_when))
    cls = _CLASSES.get(key)
    if cls is None:
        if len(save_when) == 1:
            cls = type("RecordingPlugin", (strax.Plugin,), dict(
                provides=("c08_out",), depends_on=tuple(dep_names), dtype=_OUT_DTYPE, data_kind="c08_out",
                save_when=strax.SaveWhen(save_when[0]), compute=_compute, do_compute=_do_compute))
        else:
            outs = tuple(f"c08_o{i}" for i in range(len(save_when)))
            cls = type("RecordingMultiPlugin", (strax.Plugin,), dict(
                provides=outs, depends_on=tuple(dep_names), dtype={o: _OUT_DTYPE for o in outs},
                data_kind={o: o for o in outs},
                save_when=immutabledict({o: strax.SaveWhen(v) for o, v in zip(outs, save_when)}),
                compute=_compute_multi, do_compute=_do_compute))
        _CLASSES[key] = cls
    return cls


def _case_key(case):
    return json.dumps(case, sort_keys=True)


def _mk_real_chunk(name, kind, c):
    s, e, rows = c
    a = np.zeros(len(rows), _dep_dtype(name))
    for i, (t, et, k) in enumerate(rows):
        a[i]["time"] = t
        a[i]["endtime"] = et
        a[i][f"id_{name}"] = k
        a[i][f"t_{name}"] = t
        a[i][f"e_{name}"] = et
    return strax.Chunk(start=s, end=e, data=a, data_type=name, data_kind=kind, dtype=a.dtype, run_id="0")


class HarnessRunaway(Exception):
    """the code under test keeps asking an exhausted iterator for more (it would loop forever)"""


class _GuardedIter:
    """plain iterator over a list of chunks; a legitimate run sees at most a few StopIterations per dependency"""

    def __init__(self, chunks):
        self.it = iter(chunks)
        self.stops = 0

    def __iter__(self):
        return self

    def __next__(self):
        try:
            return next(self.it)
        except StopIteration:
            self.stops += 1
            if self.stops > 25:
                raise HarnessRunaway("exhausted iterator asked again and again") from None
            raise


def run_real(case):
    """drive the real Plugin.iter; returns ('ok', calls) or ('err', kind, message)"""
    deps = case["deps"]
    names = [d["name"] for d in deps]
    try:
        with warnings.catch_warnings():
            warnings.simplefilter("ignore")
            chunks = {d["name"]: [_mk_real_chunk(d["name"], d["kind"], c) for c in d["chunks"]] for d in deps}
            p = _plugin_class(names, policy_of(case))()
            p.rec = []
            p.ranges = []
            p.run_id = "0"
            p.deps = {d["name"]: _FakeDep(d["kind"]) for d in deps}
            p.fix_dtype()
            order = case.get("iters_order") or list(range(len(names)))      # `iters` is a dict: any key order is legal
            iters = {names[i]: _GuardedIter(chunks[names[i]]) for i in order}
            for _ in p.iter(iters):
                pass
    except Exception as e:  # noqa: BLE001
        return ("err", sl.err_name(e), str(e))
    calls = []
    for start, end, kw in p.rec:
        per_dep = []
        for d in deps:
            arr = kw[d["kind"]]
            n = d["name"]
            per_dep.append([(int(t), int(e), int(k)) for t, e, k in zip(arr[f"t_{n}"], arr[f"e_{n}"], arr[f"id_{n}"])])
        calls.append((int(start), int(end), per_dep))
    # observed directly: the [start, end) of every merged input chunk handed to do_compute, against what compute was told
    bad = [(i, rng) for i, ((s, e, _), rng) in enumerate(zip(calls, p.ranges)) if any((a, b) != (s, e) for _, a, b in rng)]
    return ("ok", calls, "" if not bad and len(p.ranges) == len(calls) else f"input-ranges differ from the call range: {bad[:2]} ({len(p.ranges)} do_compute / {len(calls)} compute)")


def show_calls(calls):
    if not calls:
        return "-"
    return " ".join(";".join([str(s), str(e)] + [sl.show_rows(r) for r in per_dep]) for s, e, per_dep in calls)


CASE_TIMEOUT_S = float(os.environ.get("C08_CASE_TIMEOUT_S", "60"))     # a case normally takes milliseconds; generous for a loaded machine
MAX_HANGS = 20            # per process; later cases are skipped (not compared, not counted as anything)
_HANGS = 0                # hangs seen by this process: after three, later cases get a shorter leash


class CaseTimeout(BaseException):
    """the real Plugin.iter did not return in time (BaseException: the code under test must not swallow it)"""


def _on_alarm(signum, frame):
    raise CaseTimeout()


def _real_line(case):
    """one case through the real code under a watchdog: a call that does not return is reported as `err Hang`"""
    global _HANGS
    if _HANGS >= MAX_HANGS:
        return "skipped", ""      # this process already reported MAX_HANGS hangs: do not spend hours on a tree that hangs
    limit = CASE_TIMEOUT_S if _HANGS < 3 else 5.0
    armed = False
    try:
        signal.signal(signal.SIGALRM, _on_alarm)
        signal.setitimer(signal.ITIMER_REAL, limit)
        armed = True
    except ValueError:        # not in the main thread of this process: no watchdog available here
        pass
    try:
        r = run_real(case)
    except CaseTimeout:
        _HANGS += 1
        return "err Hang", f"Plugin.iter did not return within {limit:g} s"
    finally:
        if armed:
            signal.setitimer(signal.ITIMER_REAL, 0)
    if r[0] == "err":
        return "err " + r[1], r[2]
    return "ok " + show_calls(r[1]), r[2]


POOL_STALL_S = 900.0      # > 3 * CASE_TIMEOUT_S + 61 * 5 s, the worst a healthy worker can need for one chunk of 64
_PRE: dict[int, tuple] = {}     # id(case) -> (line, message), filled by `prefetch` for the current batch
_FACTS: dict[int, dict] = {}
_POOL = None


def _pool():
    """fork workers AFTER strax is imported and its kernels are compiled (children inherit both)"""
    global _POOL
    if _POOL is None:
        import atexit
        import multiprocessing as mp
        import os
        _real_line(brick_case(3, 4, 5, 1))      # warm up numba in the parent
        n = max(1, min(12, (os.cpu_count() or 2) - 2))
        _POOL = mp.get_context("fork").Pool(n)
        atexit.register(_POOL.terminate)
    return _POOL


def prefetch(cases):
    """run the real code on a batch in parallel worker processes (same function, same inputs: only wall time changes)"""
    global _POOL
    _PRE.clear()
    _FACTS.clear()
    _MSG.clear()
    _TENPASS.clear()
    res = []
    if len(cases) >= 2000:
        try:
            it = _pool().imap(_real_line, cases, chunksize=64)
            for _ in cases:
                # global guard: every case is under its own watchdog, so a chunk of 64 that takes longer than this
                # means a worker died (the pool would wait for ever) -- give up on the pool, keep what arrived
                res.append(it.next(timeout=POOL_STALL_S))
        except Exception:  # noqa: BLE001  -- no pool / dead worker / stall: the rest is evaluated in-process
            if _POOL is not None:
                _POOL.terminate()
                _POOL = None
    res += [_real_line(c) for c in cases[len(res):]]
    for c, r in zip(cases, res):
        _PRE[id(c)] = (c, r)
    n_skipped = sum(1 for r in res if r[0] == "skipped")
    if n_skipped and _CTX is not None:
        _CTX.note(f"{n_skipped} cases of a batch of {len(cases)} not run: the evaluating process had already seen {MAX_HANGS} calls of Plugin.iter that did not return")
    # ten-pass errors: ask the model about all of them in ONE driver call (a changed strax may produce thousands)
    ten = [c for c, r in zip(cases, res) if r[0] == "err RuntimeError" and "ten passes" in r[1] and _case_key(c) not in _TENPASS]
    if ten and _CTX is not None and _CTX.model_available:
        answers = _CTX.driver.run([op_iter(c).replace("c08.iter", "c08.tenpass", 1) for c in ten])
        for c, ans in zip(ten, answers):
            _TENPASS[_case_key(c)] = {"ok 11": "limit", "ok 10": "limit-then-error"}.get(ans, "no")


def impl_iter(case):
    pre = _PRE.get(id(case))
    line, msg = pre[1] if pre is not None and pre[0] is case else _real_line(case)
    if msg:
        _MSG[id(case)] = (case, msg)
    return line


def _msg(case):
    m = _MSG.get(id(case))
    return m[1] if m is not None and m[0] is case else ""


def ten_pass_class(case):
    """what the MODEL says about this very input: 'limit' = ten passes give RuntimeError and a pass budget that always
    suffices (theorem retrim_terminates) runs to the end, i.e. the literal ten is the one and only reason of the failure;
    'limit-then-error' = ten passes give RuntimeError and the big budget gets further but the run still ends in an error;
    'no' = the model does not fail with RuntimeError at ten passes (or no model)"""
    key = _case_key(case)
    if key not in _TENPASS:
        ans = None
        if _CTX is not None and _CTX.model_available:
            ans = _CTX.driver.run([op_iter(case).replace("c08.iter", "c08.tenpass", 1)])[0]
        _TENPASS[key] = {"ok 11": "limit", "ok 10": "limit-then-error"}.get(ans, "no")
    return _TENPASS[key]


def dep_tok(d):
    return ";".join([d["name"], d["kind"]] + [f"{s}~{e}~{sl.show_rows(rows)}" for s, e, rows in d["chunks"]])


def op_iter(case):
    pre = _PRE.get(id(case))
    if pre is not None and pre[0] is case and pre[1][0] == "skipped":
        return None
    return "c08.iter s:" + ",".join(str(v) for v in policy_of(case)) + " " + " ".join(dep_tok(d) for d in case["deps"])


def parse_calls(out):
    body = out[3:]
    if body == "-":
        return []
    calls = []
    for tok in body.split(" "):
        parts = tok.split(";")
        rows = [[] if p == "-" else [tuple(map(int, r.split(":"))) for r in p.split(",")] for p in parts[2:]]
        calls.append((int(parts[0]), int(parts[1]), rows))
    return calls


# ----------------------------------------------------------------------------- oracle
def case_facts(case):
    f = _FACTS.get(id(case))
    if f is None or f.get("_case") is not case:
        f = _case_facts(case)
        f["_case"] = case
        if len(_FACTS) < 200000:
            _FACTS[id(case)] = f
    return f


def _case_facts(case):
    """what the property's quantifier says about this input, computed from the input alone"""
    deps = case["deps"]
    f = {"law": True, "t0": None, "same_t0": True, "ends": [], "trailing_zero": False}
    for d in deps:
        cs = [(s, e, [tuple(r) for r in rows]) for s, e, rows in d["chunks"]]
        if not cs or gen.law_abiding(cs) is not None or cs[0][0] < 0 or any(a >= b for _, _, rows in cs for a, b, _ in rows):
            f["law"] = False
            continue
        if f["t0"] is None:
            f["t0"] = cs[0][0]
        elif f["t0"] != cs[0][0]:
            f["same_t0"] = False
        f["ends"].append(cs[-1][1])
        if len(cs) > 1 and cs[-1][0] == cs[-1][1]:
            f["trailing_zero"] = True
    f["valid"] = f["law"] and f["same_t0"]
    # same-kind dependencies are meant to describe the same things: interval-equal row lists over the whole run
    f["kind_aligned"] = True
    by_kind = {}
    for d in deps:
        ivs = [tuple(r[:2]) for _, _, rows in d["chunks"] for r in rows]
        if by_kind.setdefault(d["kind"], ivs) != ivs:
            f["kind_aligned"] = False
    return f


def oracle_iter(case, out):
    if out == "skipped":
        return None
    if out == "err Hang":
        return _msg(case) or "Plugin.iter did not return"      # on ANY input: the code under test must terminate
    f = case_facts(case)
    if not f["valid"]:
        return None            # outside the quantifier (malformed stream): model / implementation agreement only
    deps = case["deps"]
    strict = saved_by_default(case)
    all_rows = [[tuple(r) for _, _, rows in d["chunks"] for r in rows] for d in deps]
    if out.startswith("err"):
        kind = out[4:]
        msg = _msg(case)
        if kind == "ValueError" and not f["kind_aligned"] and "different number of items" in msg:
            return None        # same-kind dependencies that do not describe the same rows: rejected loudly by Chunk.merge
        if kind != "RuntimeError":
            return f"law-abiding inputs starting together raised {kind}"
        if "ten passes" in msg:
            # D9 (reported under C01): an error IS raised, so nothing is silently dropped.  Accepted only when the model
            # confirms that the literal ten is the one and only reason this input fails.
            cls = ten_pass_class(case)
            if cls == "limit":
                return None
            if cls == "limit-then-error" and (len(set(f["ends"])) != 1 or f["trailing_zero"]):
                return None    # even with enough passes this input ends in a sanctioned error (different ends / unfetched chunk)
            return "RuntimeError 'ten passes' on an input that the model does not classify as the ten-pass limit"
        same_end = len(set(f["ends"])) == 1
        if "ended prematurely" in msg:
            return None if not same_end else "a dependency 'ended prematurely' although all dependencies end at the same time"
        if "without fetching last" in msg:
            if same_end and not f["trailing_zero"]:
                return "unfetched chunks reported although all dependencies end together"
            return None
        if "leftover" in msg:
            if not strict:
                return "leftover error raised for a plugin that is not saved by default"
            if same_end:
                return "rows left over although all dependencies end at the same time"
            return None
        return f"unexpected RuntimeError: {msg[:80]}"
    calls = parse_calls(out)
    if not calls:
        return "no compute call at all"
    aux = _msg(case)
    if aux:
        return aux             # some merged input chunk did not cover exactly the [start, end) handed to compute
    # adjacency
    if calls[0][0] != f["t0"]:
        return f"first call starts at {calls[0][0]}, the inputs start at {f['t0']}"
    for (s0, e0, _), (s1, _e1, _) in zip(calls[:-1], calls[1:]):
        if s1 != e0:
            return f"call starting at {s1} does not continue the previous call ending at {e0}"
    # alignment
    for s, e, per_dep in calls:
        if s > e:
            return f"call [{s},{e}) has negative length"
        if len(per_dep) != len(deps):
            return "a dependency is missing from a call"
        for rows in per_dep:
            for t, et, _ in rows:
                if t < s or et > e:
                    return f"row [{t},{et}) handed over in call [{s},{e})"
        for i, j in itertools.combinations(range(len(deps)), 2):
            if deps[i]["kind"] == deps[j]["kind"]:
                if len(per_dep[i]) != len(per_dep[j]):
                    return "same-kind inputs of unequal length in one call"
                if f["kind_aligned"] and [r[:2] for r in per_dep[i]] != [r[:2] for r in per_dep[j]]:
                    return "same-kind inputs not row-aligned in one call"
    # every row exactly once, in order
    last_stop = calls[-1][1]
    for i, d in enumerate(deps):
        got = [r for _, _, per_dep in calls for r in per_dep[i]]
        if got != all_rows[i][: len(got)]:
            return f"rows of {d['name']} not handed over exactly once in time order"
        rest = all_rows[i][len(got):]
        if rest and strict:
            return f"{len(rest)} rows of {d['name']} silently dropped by a plugin that is saved by default"
        if any(t < last_stop for t, _, _ in rest):
            return f"a row of {d['name']} inside the covered range was never handed over"
    return None


def err_site(case, out):
    if not out.startswith("err"):
        return "ok"
    msg = _msg(case)
    for pat, lab in (("ten passes", "ten-pass"), ("ended prematurely", "premature-end"), ("without fetching last", "unfetched"),
                     ("leftover", "leftover"), ("empty input buffer", "empty-iterator"), ("different number of items", "merge-length"),
                     ("overlapping or out-of-order", "concat-order"), ("inconsistent time ranges", "range-check")):
        if pat in msg:
            return out[4:] + ":" + lab
    return out[4:] + ":other"


def branch_iter(case, out):
    if out == "skipped":
        return "skipped-after-hangs"
    f = case_facts(case)
    pol = ("strict" if saved_by_default(case) else "tolerant") + ":sw=" + "+".join("NETA"[v] for v in policy_of(case))
    valid = "valid" if f["valid"] else "malformed"
    site = err_site(case, out)
    if site == "ok":
        site = "ok:calls=" + str(min(out.count(" "), 6))
    return f"{valid}:{pol}:{site}"


def nontrivial_iter(case, out):
    """at least two dependencies, at least two rows overall and some dependency in more than one chunk"""
    if out == "skipped":
        return False
    deps = case["deps"]
    return len(deps) >= 2 and sum(len(rows) for d in deps for _, _, rows in d["chunks"]) >= 2 \
        and any(len(d["chunks"]) > 1 for d in deps)


def in_hyp_iter(case, out):
    return case_facts(case)["valid"]


# ----------------------------------------------------------------------------- generators
def mk_case(deps, strict, **extra):
    return dict(deps=[dict(name=n, kind=k, chunks=[[s, e, [list(r) for r in rows]] for s, e, rows in cs]) for n, k, cs in deps],
                strict=int(strict), **extra)


def _chunkings(max_rows, grid, zero=True):
    """per sorted row list: every law-abiding chunking of the run [0, grid) (JSON-able, shared between cases):
    all admissible cut sets and, with zero=True, the variants with a zero-duration chunk at the start, at a cut, at the end"""
    out = []
    for rows in gen.all_sorted_rows(max_rows, grid):
        out.append([[[s, e, [list(r) for r in rs]] for s, e, rs in ch] for ch in gen.all_chunkings(rows, 0, grid, with_dups=zero)])
    return out


def _sw(strict, v):
    """the four save_when values: strict = ALWAYS / TARGET, tolerant = NEVER / EXPLICIT (alternating deterministically)"""
    return [(3, 2)[v % 2]] if strict else [(0, 1)[v % 2]]


def _case2(ca, cb, ka, kb, strict):
    return dict(deps=[dict(name="a", kind=ka, chunks=ca), dict(name="b", kind=kb, chunks=cb)], strict=strict,
                save_when=_sw(strict, len(ca) + len(cb)))


def exhaustive_two_kinds(max_rows, grid, strict, zero=True):
    """two dependencies of two kinds: every pair of sorted row lists (<= max_rows positive-duration rows on the grid
    0..grid) x every law-abiding chunking of each (all admissible cut sets, plus zero-duration chunks)"""
    chunkings = _chunkings(max_rows, grid, zero)
    for cas in chunkings:
        for cbs in chunkings:
            for ca in cas:
                for cb in cbs:
                    yield _case2(ca, cb, "ka", "kb", strict)


def exhaustive_unequal_ends(max_rows, grid):
    """two dependencies of two kinds ending at different times: one runs over [0, grid-1), the other over [0, grid);
    every pair of row lists and chunkings, both dependency orders, both policies"""
    short = _chunkings(max_rows, grid - 1)
    long_ = _chunkings(max_rows, grid)
    for cas in short:
        for cbs in long_:
            for ca in cas:
                for cb in cbs:
                    for strict in (0, 1):
                        yield _case2(ca, cb, "ka", "kb", strict)
                        yield dict(deps=[dict(name="b", kind="kb", chunks=cb), dict(name="a", kind="ka", chunks=ca)], strict=strict,
                                   save_when=_sw(strict, len(ca) + len(cb) + 1))


def exhaustive_one_kind(max_rows, grid):
    """two dependencies of ONE kind: the same rows in every pair of chunkings, both policies"""
    for cas in _chunkings(max_rows, grid):
        for ca in cas:
            for cb in cas:
                for strict in (0, 1):
                    yield _case2(ca, cb, "ka", "ka", strict)


def random_case(rng, big=False):
    n_kinds = rng.randint(1, 3)
    n_deps = rng.randint(n_kinds, 4)
    kinds = [f"k{i}" if i < n_kinds else f"k{rng.randrange(n_kinds)}" for i in range(n_deps)]
    t0 = rng.choice([0, 0, 0, 3, 17])
    rows_by_kind = {}
    for k in set(kinds):
        n = rng.randint(0, 14 if big else 7)
        rows_by_kind[k] = gen.gen_rows(rng, n, t0=t0, max_len=rng.choice([2, 4, 6]))
    run_end = max([t0 + rng.randint(0, 4)] + [r[1] for rows in rows_by_kind.values() for r in rows]) + rng.choice([0, 0, 1, 3])
    deps = []
    style = rng.choice(["mixed", "mixed", "giant-vs-tiny", "same-cuts"])
    shared_cuts = None
    for i, k in enumerate(kinds):
        rows = rows_by_kind[k]
        end = run_end
        if rng.random() < 0.12:     # dependencies ending at different times
            end = rng.randint(t0, run_end)
            cand = [t for t in gen.admissible_cuts(rows, t0, run_end) if t <= end]
            end = max(cand) if cand else t0
            rows = [r for r in rows if r[1] <= end]
        if style == "giant-vs-tiny":
            p_cut = 0.0 if i % 2 == 0 else 0.9
        elif style == "same-cuts":
            p_cut = 0.3
        else:
            p_cut = rng.choice([0.0, 0.1, 0.3, 0.6, 0.9])
        cs = gen.random_chunking(rng, rows, t0, end, p_cut=p_cut, p_dup=rng.choice([0.0, 0.1, 0.3]))
        while len(cs) > 1 and cs[-1][0] == cs[-1][1] and rng.random() < 0.85:
            cs.pop()      # a trailing zero-duration chunk of a non-pacemaker is a (loud) RuntimeError: keep it rare
        if style == "same-cuts" and end == run_end:
            if shared_cuts is None:
                shared_cuts = sorted({c[0] for c in cs} | {run_end})
            ok = all(gen.admissible(rows, t) for t in shared_cuts)
            if ok:
                cs = gen.chunk_rows(rows, shared_cuts)
        deps.append((f"d{i}", k, cs))
    # save policy: the four enum values, and dict-valued save_when of a multi-output plugin (the code takes the max)
    sw = rng.choice([[3], [3], [2], [2], [1], [0], [0, 3], [3, 0], [1, 2], [2, 1], [0, 1], [1, 1], [2, 2], [1, 0, 3], [0, 0, 1]])
    c = mk_case(deps, any(v >= 2 for v in sw), save_when=sw)
    if n_deps > 1 and rng.random() < 0.3:
        order = list(range(n_deps))
        rng.shuffle(order)
        c["iters_order"] = order      # `iters` is a dict: Plugin.iter must not depend on its key order
    return c


def brick_case(n_rows, cut_a, cut_b, strict, shift=0, kinds=("ka", "kb")):
    """rows of two kinds forming a brick pattern ([0,2),[2,4).. vs [1,3),[3,5)..); D9 when the cuts are deep enough"""
    a = [(2 * i + shift, 2 * i + 2 + shift, i) for i in range(n_rows)]
    b = [(2 * i + 1 + shift, 2 * i + 3 + shift, i) for i in range(n_rows - 1)]
    end = 2 * n_rows + shift
    return mk_case([("a", kinds[0], gen.chunk_rows(a, [shift, cut_a + shift, end])),
                    ("b", kinds[1], gen.chunk_rows(b, [shift, cut_b + shift, end]))], strict)


EPOCH_T0 = 1_700_000_000_000_000_137      # a real nanosecond-epoch time (> 2**53, int64-safe, not a multiple of 256)


def shift_case(case, t0=EPOCH_T0):
    """the same case with EVERY time (chunk starts / ends, row times / endtimes) moved by t0; lengths stay small"""
    return dict(case, deps=[dict(d, chunks=[[s + t0, e + t0, [[t + t0, et + t0, k] for t, et, k in rows]] for s, e, rows in d["chunks"]])
                            for d in case["deps"]])


def every(it, step, n):
    return list(itertools.islice(itertools.islice(it, 0, None, step), n))


def epoch_cases(rng, scale):
    """a representative subset of the other components, shifted to epoch scale: float64 arithmetic on a boundary
    (invisible below 2**53) moves it by up to 256 ns there"""
    base = []
    base += every(exhaustive_two_kinds(3, 3, 1, False), 331, 150 * scale)         # two kinds, every cut set
    base += every(exhaustive_two_kinds(2, 3, 1, True), 149, 120 * scale)          # zero-duration chunks, strict
    base += every(exhaustive_two_kinds(2, 3, 0, True), 151, 100 * scale)          # zero-duration chunks, tolerant
    base += every(exhaustive_unequal_ends(2, 3), 139, 140 * scale)                # unequal run ends, both orders / policies
    base += every(exhaustive_one_kind(3, 3), 61, 70 * scale)                      # one kind in two chunkings
    base += [random_case(rng, big=i % 3 == 0) for i in range(400 * scale)]        # 1-4 dependencies, 1-3 kinds
    for n in (3, 5, 8, 12, 14, 16):
        for strict in (0, 1):
            for da in (1, 2, 3):
                base.append(brick_case(n, 2 * (n - da), 2 * (n - da) + 1, strict))  # brick patterns incl. ten-pass ones
    base += [malformed_case(rng) for _ in range(60 * scale)]
    return [shift_case(c) for c in base]


def malformed_case(rng):
    """outside the quantifier: inputs that do not start together, gaps / overlaps between chunks, empty iterators,
    same-kind dependencies with different rows, rows outside their chunk"""
    c = random_case(rng)
    c.pop("iters_order", None)        # error precedence between dependencies is only modelled in depends_on order
    deps = c["deps"]
    how = rng.choice(["t0", "gap", "overlap", "empty-iter", "kind-mismatch", "row-outside", "unsorted"])
    d = rng.choice(deps)
    if how == "t0":
        sh = rng.randint(1, 4)
        d["chunks"] = [[s + sh, e + sh, [[t + sh, et + sh, k] for t, et, k in rows]] for s, e, rows in d["chunks"]]
    elif how == "gap" and len(d["chunks"]) >= 2:
        j = rng.randrange(1, len(d["chunks"]))
        sh = rng.randint(1, 3)
        d["chunks"] = d["chunks"][:j] + [[s + sh, e + sh, [[t + sh, et + sh, k] for t, et, k in rows]] for s, e, rows in d["chunks"][j:]]
    elif how == "overlap" and len(d["chunks"]) >= 2:
        j = rng.randrange(1, len(d["chunks"]))
        d["chunks"][j - 1], d["chunks"][j] = d["chunks"][j], d["chunks"][j - 1]
    elif how == "empty-iter":
        d["chunks"] = []
    elif how == "kind-mismatch":
        same = [x for x in deps if x["kind"] == d["kind"] and x is not d]
        if same:
            for ch in d["chunks"]:
                if ch[2]:
                    ch[2] = ch[2][:-1]
                    break
    elif how == "row-outside":
        for ch in d["chunks"]:
            if ch[2]:
                ch[2][-1] = [ch[2][-1][0], ch[1] + 2, ch[2][-1][2]]
                break
    elif how == "unsorted":
        for ch in d["chunks"]:
            if len(ch[2]) >= 2:
                ch[2][0], ch[2][1] = ch[2][1], ch[2][0]
                break
    c["malformed"] = how
    return c


# ----------------------------------------------------------------------------- run
def correspond_batched(ctx, name, cases, rule, exhaustive=False, batch=40000):
    """same as ctx.correspond, in batches (bounded memory) with the real code evaluated by worker processes"""
    it = iter(cases)
    while True:
        chunk = list(itertools.islice(it, batch))
        if not chunk:
            break
        prefetch(chunk)
        ctx.correspond(name, chunk, impl_iter, op_iter, oracle_iter, exhaustive=exhaustive, rule=rule,
                       nontrivial=nontrivial_iter, branch=branch_iter, in_hyp=in_hyp_iter)
    _PRE.clear()
    _FACTS.clear()


def run(ctx):
    global _CTX
    _CTX = ctx
    rng = ctx.rng

    # 1. exhaustive small scope
    rule2 = ("two dependencies of two kinds: every pair of time-sorted lists of <= {n} positive-duration rows on grid 0..{g} x every law-abiding "
             "chunking of each (all admissible cut sets{z}), {pol} policy; non-trivial = >= 2 rows overall and some dependency in > 1 chunk")
    # (rows, grid), strict?, with the zero-duration-chunk variants?, stride (1 = exhaustive)
    for (n, g), strict, zero, stride in ctx.pick(
            [((3, 3), 1, False, 3), ((2, 3), 1, True, 1), ((2, 3), 0, True, 1)],
            [((4, 3), 1, False, 1), ((3, 3), 1, True, 1), ((2, 4), 1, True, 1), ((3, 3), 0, True, 1)]):
        pol = "strict" if strict else "tolerant"
        name = f"iter/exhaustive-{n}rows-grid{g}-{pol}{'-zerodur' if zero else ''}" if stride == 1 else \
            f"iter/every{stride}-{n}rows-grid{g}-{pol}{'-zerodur' if zero else ''}"
        correspond_batched(ctx, name, itertools.islice(exhaustive_two_kinds(n, g, strict, zero), 0, None, stride), exhaustive=(stride == 1),
                           rule=("" if stride == 1 else f"every {stride}th case of: ") +
                           rule2.format(n=n, g=g, pol=pol, z=" + a zero-duration chunk at the start / at a cut / at the end" if zero else ""))
    n, g = ctx.pick((2, 3), (3, 3))
    correspond_batched(ctx, f"iter/exhaustive-unequal-ends-{n}rows-grid{g}", exhaustive_unequal_ends(n, g), exhaustive=True,
                       rule=f"two dependencies of two kinds, one over [0,{g - 1}) and one over [0,{g}) (<= {n} rows each), every pair of row lists and "
                            "law-abiding chunkings, both dependency orders, both policies (rows beyond the common end must raise under the strict policy)")
    n, g = ctx.pick((3, 3), (4, 3))
    correspond_batched(ctx, f"iter/exhaustive-one-kind-{n}rows-grid{g}", exhaustive_one_kind(n, g), exhaustive=True,
                       rule=f"two dependencies of one kind carrying the same rows (<= {n} rows on grid 0..{g}), every pair of law-abiding chunkings, both policies")

    # 2. random: 1-4 dependencies, 1-3 kinds, independent chunkings
    cases = [random_case(rng, big=False) for _ in range(ctx.pick(12000, 150000))]
    cases += [random_case(rng, big=True) for _ in range(ctx.pick(4000, 60000))]
    correspond_batched(ctx, "iter/random", cases,
                       rule="1-4 dependencies of 1-3 kinds (same-kind dependencies share their rows), 0-14 rows per kind (disjoint / touching / overlapping / "
                            "long), independent law-abiding chunkings (empty and zero-duration chunks, one giant vs many tiny, shared cuts), "
                            "12% dependencies ending early, 65% strict")

    # 3. brick patterns: the ten-pass limit (D9) is an expected, agreed RuntimeError for C08
    cases = []
    for n in range(2, ctx.pick(18, 40)):
        for strict in (0, 1):
            for da in range(1, min(n, 4)):
                cases.append(brick_case(n, 2 * (n - da), 2 * (n - da) + 1, strict))
                cases.append(brick_case(n, 2 * (n - da), 2 * (n - da) + 1, strict, shift=5))
    cases.append(brick_case(40, 30, 31, 0))      # the D9 reproducer of DESIGN 5.4
    cases.append(brick_case(40, 30, 31, 1))
    correspond_batched(ctx, "iter/brick", cases,
                       rule="brick-pattern rows of two kinds cut 2..6 below the run end: shallow patterns converge, deep ones end in the ten-pass RuntimeError (D9, C01)")

    # 4. malformed stream (outside the quantifier): agreement on the rejecting branches
    cases = [malformed_case(rng) for _ in range(ctx.pick(4000, 40000))]
    correspond_batched(ctx, "iter/malformed", cases,
                       rule="random cases damaged in one place: other start time, gap / swapped chunks, empty iterator, same-kind row-count mismatch, "
                            "row outside its chunk, unsorted rows (model / implementation agreement only)")

    # 5. epoch-scale timestamps: every time shifted by 1.7e18 ns (the model uses unbounded Int and is translation invariant)
    correspond_batched(ctx, "iter/epoch-scale", epoch_cases(rng, ctx.pick(1, 6)),
                       rule=f"a subset of all components above (two kinds x cut sets, zero-duration chunks, unequal ends, one kind, random 1-4 "
                            f"dependencies of 1-3 kinds, brick patterns, malformed) with every chunk start / end and row time / endtime shifted by "
                            f"{EPOCH_T0} ns; lengths stay small; same oracle")


def search(ctx):
    global _CTX
    _CTX = ctx
    rng = ctx.rng
    cases = [random_case(rng, big=rng.random() < 0.5) for _ in range(30000)]
    prefetch(cases)
    ctx.check_oracle("search/iter", cases, impl_iter, oracle_iter)


def replay(ctx, body):
    if body.get("case") is None:
        return f"obligation {body['component']} has no input to replay (no-failing-input-found); re-run the check"
    global _CTX
    _CTX = ctx
    case = body["case"]["case"]
    out = impl_iter(case)
    print("implementation output:", out)
    return oracle_iter(case, out)
