"""C13 — production is limited by demand and buffer capacity (backpressure).

Model: lean/StraxModel/Model/Backpressure.lean (a chain of the mailboxes of Model/Mailbox.lean wired like
ThreadedMailboxProcessor wires a linear plugin graph); theorems: Props/C13.lean (mailbox level: capacity_inv,
lazy_gate, old-rule counterexample — c05-builder) and Props/C13Net.lean (pipeline level: capacity of every mailbox of
a pipeline, the gate at every mailbox of a lazy pipeline, rest_bound for chains, local back-pressure for any wiring).

Tie / validation: the REAL ThreadedMailboxProcessor is run through Context.get_iter under the cooperative scheduler
(checks/lib/sched.py).  The consumer ("main" task) pulls k chunks and then stops; every other thread runs until none
is runnable (quiescence: every live thread is blocked in Condition.wait — on a full mailbox, at the fetch gate or on a
message that is not there); the number of source `compute` calls is read off before and after; the consumer then
resumes and the run is completed.  The same is done for a run of N and of 2N source chunks.
Oracle (independent of the model): (a) the number of further source chunks is the same for N and 2N and at most
B(wiring, capacity); at every scheduler step  emitted - pulled <= B;  (b) len(_mailbox) <= max_messages after every
scheduler step; (c) whenever the sender of a lazy mailbox advances its source (mailbox not killed) some driving
subscriber waits for a number that is not in the heap; plus: no deadlock, the resumed run delivers all N chunks.
For chains under the deterministic priority schedules the counts are also diffed with the Lean chain model
(`c13.rest`), and the wiring (mailboxes, capacities, drivers) of every real processor is diffed with `c13.wire`.
"""
from __future__ import annotations

import os
import random
import shutil
import tempfile
from functools import partial

import numpy as np
from immutabledict import immutabledict

from lib.straxlib import strax  # noqa: F401  (must be the first strax import: private numba cache)
import strax.mailbox as mbm  # noqa: E402
import strax.processors.threaded_mailbox as tmm  # noqa: E402
from lib import sched as S  # noqa: E402

ID = "C13"
LEAN_MODULES = ["StraxModel.Props.C13", "StraxModel.Props.C13Net"]
TRUSTED = [
    "cooperative scheduler checks/lib/sched.py (replaces `threading` inside strax.mailbox and the thread pool of "
    "strax.processors.threaded_mailbox: real threads, one runs at a time, yield points at lock acquire / Condition.wait / "
    "Future.result / the harness points `fetch` (source compute) and `paused` (consumer))",
    "harness probes: iterators handed to Mailbox._send_from / divide_outputs are wrapped (by rebinding the Thread arguments of "
    "the already wired processor, nothing in /repo is edited) so that every advance of a mailbox's source is observed",
    "modelled, not verified: threading.Condition / RLock semantics, heapq, Plugin.iter for one-to-one plugins",
]
ASSUMPTIONS = [
    "plugins are one-to-one on chunks (every plugin emits one chunk per input chunk, all sources chunked alike): the bound "
    "B counts chunks; rechunking / overlap-window plugins that withhold chunks are C06/C09's subject",
    "quiescence is defined under the cooperative scheduler: no task runnable except the paused consumer; OS scheduler "
    "fairness is outside (under an unfair schedule nothing comes to rest; the bound itself holds at every step)",
    "no failures are injected (C06)",
]

RUN = "0"
SW = strax.SaveWhen

try:                                        # the scheduler hands a baton between real threads: one CPU is much faster
    os.sched_setaffinity(0, {sorted(os.sched_getaffinity(0))[0]})
except (AttributeError, OSError):
    pass


# ============================================================================= graphs
# a graph = list of nodes in topological order; node = dict(name, deps, outs, save (one letter per out: N|A), mm (None|int))
# the first node is the source (deps = []); every data type has its own data kind.
def g_chain(length, save="", mm=None):
    """src -> p1 -> ... -> p<length>; save = names of saved types; mm = {name: max_messages override}"""
    mm = mm or {}
    nodes = [dict(name="src", deps=[], outs=["src"], save="A" if "src" in save.split(",") else "N", mm=mm.get("src"))]
    prev = "src"
    for i in range(1, length + 1):
        n = f"p{i}"
        nodes.append(dict(name=n, deps=[prev], outs=[n], save="A" if n in save.split(",") else "N", mm=mm.get(n)))
        prev = n
    return dict(nodes=nodes, target=prev, shape=f"chain{length}")


def g_diamond(save=""):
    sv = save.split(",")
    s = lambda n: "A" if n in sv else "N"  # noqa: E731
    nodes = [dict(name="src", deps=[], outs=["src"], save=s("src"), mm=None),
             dict(name="da", deps=["src"], outs=["da"], save=s("da"), mm=None),
             dict(name="db", deps=["src"], outs=["db"], save=s("db"), mm=None),
             dict(name="tt", deps=["da", "db"], outs=["tt"], save=s("tt"), mm=None)]
    return dict(nodes=nodes, target="tt", shape="diamond")


def g_multi(variant, save=""):
    """multi-output plugin mo: src -> (xx, yy).
    side:   target tt(xx), yy produced but neither required nor saved (discarder) or saved (flows freely)
    both:   target tt(xx, yy)
    direct: target xx itself
    srcmo:  the SOURCE is the multi-output plugin (xx, yy), target tt(xx)"""
    sv = save.split(",")
    s = lambda n: "A" if n in sv else "N"  # noqa: E731
    if variant == "srcmo":
        nodes = [dict(name="mo", deps=[], outs=["xx", "yy"], save=s("xx") + s("yy"), mm=None),
                 dict(name="tt", deps=["xx"], outs=["tt"], save=s("tt"), mm=None)]
        return dict(nodes=nodes, target="tt", shape="multi-srcmo")
    nodes = [dict(name="src", deps=[], outs=["src"], save=s("src"), mm=None),
             dict(name="mo", deps=["src"], outs=["xx", "yy"], save=s("xx") + s("yy"), mm=None)]
    if variant == "direct":
        return dict(nodes=nodes, target="xx", shape="multi-direct")
    deps = ["xx", "yy"] if variant == "both" else ["xx"]
    nodes.append(dict(name="tt", deps=deps, outs=["tt"], save=s("tt"), mm=None))
    return dict(nodes=nodes, target="tt", shape=f"multi-{variant}")


def provider(graph):
    return {o: n for n in graph["nodes"] for o in n["outs"]}


def needed_nodes(graph):
    prov = provider(graph)
    seen, order = set(), []

    def visit(t):
        n = prov[t]
        if n["name"] in seen:
            return
        seen.add(n["name"])
        for d in n["deps"]:
            visit(d)
        order.append(n)
    visit(graph["target"])
    return order


def wiring(case):
    """what ThreadedMailboxProcessor.__init__ should build for this case, derived from the graph alone (independent
    re-statement of the wiring rules; diffed against the real processor on every run and against the Lean `wire`).
    Returns {mailbox: dict(cap, senders, readers=[(name, can_drive)], src=upstream mailboxes)}"""
    graph, lazy, cap = case["graph"], bool(case["lazy"]), case["cap"]
    nodes = needed_nodes(graph)
    required = {graph["target"]} | {d for n in nodes for d in n["deps"]}
    produced = {o for n in nodes for o in n["outs"]}
    saved = {o for n in nodes for o, s in zip(n["outs"], n["save"]) if s == "A"}
    free = produced - required
    discard = free - saved
    mbs = {}

    def mb(name):
        return mbs.setdefault(name, dict(cap=cap, sender=None, readers=[], up=[]))
    for n in nodes:
        multi = len(n["outs"]) > 1
        if multi:
            dn = f"P_{n['name']}_divide_outputs"
            mb(dn)["sender"] = f"divide_outputs:{n['outs'][0]}"
            mb(dn)["up"] = list(n["deps"])
            mb(dn)["readers"].append((f"read_0:{dn}_mailbox", True))
            for o in n["outs"]:
                mb(o)["sender"] = f"read_0:{dn}_mailbox"
                mb(o)["up"] = [dn]
            for d in n["deps"]:
                mb(d)["readers"].append((f"divide_outputs:{n['outs'][0]}", True))
        else:
            o = n["outs"][0]
            mb(o)["sender"] = f"build:{o}"
            mb(o)["up"] = list(n["deps"])
            for d in n["deps"]:
                mb(d)["readers"].append((f"build:{o}", True))
    for n in nodes:
        for o, s in zip(n["outs"], n["save"]):
            if s == "A":
                mb(o)["readers"].append((f"save_0:{o}", not lazy))
    for o in sorted(discard):
        mb(o)["readers"].append((f"discard_{o}", True))
    mb(graph["target"])["readers"].append(("main", True))
    for n in nodes:
        if n["mm"] is not None:
            for o in n["outs"]:                 # `if d in components.plugins: m.max_messages = plugin.max_messages`
                mbs[o]["cap"] = n["mm"]
    return mbs


def path_mailboxes(case):
    """mailboxes on a shortest path (in mailbox count) source -> target: the chunks emitted by the source and not
    yet pulled by the consumer all sit in these mailboxes or in the hands of the threads between them"""
    w = wiring(case)
    best = {}

    def go(m):
        if m in best:
            return best[m]
        ups = w[m]["up"]
        if not ups:
            best[m] = [m]
        else:
            best[m] = min((go(u) for u in ups), key=lambda p: (sum(w[x]["cap"] for x in p), len(p))) + [m]
        return best[m]
    return go(case["graph"]["target"])


def bound(case):
    """B(wiring, cap): emitted - pulled <= B at every step, hence at most B further source chunks once the consumer
    stops.  Per mailbox m on the path: at most cap(m) messages buffered in m plus at most cap(m) taken out of m in
    one batch by its reader and not passed on yet (`to_yield` of Mailbox._read; the chunk being computed / waiting to
    be sent is one of them).  Lazy, only the next stage drives (no discarder on the path): one chunk per mailbox."""
    w = wiring(case)
    path = path_mailboxes(case)
    eager = 2 * sum(w[m]["cap"] for m in path)
    if not case["lazy"]:
        return eager
    return min(eager, len(path))


# ============================================================================= real plugins
def dtype_of(t):
    return strax.time_fields + [((f"Identity of {t}", f"id_{t}"), np.int64)]


class Probe:
    """iterator handed to a sender: observes every advance of the source of a mailbox"""

    def __init__(self, it, on_next):
        self.it, self.on_next = it, on_next

    def __iter__(self):
        return self

    def __next__(self):
        self.on_next()
        return next(self.it)

    def throw(self, *a):
        return self.it.throw(*a)

    def close(self):
        return self.it.close()

    def send(self, v):
        return self.it.send(v)


def build_classes(case, st):
    """one tiny REAL plugin class per node; `st` = shared run state (scheduler, counters)"""
    classes = []
    for n in case["graph"]["nodes"]:
        outs, deps = n["outs"], n["deps"]
        multi = len(outs) > 1
        pol = {o: (SW.ALWAYS if s == "A" else SW.NEVER) for o, s in zip(outs, n["save"])}
        attrs = dict(provides=tuple(outs), __version__="1", depends_on=tuple(deps),
                     save_when=immutabledict(pol) if multi else pol[outs[0]],
                     dtype={o: dtype_of(o) for o in outs} if multi else dtype_of(outs[0]),
                     data_kind={o: o for o in outs} if multi else outs[0],
                     rechunk_on_save=False, parallel=bool(case.get("workers")) and bool(deps),
                     max_messages=n["mm"])

        def mk(outs=outs, deps=deps, multi=multi):
            def result(self, start, end, cid):
                res = {}
                for o in outs:
                    r = np.zeros(1, self.dtype_for(o))
                    r["time"], r["endtime"], r[f"id_{o}"] = start, end, cid
                    res[o] = r
                return res if multi else res[outs[0]]
            if not deps:
                def compute(self, chunk_i):
                    st["sc"].yield_point("fetch")
                    st["emitted"] += 1
                    st["on_emit"]()
                    a, b = 10 * chunk_i, 10 * chunk_i + 10
                    res = result(self, a, b, chunk_i)
                    if multi:
                        return {o: self.chunk(start=a, end=b, data=res[o], data_type=o) for o in outs}
                    return self.chunk(start=a, end=b, data=res)

                def is_ready(self, chunk_i):
                    return chunk_i < st["n"]

                def source_finished(self):
                    return True
                return dict(compute=compute, is_ready=is_ready, source_finished=source_finished)

            def compute(self, start, end, **kw):
                x = kw[deps[0]]
                return result(self, start, end, int(x[f"id_{deps[0]}"][0]) if len(x) else -1)
            return dict(compute=compute)
        attrs.update(mk())
        classes.append(type("P_" + n["name"], (strax.Plugin,), attrs))
    return classes


class MemSaver(strax.Saver):
    """the REAL Saver.save_from loop with chunk writes that only count (writing files costs ~60 ms per chunk here)"""

    def __init__(self, store, key, metadata):
        super().__init__(metadata)
        self.store, self.key = store, key

    def _save_chunk(self, data, chunk_info, executor=None):
        self.store.setdefault(self.key, []).append(len(data))
        return {}, None

    def _save_chunk_metadata(self, chunk_info):
        self.md["chunks"].append(chunk_info)

    def _close(self):
        self.store.setdefault(self.key, [])
        self.store["closed:" + self.key] = True


class MemBackend(strax.StorageBackend):
    def __init__(self, store):
        self.store = store

    def _saver(self, key, metadata, **kwargs):
        return MemSaver(self.store, key, metadata)

    def _get_metadata(self, backend_key, **kwargs):
        raise strax.DataNotAvailable


class MemFrontend(strax.StorageFrontend):
    """write-only in-memory storage: nothing is ever found, everything may be saved"""

    def __init__(self):
        super().__init__()
        self.store = {}
        self.backends = [MemBackend(self.store)]

    def _find(self, key, write, allow_incomplete, fuzzy_for, fuzzy_for_options):
        if write:
            return "MemBackend", str(key)
        raise strax.DataNotAvailable

    def run_metadata(self, run_id, projection=None):
        raise strax.RunMetadataNotAvailable

    def write_run_metadata(self, run_id, metadata):
        pass


class PauseStrategy:
    """`pre` before the pause and after the resume; while the consumer is paused: `post` among the OTHER tasks; the
    consumer is chosen only when nothing else is runnable (= quiescence)"""

    def __init__(self, pre, post, st):
        self.pre, self.post, self.st = pre, post, st

    def choose(self, sched, runnable):
        if self.st["paused"]:
            others = [t for t in runnable if t.name != "main"]
            if others:
                return self.post.choose(sched, others)
            return runnable[0]
        return self.pre.choose(sched, runnable)


def thread_depths(case):
    """depth of every pipeline thread = length of the longest path from the source to the mailbox it sends to"""
    w = wiring(case)
    depth = {}

    def d(m):
        if m not in depth:
            depth[m] = 1 + max((d(u) for u in w[m]["up"]), default=-1)
        return depth[m]
    out = {"main": 99}
    for m, info in w.items():
        out[info["sender"]] = d(m)
        for r, _ in info["readers"]:
            if r.startswith(("save_", "discard_")):
                out[r] = d(m) + 0.5
    return out


def make_strategy(spec, case):
    k = spec["kind"]
    if k == "random":
        return S.RandomStrategy(random.Random(spec["seed"]), stick=spec.get("stick", 0.0))
    if k == "pct":
        return S.PCTStrategy(random.Random(spec["seed"]), depth=spec.get("depth", 3), est_steps=spec.get("est", 200))
    dep = thread_depths(case)
    if k == "up":          # adversarial: whoever is furthest upstream runs (fills every buffer before it is drained)
        return S.PriorityStrategy({n: v for n, v in dep.items()}, default=50)
    if k == "down":        # whoever is furthest downstream runs (drains first)
        return S.PriorityStrategy({n: -v for n, v in dep.items()}, default=-50)
    if k == "lagsave":     # upstream first, savers / discarders last (lagging side readers)
        return S.PriorityStrategy({n: (v + 100 if n.startswith(("save_", "discard_")) else v) for n, v in dep.items()}, default=50)
    raise ValueError(k)


class HarnessError(Exception):
    pass


def run_pipeline(case, n):
    """run the real processor for `case` with a source of n chunks. Returns a dict of observations."""
    lazy, cap, k = bool(case["lazy"]), case["cap"], case["k"]
    workers = case.get("workers") or None
    st = dict(n=n, emitted=0, pulled=0, paused=False, sc=None, on_emit=lambda: None)
    obs = dict(cap_bad=[], gate_bad=[], wire_bad=[], max_excess=0, max_len=0, e_pause=None, e_quiet=None, quiet=None,
               got=0, exc=None, deadlocks=0, fetches=0, bad_excess=None)
    exp_w = wiring(case)
    B = bound(case)
    store = MemFrontend()
    holder = {}

    class Proc(strax.ThreadedMailboxProcessor):
        def __init__(self, *a, **kw):
            super().__init__(*a, **kw)
            holder["proc"] = self
            instrument(self)

    def gate_probe(m, who):
        obs["fetches"] += 1
        if not m.lazy or m.killed:
            return
        heap = {num for num, _ in m._mailbox}
        if not any(d and w is not None and w not in heap for d, w in zip(m._subscriber_can_drive, m._subscriber_waiting_for)):
            if len(obs["gate_bad"]) < 3:
                obs["gate_bad"].append(dict(mailbox=m.name, by=who, heap=sorted(int(x) for x in heap),
                                            waiting_for=[None if w is None else int(w) for w in m._subscriber_waiting_for],
                                            can_drive=list(m._subscriber_can_drive),
                                            have_read=[int(x) for x in m._subscribers_have_read], emitted=st["emitted"]))

    def instrument(proc):
        # wiring observed on the real processor
        for name, m in proc.mailboxes.items():
            for t in m._threads:
                tgt = t._target
                if getattr(tgt, "__func__", None) is mbm.Mailbox._send_from:
                    t._args = (Probe(t._args[0], partial(gate_probe, m, t.name)),)
                elif isinstance(tgt, partial) and tgt.func is mbm.divide_outputs:
                    kw = tgt.keywords
                    outs = [kw["mailboxes"][d] for d in kw["outputs"] if d not in kw["flow_freely"]]

                    def on_next(outs=outs, who=t.name):
                        for om in outs:
                            gate_probe(om, who)
                    t._args = (Probe(t._args[0], on_next),) + tuple(t._args[1:])

    def observe_wiring(proc):
        got = {}
        for name, m in proc.mailboxes.items():
            senders = [t.name for t in m._threads if getattr(t._target, "__func__", None) is mbm.Mailbox._send_from]
            readers = [t.name for t in m._threads if getattr(t._target, "__func__", None) is not mbm.Mailbox._send_from]
            got[name] = dict(cap=m.max_messages, senders=senders, readers=readers, drive=list(m._subscriber_can_drive), lazy=m.lazy)
        return got

    def on_step(sc_, t):
        proc = holder.get("proc")
        if proc is None:
            return
        for name, m in proc.mailboxes.items():
            ln = len(m._mailbox)
            c = exp_w.get(name, {}).get("cap", cap)
            if ln > obs["max_len"]:
                obs["max_len"] = ln
            if ln > c and len(obs["cap_bad"]) < 3:
                obs["cap_bad"].append(dict(mailbox=name, buffered=ln, max_messages=c, step=sc_.nsteps, emitted=st["emitted"]))
        ex = st["emitted"] - st["pulled"]
        if ex > obs["max_excess"]:
            obs["max_excess"] = ex

    def quiescence(sc_, proc):
        """who is blocked where, read off the real Condition objects"""
        q = dict(full=0, gate=0, read=0, other=0)
        live = [t for t in sc_.tasks if t.state != "done" and t.name != "main"]
        waiting = 0
        for m in proc.mailboxes.values():
            q["full"] += len(m._write_condition.threading_condition._waiters)
            q["gate"] += len(m._fetch_new_condition.threading_condition._waiters)
            q["read"] += len(m._read_condition.threading_condition._waiters)
        waiting = q["full"] + q["gate"] + q["read"]
        q["other"] = len(live) - waiting
        q["runnable"] = len([t for t in live if t.is_runnable()])
        return q

    def main():
        try:
            ctx = strax.Context(storage=[store], register=build_classes(case, st),
                                processors={"harness": Proc}, allow_lazy=lazy, max_messages=cap, timeout=60,
                                allow_rechunk=False, allow_multiprocess=False)
            it = ctx.get_iter(RUN, case["graph"]["target"], max_workers=workers, progress_bar=False)
            for chunk in it:
                obs["got"] += 1
                st["pulled"] += 1
                if holder.get("proc") is not None and not obs.get("wiring"):
                    obs["wiring"] = observe_wiring(holder["proc"])
                if obs["got"] == k:
                    obs["e_pause"] = st["emitted"]
                    st["paused"] = True
                    sc.yield_point("paused")          # returns when nothing else is runnable
                    obs["e_quiet"] = st["emitted"]
                    obs["quiet"] = quiescence(sc, holder["proc"])
                    st["paused"] = False
                sc.yield_point("consumer")
        except S._Abort:
            raise
        except BaseException as e:  # noqa: BLE001
            obs["exc"] = f"{type(e).__name__}: {str(e)[:200]}"

    strat = PauseStrategy(make_strategy(case["pre"], case), make_strategy(case["post"], case), st)
    sc = S.Sched(strat, prime=True, on_step=on_step, max_steps=200000)
    st["sc"] = sc
    fut_ns = None
    try:
        with sc.patch(mbm):
            saved_futures = tmm.futures
            if workers:
                import types
                fut_ns = types.SimpleNamespace(ThreadPoolExecutor=lambda max_workers=None: S.SchedExecutor(sc, max_workers or 2),
                                               ProcessPoolExecutor=saved_futures.ProcessPoolExecutor)
                tmm.futures = fut_ns
            try:
                sc.spawn(main, "main")
                sc.run()
            finally:
                tmm.futures = saved_futures
        sc.join_real()
    finally:
        pass
    obs["saved"] = {k.split("-")[1] if "-" in k else k: (len(v) if isinstance(v, list) else v) for k, v in store.store.items()}
    obs["deadlocks"] = len(sc.deadlocks)
    obs["dead_where"] = sc.deadlocks[:1]
    obs["steps"] = sc.nsteps
    obs["thread_exc"] = sorted(f"{t.name}:{type(t.exc).__name__}" for t in sc.tasks if t.exc is not None)
    obs["B"] = B
    return obs
