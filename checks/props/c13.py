"""C13 — production is limited by demand and buffer capacity (backpressure).

Model: lean/StraxModel/Model/Backpressure.lean (a chain of the mailboxes of Model/Mailbox.lean wired like
ThreadedMailboxProcessor wires a linear plugin graph); theorems: Props/C13.lean (mailbox level: capacity_inv,
lazy_gate, old-rule counterexample — c05-builder) and Props/C13Net.lean (pipeline level: capacity of every mailbox of
a pipeline, the gate at every mailbox of a lazy pipeline, rest_bound for chains, local back-pressure for any wiring).

Tie / validation: the REAL ThreadedMailboxProcessor is run through Context.get_iter under the cooperative scheduler
(checks/lib/sched.py).  The consumer ("main" task) pulls k chunks and then stops; every other thread runs until none
is runnable (quiescence: every live thread is blocked in Condition.wait — on a full mailbox, at the fetch gate or on a
message that is not there); the number of source `compute` calls is read off before and after; the consumer then
resumes and the run is completed.  The same is done for a run of N and of 2N source chunks.
Oracle (independent of the model, exactly the property's wording): (a) the number of further source chunks after the
pause is the same for N and 2N and at most the bound PROVED for the wiring (chains: chain_rest_bound*; other graphs:
pathBound of dag_rest_bound); (b) eager mode: len(_mailbox) <= max_messages after every scheduler step; (c) lazy mode:
whenever the sender of a mailbox advances its source (mailbox not killed) some driving subscriber waits for a number that
is not in the heap; and the run must be measurable (pause reached, everything else at rest, nothing died, the resumed run
complete).  Tighter numbers that are measured but not proved (lazy non-chains: 1) are reported in the evidence only.
Correspondences: chains incl. worker pools vs the Lean chain model (`c13.rest`: counts, buffered messages, wiring); every
shape vs `Net.step` of c06's net model (`c13.netrest`: n_sent of every mailbox at the pause and at rest); the hypotheses and
the bound of the net-level theorems on the wired net (`c13.path`); the stand-alone mailbox vs `c05.run`.
"""
from __future__ import annotations

import os
import random
from functools import partial

import numpy as np
from immutabledict import immutabledict

from lib.straxlib import strax  # noqa: F401  (must be the first strax import: private numba cache)
import strax.mailbox as mbm  # noqa: E402
import strax.processors.threaded_mailbox as tmm  # noqa: E402
from lib import sched as S  # noqa: E402

ID = "C13"
LEAN_MODULES = ["StraxModel.Props.C13", "StraxModel.Props.C13Net", "StraxModel.Props.C13Dag", "StraxModel.Props.C13Gates", "StraxModel.Props.C05Gates"]
TRUSTED = [
    "cooperative scheduler checks/lib/sched.py (replaces `threading` inside strax.mailbox and the thread pool of "
    "strax.processors.threaded_mailbox: real threads, one runs at a time, yield points at lock acquire / Condition.wait / "
    "Future.result / the harness points `fetch` (source compute) and `paused` (consumer))",
    "harness probes: iterators handed to Mailbox._send_from / divide_outputs are wrapped (by rebinding the Thread arguments of "
    "the already wired processor, nothing in /repo is edited) so that every advance of a mailbox's source is observed",
    "modelled, not verified: threading.Condition / RLock semantics, heapq, Plugin.iter for one-to-one plugins",
    "translator (checks/lib/mailbox_translate.py, step regen): AST of can_write (Mailbox.send), Mailbox._can_fetch, _has_msg, "
    "_lowest_msg_number, next_ready and the clean-up test of _read, the number check of send -> Generated/MailboxGates.lean over "
    "MailboxAbs.St; Props/C13Gates.lean proves generated can_write / _can_fetch = MB.canWrite / MB.canFetch (gate rule hasMsg); "
    "trusted: heap[0][0] of a heapq is the smallest number, float('inf') = no capacity",
]
ASSUMPTIONS = [
    "plugins are one-to-one on chunks (every plugin emits one chunk per input chunk, all sources chunked alike): the bound "
    "B counts chunks; rechunking / overlap-window plugins that withhold chunks are C06/C09's subject",
    "quiescence is defined under the cooperative scheduler: no task runnable except the paused consumer; OS scheduler "
    "fairness is outside (under an unfair schedule nothing comes to rest; the bound itself holds at every step)",
    "no failures are injected (C06)",
]

RUN = "0"
SW = strax.SaveWhen


def regen(ctx):
    """step 0: regenerate Generated/MailboxGates.lean from the current source of strax/mailbox.py (shared with C05)"""
    from lib import mailbox_translate
    mailbox_translate.regen(ctx)

try:                                        # the scheduler hands a baton between real threads: one CPU is much faster
    os.sched_setaffinity(0, {sorted(os.sched_getaffinity(0))[0]})
except (AttributeError, OSError):
    pass


# ============================================================================= graphs
# a graph = list of nodes in topological order; node = dict(name, deps, outs, save (one letter per out: N|A), mm (None|int))
# the first node is the source (deps = []); every data type has its own data kind.
def g_chain(length, save="", mm=None):
    """src -> p1 -> ... -> p<length>; save = names of saved types; mm = {name: max_messages override}"""
    mm = mm or {}
    nodes = [dict(name="src", deps=[], outs=["src"], save="A" if "src" in save.split(",") else "N", mm=mm.get("src"))]
    prev = "src"
    for i in range(1, length + 1):
        n = f"p{i}"
        nodes.append(dict(name=n, deps=[prev], outs=[n], save="A" if n in save.split(",") else "N", mm=mm.get(n)))
        prev = n
    return dict(nodes=nodes, target=prev, shape=f"chain{length}")


def g_diamond(save=""):
    sv = save.split(",")
    s = lambda n: "A" if n in sv else "N"  # noqa: E731
    nodes = [dict(name="src", deps=[], outs=["src"], save=s("src"), mm=None),
             dict(name="da", deps=["src"], outs=["da"], save=s("da"), mm=None),
             dict(name="db", deps=["src"], outs=["db"], save=s("db"), mm=None),
             dict(name="tt", deps=["da", "db"], outs=["tt"], save=s("tt"), mm=None)]
    return dict(nodes=nodes, target="tt", shape="diamond")


def g_multi(variant, save=""):
    """multi-output plugin mo: src -> (xx, yy).
    side:   target tt(xx), yy produced but neither required nor saved (discarder) or saved (flows freely)
    both:   target tt(xx, yy)
    direct: target xx itself
    srcmo:  the SOURCE is the multi-output plugin (xx, yy), target tt(xx)"""
    sv = save.split(",")
    s = lambda n: "A" if n in sv else "N"  # noqa: E731
    if variant == "srcmo":
        nodes = [dict(name="mo", deps=[], outs=["xx", "yy"], save=s("xx") + s("yy"), mm=None),
                 dict(name="tt", deps=["xx"], outs=["tt"], save=s("tt"), mm=None)]
        return dict(nodes=nodes, target="tt", shape="multi-srcmo")
    nodes = [dict(name="src", deps=[], outs=["src"], save=s("src"), mm=None),
             dict(name="mo", deps=["src"], outs=["xx", "yy"], save=s("xx") + s("yy"), mm=None)]
    if variant == "direct":
        return dict(nodes=nodes, target="xx", shape="multi-direct")
    deps = ["xx", "yy"] if variant == "both" else ["xx"]
    nodes.append(dict(name="tt", deps=deps, outs=["tt"], save=s("tt"), mm=None))
    return dict(nodes=nodes, target="tt", shape=f"multi-{variant}")


def provider(graph):
    return {o: n for n in graph["nodes"] for o in n["outs"]}


def needed_nodes(graph):
    prov = provider(graph)
    seen, order = set(), []

    def visit(t):
        n = prov[t]
        if n["name"] in seen:
            return
        seen.add(n["name"])
        for d in n["deps"]:
            visit(d)
        order.append(n)
    visit(graph["target"])
    return order


def wiring(case):
    """what ThreadedMailboxProcessor.__init__ should build for this case, derived from the graph alone (independent
    re-statement of the wiring rules; diffed against the real processor on every run and against the Lean `wire`).
    Returns {mailbox: dict(cap, senders, readers=[(name, can_drive)], src=upstream mailboxes)}"""
    graph, lazy, cap = case["graph"], bool(case["lazy"]), case["cap"]
    nodes = needed_nodes(graph)
    required = {graph["target"]} | {d for n in nodes for d in n["deps"]}
    produced = {o for n in nodes for o in n["outs"]}
    saved = {o for n in nodes for o, s in zip(n["outs"], n["save"]) if s == "A"}
    free = produced - required
    discard = free - saved
    mbs = {}

    def mb(name):
        return mbs.setdefault(name, dict(cap=cap, sender=None, readers=[], up=[]))
    for n in nodes:
        multi = len(n["outs"]) > 1
        if multi:
            dn = f"P_{n['name']}_divide_outputs"
            mb(dn)["sender"] = f"divide_outputs:{n['outs'][0]}"
            mb(dn)["up"] = list(n["deps"])
            mb(dn)["readers"].append((f"read_0:{dn}_mailbox", True))
            for o in n["outs"]:
                mb(o)["sender"] = f"read_0:{dn}_mailbox"
                mb(o)["up"] = [dn]
            for d in n["deps"]:
                mb(d)["readers"].append((f"divide_outputs:{n['outs'][0]}", True))
        else:
            o = n["outs"][0]
            mb(o)["sender"] = f"build:{o}"
            mb(o)["up"] = list(n["deps"])
            for d in n["deps"]:
                mb(d)["readers"].append((f"build:{o}", True))
    for n in nodes:
        for o, s in zip(n["outs"], n["save"]):
            if s == "A":
                mb(o)["readers"].append((f"save_0:{o}", not lazy))
    for o in sorted(discard):
        mb(o)["readers"].append((f"discard_{o}", True))
    mb(graph["target"])["readers"].append(("main", True))
    for n in nodes:
        if n["mm"] is not None:
            for o in n["outs"]:                 # `if d in components.plugins: m.max_messages = plugin.max_messages`
                mbs[o]["cap"] = n["mm"]
    return mbs


def path_mailboxes(case):
    """mailboxes on a shortest path (in mailbox count) source -> target: the chunks emitted by the source and not
    yet pulled by the consumer all sit in these mailboxes or in the hands of the threads between them"""
    w = wiring(case)
    best = {}

    def go(m):
        if m in best:
            return best[m]
        ups = w[m]["up"]
        if not ups:
            best[m] = [m]
        else:
            best[m] = min((go(u) for u in ups), key=lambda p: (sum(w[x]["cap"] for x in p), len(p))) + [m]
        return best[m]
    return go(case["graph"]["target"])


def bound(case):
    """The PROVED bound on the number of further source chunks once the consumer stops, for this wiring (None = no theorem):
    * chains (flag-level chain model, Props/C13Net.lean): eager `B = 2 * sum(max_messages)` (chain_rest_bound_paused), eager
      with a worker pool `B + 1` (chain_rest_bound_pool_paused), lazy `1` (chain_rest_bound_lazy_paused; savers do not drive);
    * every other graph (Props/C13Dag.lean, dag_rest_bound_paused): `pathBound` = 2 * sum(max_messages) over the mailboxes
      of the cheapest path source -> target (one-to-one plugins: lag 1, pathLagR 0), lazy and eager alike; with a worker pool
      there is no theorem (futures are not in Model/Net.lean).
    What is measured tighter than that (lazy DAGs: 1) is reported in the evidence notes, not enforced."""
    w = wiring(case)
    path = path_mailboxes(case)
    eager = 2 * sum(w[m]["cap"] for m in path)
    if is_chain(case):
        if case["lazy"]:
            return 1
        return eager + 1 if case.get("workers") else eager
    if case.get("workers") and not case["lazy"]:
        return None
    return eager


def proved_by(case):
    if is_chain(case):
        return "chain_rest_bound_lazy_paused" if case["lazy"] else \
            ("chain_rest_bound_pool_paused" if case.get("workers") else "chain_rest_bound_paused")
    return None if (case.get("workers") and not case["lazy"]) else "dag_rest_bound_paused"


# ============================================================================= real plugins
def dtype_of(t):
    return strax.time_fields + [((f"Identity of {t}", f"id_{t}"), np.int64)]


class Probe:
    """iterator handed to a sender: observes every advance of the source of a mailbox"""

    def __init__(self, it, on_next):
        self.it, self.on_next = it, on_next

    def __iter__(self):
        return self

    def __next__(self):
        self.on_next()
        return next(self.it)

    def throw(self, *a):
        return self.it.throw(*a)

    def close(self):
        return self.it.close()

    def send(self, v):
        return self.it.send(v)


def build_classes(case, st):
    """one tiny REAL plugin class per node; `st` = shared run state (scheduler, counters)"""
    classes = []
    for n in case["graph"]["nodes"]:
        outs, deps = n["outs"], n["deps"]
        multi = len(outs) > 1
        pol = {o: (SW.ALWAYS if s == "A" else SW.NEVER) for o, s in zip(outs, n["save"])}
        attrs = dict(provides=tuple(outs), __version__="1", depends_on=tuple(deps),
                     save_when=immutabledict(pol) if multi else pol[outs[0]],
                     dtype={o: dtype_of(o) for o in outs} if multi else dtype_of(outs[0]),
                     data_kind={o: o for o in outs} if multi else outs[0],
                     rechunk_on_save=False, parallel=bool(case.get("workers")) and bool(deps),
                     max_messages=n["mm"])

        def mk(outs=outs, deps=deps, multi=multi):
            def result(self, start, end, cid):
                res = {}
                for o in outs:
                    r = np.zeros(1, self.dtype_for(o))
                    r["time"], r["endtime"], r[f"id_{o}"] = start, end, cid
                    res[o] = r
                return res if multi else res[outs[0]]
            if not deps:
                def compute(self, chunk_i):
                    st["sc"].yield_point("fetch")
                    st["emitted"] += 1
                    st["on_emit"]()
                    a, b = 10 * chunk_i, 10 * chunk_i + 10
                    res = result(self, a, b, chunk_i)
                    if multi:
                        return {o: self.chunk(start=a, end=b, data=res[o], data_type=o) for o in outs}
                    return self.chunk(start=a, end=b, data=res)

                def is_ready(self, chunk_i):
                    return chunk_i < st["n"]

                def source_finished(self):
                    return True
                return dict(compute=compute, is_ready=is_ready, source_finished=source_finished)

            def compute(self, start, end, **kw):
                x = kw[deps[0]]
                return result(self, start, end, int(x[f"id_{deps[0]}"][0]) if len(x) else -1)
            return dict(compute=compute)
        attrs.update(mk())
        classes.append(type("P_" + n["name"], (strax.Plugin,), attrs))
    return classes


class MemSaver(strax.Saver):
    """the REAL Saver.save_from loop with chunk writes that only count (writing files costs ~60 ms per chunk here)"""

    def __init__(self, store, key, metadata):
        super().__init__(metadata)
        self.store, self.key = store, key

    def _save_chunk(self, data, chunk_info, executor=None):
        self.store.setdefault(self.key, []).append(len(data))
        return {}, None

    def _save_chunk_metadata(self, chunk_info):
        self.md["chunks"].append(chunk_info)

    def _close(self):
        self.store.setdefault(self.key, [])
        self.store["closed:" + self.key] = True


class MemBackend(strax.StorageBackend):
    def __init__(self, store):
        self.store = store

    def _saver(self, key, metadata, **kwargs):
        return MemSaver(self.store, key, metadata)

    def _get_metadata(self, backend_key, **kwargs):
        raise strax.DataNotAvailable


class MemFrontend(strax.StorageFrontend):
    """write-only in-memory storage: nothing is ever found, everything may be saved"""

    def __init__(self):
        super().__init__()
        self.store = {}
        self.backends = [MemBackend(self.store)]

    def _find(self, key, write, allow_incomplete, fuzzy_for, fuzzy_for_options):
        if write:
            return "MemBackend", str(key)
        raise strax.DataNotAvailable

    def run_metadata(self, run_id, projection=None):
        raise strax.RunMetadataNotAvailable

    def write_run_metadata(self, run_id, metadata):
        pass


class AwaitFuture(S.SFuture):
    """future of `AwaitExecutor`: registers who waits for it"""

    def __init__(self, sched, ex):
        super().__init__(sched)
        self._ex = ex

    def result(self, timeout=None):
        if not self.done():
            me = self._sched.current()
            self._ex.awaited[self] = me.name if me is not None else "?"
            try:
                return super().result(timeout)
            finally:
                self._ex.awaited.pop(self, None)
        return super().result(0)


class AwaitExecutor:
    """harness stand-in for the thread pool that mirrors `Tid.resolve` of Model/Backpressure.lean: ONE worker task; a job
    is run (one atomic step) only while some task is blocked in `result()` of its future; among the awaited futures the one
    awaited by the most upstream task first.  (The executor is harness either way; what is under test is the mailbox /
    processor code that handles the futures.)"""

    def __init__(self, sched, depth):
        self.sched, self.depth = sched, depth
        self.jobs, self.awaited = {}, {}
        self.worker, self.down = None, False

    def _ready(self):
        r = [f for f in self.jobs if f in self.awaited]
        return sorted(r, key=lambda f: self.depth.get(self.awaited[f], 1000))

    def _work(self):
        while True:
            self.sched.block(lambda: bool(self._ready()) or self.down, "pool-idle", can_timeout=False)
            todo = self._ready()[:1] if not self.down else list(self.jobs)
            for f in todo:
                fn, a, kw = self.jobs.pop(f)
                if f.set_running_or_notify_cancel():
                    try:
                        f.set_result(fn(*a, **kw))
                    except BaseException as e:  # noqa: BLE001
                        if isinstance(e, S._Abort):
                            raise
                        f.set_exception(e)
            if self.down and not self.jobs:
                return

    def submit(self, fn, *a, **kw):
        f = AwaitFuture(self.sched, self)
        self.jobs[f] = (fn, a, kw)
        if self.worker is None:
            self.worker = self.sched.spawn(self._work, "pool0")
        return f

    def shutdown(self, wait=True, cancel_futures=False):
        self.down = True
        if wait and self.worker is not None and self.sched.current() is not None:
            self.worker.join()


class PauseStrategy:
    """`pre` before the pause and after the resume; while the consumer is paused: `post` among the OTHER tasks; the
    consumer is chosen only when nothing else is runnable (= quiescence)"""

    def __init__(self, pre, post, st):
        self.pre, self.post, self.st = pre, post, st

    def choose(self, sched, runnable):
        if self.st.get("sync_start") and not self.st.get("started"):
            # let the consumer start every thread before anything else runs (the Lean model has all threads from the start)
            if len(sched.tasks) >= self.st["n_threads"]:
                self.st["started"] = True
            else:
                for t in runnable:
                    if t.name == "main":
                        return t
        if self.st["paused"]:
            others = [t for t in runnable if t.name != "main"]
            if others:
                return self.post.choose(sched, others)
            return runnable[0]
        return self.pre.choose(sched, runnable)


def thread_depths(case):
    """depth of every pipeline thread = length of the longest path from the source to the mailbox it sends to"""
    w = wiring(case)
    depth = {}

    def d(m):
        if m not in depth:
            depth[m] = 1 + max((d(u) for u in w[m]["up"]), default=-1)
        return depth[m]
    out = {"main": 99}
    for m, info in w.items():
        out[info["sender"]] = d(m)
        for r, _ in info["readers"]:
            if r.startswith(("save_", "discard_")):
                out[r] = d(m) + 0.5
    return out


def make_strategy(spec, case):
    k = spec["kind"]
    if k == "random":
        return S.RandomStrategy(random.Random(spec["seed"]), stick=spec.get("stick", 0.0))
    if k == "pct":
        return S.PCTStrategy(random.Random(spec["seed"]), depth=spec.get("depth", 3), est_steps=spec.get("est", 200))
    dep = thread_depths(case)
    dep["pool0"] = 98.5 if k == "up" else 1000      # the worker of AwaitExecutor: like Policy.prio of Tid.resolve
    if k == "up":          # adversarial: whoever is furthest upstream runs (fills every buffer before it is drained)
        return S.PriorityStrategy({n: v for n, v in dep.items()}, default=50)
    if k == "down":        # whoever is furthest downstream runs (drains first)
        return S.PriorityStrategy({n: (v if n == "pool0" else -v) for n, v in dep.items()}, default=-50)
    if k == "lagsave":     # upstream first, savers / discarders last (lagging side readers)
        return S.PriorityStrategy({n: (v + 100 if n.startswith(("save_", "discard_")) else v) for n, v in dep.items()}, default=50)
    raise ValueError(k)


class HarnessError(Exception):
    pass


def run_pipeline(case, n):
    """run the real processor for `case` with a source of n chunks. Returns a dict of observations."""
    lazy, cap, k = bool(case["lazy"]), case["cap"], case["k"]
    workers = case.get("workers") or None
    st = dict(n=n, emitted=0, pulled=0, paused=False, sc=None, on_emit=lambda: None, sync_start=bool(case.get("sync_start")))
    obs = dict(cap_bad=[], gate_bad=[], wire_bad=[], max_excess=0, max_len=0, e_pause=None, e_quiet=None, quiet=None,
               got=0, exc=None, deadlocks=0, fetches=0, bad_excess=None)
    exp_w = wiring(case)
    st["n_threads"] = 1 + len({info["sender"] for info in exp_w.values()} | {r for info in exp_w.values() for r, _ in info["readers"]} - {"main"})
    B = bound(case)
    store = MemFrontend()
    holder = {}

    class Proc(strax.ThreadedMailboxProcessor):
        def __init__(self, components, *a, **kw):
            super().__init__(components, *a, **kw)
            holder["proc"] = self
            obs["components"] = describe_components(self.components, kw)
            instrument(self)

    def gate_probe(m, who):
        obs["fetches"] += 1
        if not m.lazy or m.killed:
            return
        heap = {num for num, _ in m._mailbox}
        if not any(d and w is not None and w not in heap for d, w in zip(m._subscriber_can_drive, m._subscriber_waiting_for)):
            if len(obs["gate_bad"]) < 3:
                obs["gate_bad"].append(dict(mailbox=m.name, by=who, heap=sorted(int(x) for x in heap),
                                            waiting_for=[None if w is None else int(w) for w in m._subscriber_waiting_for],
                                            can_drive=list(m._subscriber_can_drive),
                                            have_read=[int(x) for x in m._subscribers_have_read], emitted=st["emitted"]))

    def instrument(proc):
        # wiring observed on the real processor
        for name, m in proc.mailboxes.items():
            for t in m._threads:
                tgt = t._target
                if getattr(tgt, "__func__", None) is mbm.Mailbox._send_from:
                    t._args = (Probe(t._args[0], partial(gate_probe, m, t.name)),)
                elif isinstance(tgt, partial) and tgt.func is mbm.divide_outputs:
                    kw = tgt.keywords
                    outs = [kw["mailboxes"][d] for d in kw["outputs"] if d not in kw["flow_freely"]]

                    obs.setdefault("free", set()).update(d for d in kw["outputs"] if d in kw["flow_freely"])

                    def on_next(outs=outs, who=t.name):
                        for om in outs:
                            gate_probe(om, who)
                    t._args = (Probe(t._args[0], on_next),) + tuple(t._args[1:])

    def observe_wiring(proc):
        got = {}
        for name, m in proc.mailboxes.items():
            senders = [t.name for t in m._threads if getattr(t._target, "__func__", None) is mbm.Mailbox._send_from]
            readers = [t.name for t in m._threads if getattr(t._target, "__func__", None) is not mbm.Mailbox._send_from]
            got[name] = dict(cap=m.max_messages, senders=senders, readers=readers, drive=list(m._subscriber_can_drive), lazy=m.lazy)
        return got

    def on_step(sc_, t):
        proc = holder.get("proc")
        if proc is None:
            return
        for name, m in proc.mailboxes.items():
            ln = len(m._mailbox)
            c = exp_w.get(name, {}).get("cap", cap)
            if ln > obs["max_len"]:
                obs["max_len"] = ln
            if ln > c and len(obs["cap_bad"]) < 3:
                obs["cap_bad"].append(dict(mailbox=name, buffered=ln, max_messages=c, step=sc_.nsteps, emitted=st["emitted"]))
        ex = st["emitted"] - st["pulled"]
        if ex > obs["max_excess"]:
            obs["max_excess"] = ex

    def quiescence(sc_, proc):
        """who is blocked where, read off the real Condition objects"""
        q = dict(full=0, gate=0, read=0, idle=0, other=0)
        live = [t for t in sc_.tasks if t.state != "done" and t.name != "main"]
        for m in proc.mailboxes.values():
            q["full"] += len(m._write_condition.threading_condition._waiters)
            q["gate"] += len(m._fetch_new_condition.threading_condition._waiters)
            q["read"] += len(m._read_condition.threading_condition._waiters)
        q["idle"] = len([t for t in live if t.tag == "pool-idle"])      # worker threads of the pool with an empty queue
        waiting = q["full"] + q["gate"] + q["read"] + q["idle"]
        q["other"] = len(live) - waiting
        q["runnable"] = len([t for t in live if t.is_runnable()])
        return q

    def heaps(proc):
        return [len(proc.mailboxes[m]._mailbox) if m in proc.mailboxes else -1 for m in path_mailboxes(case)]

    def nsent(proc):
        return [int(m._n_sent) for m in proc.mailboxes.values()]

    def main():
        try:
            ctx = strax.Context(storage=[store], register=build_classes(case, st),
                                processors={"harness": Proc}, allow_lazy=lazy, max_messages=cap, timeout=60,
                                allow_rechunk=False, allow_multiprocess=False)
            it = ctx.get_iter(RUN, case["graph"]["target"], max_workers=workers, progress_bar=False)
            for chunk in it:
                obs["got"] += 1
                st["pulled"] += 1
                if holder.get("proc") is not None and not obs.get("wiring"):
                    obs["wiring"] = observe_wiring(holder["proc"])
                if obs["got"] == k:
                    obs["e_pause"] = st["emitted"]
                    obs["heaps_pause"] = heaps(holder["proc"])
                    obs["nsent_pause"] = nsent(holder["proc"])
                    st["paused"] = True
                    sc.yield_point("paused")          # returns when nothing else is runnable
                    obs["e_quiet"] = st["emitted"]
                    obs["heaps_quiet"] = heaps(holder["proc"])
                    obs["nsent_quiet"] = nsent(holder["proc"])
                    obs["quiet"] = quiescence(sc, holder["proc"])
                    st["paused"] = False
                sc.yield_point("consumer")
        except S._Abort:
            raise
        except BaseException as e:  # noqa: BLE001
            obs["exc"] = f"{type(e).__name__}: {str(e)[:200]}"

    strat = PauseStrategy(make_strategy(case["pre"], case), make_strategy(case["post"], case), st)
    sc = S.Sched(strat, prime=True, on_step=on_step, max_steps=200000)
    st["sc"] = sc
    fut_ns = None
    try:
        with sc.patch(mbm):
            saved_futures = tmm.futures
            if workers:
                import types
                if case.get("await_pool"):
                    mk_ex = lambda max_workers=None: AwaitExecutor(sc, thread_depths(case))  # noqa: E731
                else:
                    mk_ex = lambda max_workers=None: S.SchedExecutor(sc, max_workers or 2)  # noqa: E731
                fut_ns = types.SimpleNamespace(ThreadPoolExecutor=mk_ex, ProcessPoolExecutor=saved_futures.ProcessPoolExecutor)
                tmm.futures = fut_ns
            try:
                sc.spawn(main, "main")
                sc.run()
            finally:
                tmm.futures = saved_futures
        sc.join_real()
    finally:
        pass
    obs["saved"] = {k.split("-")[1] if "-" in k else k: (len(v) if isinstance(v, list) else v) for k, v in store.store.items()}
    obs["deadlocks"] = len(sc.deadlocks)
    obs["dead_where"] = sc.deadlocks[:1]
    obs["steps"] = sc.nsteps
    obs["thread_exc"] = sorted(f"{t.name}:{type(t.exc).__name__}" for t in sc.tasks if t.exc is not None)
    obs["B"] = B
    # the fixed priorities the run used, as an explicit order of thread names (ties: order of creation)
    if case["pre"]["kind"] in ("up", "down", "lagsave") and case["pre"] == case["post"]:
        order = getattr(strat.pre, "order", {})
        dflt = getattr(strat.pre, "default", 0)
        obs["prio"] = [t.name for t in sorted(sc.tasks, key=lambda t: (order.get(t.name, dflt), t.index))]
    return obs


# ============================================================================= observations -> canonical line, oracle
def describe_components(comps, kw):
    """the ProcessorComponents the real processor was given, in the argument format of the driver ops `c06.wire` /
    `c13.path` (dict orders as they are)"""
    insts = []
    for p in comps.plugins.values():
        if not any(p is q for q in insts):
            insts.append(p)
    keys = [(d, next(i for i, q in enumerate(insts) if q is p)) for d, p in comps.plugins.items()]
    defs = [dict(cls=p.__class__.__name__, provides=list(p.provides), depends_on=list(p.depends_on),
                 max_messages=p.max_messages) for p in insts]
    return dict(defs=defs, keys=keys, savers=[(d, len(v)) for d, v in comps.savers.items()], loaders=list(comps.loaders),
                targets=list(comps.targets), allow_lazy=int(bool(kw.get("allow_lazy", True))), max_workers=kw.get("max_workers"),
                max_messages=kw.get("max_messages", 4))


def op_path(case, comp, n):
    if comp is None or comp["loaders"]:
        return None
    defs = ";".join(f"{d['cls']}|{'.'.join(d['provides'])}|{'.'.join(d['depends_on'])}|"
                    f"{'-' if d['max_messages'] is None else d['max_messages']}|{n}" for d in comp["defs"]) or "-"
    plugins = ",".join(f"{k}={i}" for k, i in comp["keys"]) or "-"
    savers = ",".join(f"{d}={k}" for d, k in comp["savers"]) or "-"
    mw = "-" if comp["max_workers"] is None else comp["max_workers"]
    return f"c13.path {comp['allow_lazy']} {mw} {comp['max_messages']} {','.join(comp['targets'])} - {defs} {plugins} {savers}"


def op_netrest(case, comp, n, prio):
    base = op_path(case, comp, n)
    if base is None or not prio:
        return None
    return "c13.netrest" + base[len("c13.path"):] + f" {case['k']} {','.join(x for x in prio if x != 'pool0')}"


def net_cases(rng, count):
    """every shape under the fixed-priority schedules (no worker pool: futures are not in Model/Net.lean): these runs are
    replayed by `Net.step` (c13.netrest)"""
    out = []
    for _ in range(count):
        shape = rng.choice(SHAPES)
        ts = types_of(shape)
        save = ",".join(t for t in ts if rng.random() < 0.35)
        pol = rng.choice(["up", "down", "lagsave"])
        c = mk_case(shape, rng.choice([1, 2, 2, 3]), rng.random() < 0.45, rng.choice([1, 2, 3, 5]), dict(kind=pol), dict(kind=pol), save)
        c["sync_start"] = 1
        out.append(c)
    return out


def path_line(case):
    """what `dag_rest_bound` / `dag_lazy_gate` should say for this graph: the path hypothesis holds on the wired net, the
    consumer is the only reader of its subscription, the bound along the cheapest path is 2 * sum(max_messages)
    (one-to-one plugins: lag 1); in lazy mode every mailbox is gated except the flow-freely outputs of a divider (as
    observed on the REAL divider's `flow_freely` argument), in eager mode none"""
    w = wiring(case)
    path = path_mailboxes(case)
    B = 2 * sum(w[m]["cap"] for m in path)
    lazy = bool(case["lazy"]) and not case.get("workers")
    gated = sorted(m for m in w if m not in case.get("free", [])) if lazy else []
    return (f"ok hyp=1 sole=1 B={B} lagR=0 path={'>'.join(path)} lags={','.join('1' for _ in path[1:])} "
            f"gated={','.join(gated) or '-'}")


def is_chain(case):
    return case["graph"]["shape"].startswith("chain")


def chain_params(case):
    w = wiring(case)
    path = path_mailboxes(case)
    caps = ",".join(str(w[m]["cap"]) for m in path)
    sav = ",".join(str(sum(1 for r, _ in w[m]["readers"] if r.startswith("save_"))) for m in path)
    return caps, sav


POLICY = {"up": "up", "down": "down", "lagsave": "lag"}


def op_rest(case):
    caps, sav = chain_params(case)
    return (f"c13.rest {case['lazy']} {caps} {sav} {1 if case.get('workers') else 0} {case['n']} {case['k']} "
            f"{POLICY[case['pre']['kind']]} {POLICY[case['post']['kind']]}")


def wire_line(case, obs):
    """the wiring observed on the real processor, in the canonical form of the Lean driver (chains)"""
    got = obs.get("wiring") or {}
    out = []
    for m in path_mailboxes(case):
        g = got.get(m)
        if g is None:
            out.append("missing")
            continue
        cap = "inf" if g["cap"] == float("inf") else str(int(g["cap"]))
        out.append(f"{cap}:{int(bool(g['lazy']))}:{''.join(sorted(('1' if d else '0' for d in g['drive']), reverse=True))}")
    return ";".join(out)


def wiring_diff(case, obs):
    """independent re-statement of the wiring rules vs what ThreadedMailboxProcessor built"""
    exp, got = wiring(case), obs.get("wiring")
    if got is None:
        return "processor not observed"
    if sorted(exp) != sorted(got):
        return f"mailboxes {sorted(got)} instead of {sorted(exp)}"
    for m in exp:
        e, g = exp[m], got[m]
        if g["cap"] != e["cap"]:
            return f"mailbox {m}: max_messages = {g['cap']}, wiring says {e['cap']}"
        if bool(g["lazy"]) != bool(case["lazy"]) and not case.get("workers"):
            return f"mailbox {m}: lazy = {g['lazy']}"
        ed = sorted(d for _, d in e["readers"])
        if sorted(g["drive"]) != ed:
            return (f"mailbox {m}: can_drive flags {g['drive']} for readers {g['readers']}, the wiring rules give "
                    f"{e['readers']} (savers must not drive in lazy mode)")
    return None


def summarise(case, o1, o2):
    """one canonical line for the pair of runs (n and 2n source chunks)"""
    def f(o):
        return "x" if o["e_quiet"] is None else str(o["e_quiet"] - o["e_pause"])
    q = o1["quiet"] or {}
    return (f"ok further={f(o1)}/{f(o2)} pause={o1['e_pause']}/{o2['e_pause']} quiet={o1['e_quiet']}/{o2['e_quiet']} "
            f"maxex={o1['max_excess']}/{o2['max_excess']} maxlen={max(o1['max_len'], o2['max_len'])} B={o1['B']} "
            f"got={o1['got']}/{o2['got']} at_rest=full{q.get('full')}.gate{q.get('gate')}.read{q.get('read')}.other{q.get('other')} "
            f"dl={o1['deadlocks']}/{o2['deadlocks']} exc={(o1['exc'] or o2['exc'] or '-').split(':')[0]} "
            f"thr={','.join(o1['thread_exc'] + o2['thread_exc']) or '-'}")


def judge(case, obs_list):
    """the property's own wording, evaluated on what the real pipeline did: (a) further source chunks after the pause equal
    for n and 2n and at most the proved bound of the wiring, (b) eager: no mailbox buffers more than max_messages at any
    scheduler step, (c) lazy: the gate condition at every advance of a mailbox's source; and the run must be measurable at all
    (the consumer reaches its pause, everything else comes to rest, nothing dies)"""
    B = bound(case)
    for tag, o in obs_list:
        n = o["n"]
        if o["exc"]:
            return f"{tag}: not measurable: the consumer got {o['exc']}"
        if o["thread_exc"]:
            return f"{tag}: not measurable: threads died: {o['thread_exc']}"
        if o["deadlocks"]:
            return f"{tag}: not measurable: deadlock, blocked: {o['dead_where']}"
        if o["got"] != n:
            return f"{tag}: not measurable: the resumed run delivered {o['got']} chunks of {n}"
        if o["cap_bad"] and not case["lazy"]:
            return f"{tag}: (b) capacity exceeded: {o['cap_bad'][0]}"
        if o["gate_bad"]:
            return (f"{tag}: (c) a lazy sender advanced its source while no driving subscriber was waiting for a message "
                    f"that is not in the heap: {o['gate_bad'][0]}")
        if o["e_quiet"] is None:
            return f"{tag}: not measurable: the consumer never reached its pause after {case['k']} chunks"
        q = o["quiet"]
        if q["other"] or q["runnable"]:
            return f"{tag}: the pipeline did not come to rest: {q}"
        if B is not None and o["e_quiet"] - o["e_pause"] > B:
            return (f"{tag}: (a) {o['e_quiet'] - o['e_pause']} further source chunks after the pause > {B}, the bound "
                    f"proved for this wiring ({proved_by(case)})")
    if len(obs_list) == 2:
        (_, a), (_, b) = obs_list
        fa, fb = a["e_quiet"] - a["e_pause"], b["e_quiet"] - b["e_pause"]
        exhausted = a["e_quiet"] >= a["n"]          # the short run ended before the pipeline came to rest
        if fa != fb and not exhausted:
            return (f"(a) further source chunks after the pause depend on the run length: {fa} for n={a['n']}, {fb} for "
                    f"n={b['n']} (same schedule seeds)")
    return None


def run_pair(case):
    import contextlib
    import io
    with contextlib.redirect_stdout(io.StringIO()):
        o1 = run_pipeline(case, case["n"])
        o1["n"] = case["n"]
        o2 = run_pipeline(case, 2 * case["n"])
        o2["n"] = 2 * case["n"]
    return o1, o2


def run_single(case):
    import contextlib
    import io
    with contextlib.redirect_stdout(io.StringIO()):
        o = run_pipeline(case, case["n"])
    o["n"] = case["n"]
    return o


# ============================================================================= generators
SHAPES = ["chain0", "chain1", "chain2", "chain3", "diamond", "multi-side", "multi-both", "multi-direct", "multi-srcmo"]


def make_graph(shape, save, mm=None):
    if shape.startswith("chain"):
        return g_chain(int(shape[5:]), save=save, mm=mm)
    if shape == "diamond":
        return g_diamond(save)
    return g_multi(shape.split("-")[1], save)


def types_of(shape):
    g = make_graph(shape, "")
    return [o for n in needed_nodes(g) for o in n["outs"]]


def mk_case(shape, cap, lazy, k, pre, post, save="", mm=None, workers=0, n=None):
    case = dict(graph=make_graph(shape, save, mm), cap=cap, lazy=int(lazy), k=k, pre=pre, post=post, workers=workers)
    B = 2 * sum(wiring(case)[m]["cap"] for m in path_mailboxes(case)) + 1
    case["n"] = n if n is not None else k + B + 2
    return case


def random_case(rng, quick=True):
    shape = rng.choice(SHAPES)
    lazy = rng.random() < 0.45
    cap = rng.choice([1, 1, 2, 2, 3, 4] if quick else [1, 2, 3, 4])
    ts = types_of(shape)
    save = ",".join(t for t in ts if rng.random() < 0.35)
    mm = None
    if shape.startswith("chain") and rng.random() < 0.25:
        mm = {rng.choice(ts): rng.randint(1, 4)}
    k = rng.choice([1, 1, 2, 3, 4, 6])
    r = rng.random()
    if r < 0.4:
        pre = dict(kind="random", seed=rng.getrandbits(32), stick=rng.choice([0.0, 0.5, 0.8]))
    elif r < 0.55:
        pre = dict(kind="pct", seed=rng.getrandbits(32), depth=rng.randint(1, 4))
    else:
        pre = dict(kind=rng.choice(["up", "down", "lagsave"]))
    r = rng.random()
    if r < 0.4:
        post = dict(kind="random", seed=rng.getrandbits(32), stick=rng.choice([0.0, 0.5, 0.9]))
    else:
        post = dict(kind=rng.choice(["up", "up", "down", "lagsave"]))       # adversarial
    workers = 0
    if not lazy and rng.random() < 0.12:
        workers = 2
    return mk_case(shape, cap, lazy, k, pre, post, save, mm, workers)


def chain_model_cases(rng, count):
    """chains under the deterministic priority schedules: these are also run by the Lean chain model"""
    out = []
    for _ in range(count):
        L = rng.choice([0, 1, 1, 2, 2, 3])
        ts = types_of(f"chain{L}")
        save = ",".join(t for t in ts if rng.random() < 0.4)
        mm = {rng.choice(ts): rng.randint(1, 4)} if rng.random() < 0.3 else None
        pol = rng.choice(["up", "down", "lagsave"])
        post = rng.choice(["up", "down", "lagsave"]) if rng.random() < 0.5 else pol
        pool = L >= 1 and rng.random() < 0.25
        if pool:
            # worker pool (eager): every stage sends futures; tied through AwaitExecutor / Tid.resolve.  No savers: in the
            # model savers do not wait for the results of futures
            c = mk_case(f"chain{L}", rng.choice([1, 2, 2, 3]), False, rng.choice([1, 2, 3, 5]), dict(kind=pol), dict(kind=post),
                        "", mm, workers=2)
            c["await_pool"] = 1
        else:
            c = mk_case(f"chain{L}", rng.choice([1, 2, 2, 3, 4]), rng.random() < 0.4, rng.choice([1, 2, 3, 5]),
                        dict(kind=pol), dict(kind=post), save, mm)
        c["sync_start"] = 1
        out.append(c)
    return out


def every_k_cases():
    """small runs, the consumer paused after every k"""
    out = []
    for shape, cap, lazy, save in [("chain1", 1, 0, ""), ("chain1", 2, 0, "p1"), ("chain2", 1, 1, "p1"), ("diamond", 1, 0, ""),
                                   ("multi-side", 1, 0, ""), ("multi-side", 1, 1, "yy"), ("chain1", 2, 1, "src")]:
        base = mk_case(shape, cap, lazy, 1, dict(kind="up"), dict(kind="up"), save)
        n = base["n"] + 3
        for k in range(1, n + 1):
            for pol in ("up", "down"):
                out.append(mk_case(shape, cap, lazy, k, dict(kind=pol), dict(kind="up"), save, n=n))
    return out


# ============================================================================= mailbox-level gate probe (stand-alone)
def gate_cases(rng, count):
    from props import c05
    out = []
    # the witness of D6 (fixed in /repo by fb45a02): a driver and a lagging non-driving reader
    for drive in ("10", "01", "100", "110"):
        for nmsg in (3, 4):
            for seed in range(6):
                out.append(dict(c05.mk_case(rng.choice([None, 2, 3, 4]), 1, drive, [f"p{10 * (i + 1)}" for i in range(nmsg)]),
                                strat=dict(kind="pct", seed=1000 * seed + nmsg, depth=3, est=40)))
    while len(out) < count:
        c = c05.random_config(rng, "clean")
        if not c["lazy"]:
            continue
        c["strat"] = dict(kind="pct", seed=rng.getrandbits(32), depth=rng.randint(1, 4), est=40) if rng.random() < 0.5 \
            else dict(kind="random", seed=rng.getrandbits(32), stick=rng.choice([0, 0.5, 0.9]))
        out.append(c)
    return out


def run_gate(case):
    from props import c05
    line, info = c05.run_real(case, c05.make_strategy(case["strat"]))
    case["sched"] = info["trace"]
    bad = info["gate_bad"]
    return line, bad


# ============================================================================= the check
RULE_REST = ("non-trivial = the consumer was paused, the pipeline came to rest and was resumed to the end, for n and 2n source chunks; "
             "distinct = distinct (graph, capacity, mode, savers, pause point, schedules)")


def branch_rest(case, out):
    g = case["graph"]
    sv = "saved" if any("A" in n["save"] for n in g["nodes"]) else "nosave"
    return f"{g['shape']}/{'lazy' if case['lazy'] else ('pool' if case.get('workers') else 'eager')}/cap{case['cap']}/{sv}/{case['post']['kind']}"


def run(ctx):
    import logging
    import threading
    logging.disable(logging.CRITICAL)
    threading.excepthook = lambda args: None
    import time
    rng = ctx.rng
    quick = not ctx.thorough
    stats = {}
    t0 = time.time()
    scale = float(os.environ.get("VERIF_C13_SCALE", "1"))      # development only (mutant runs)
    pick = lambda q, t: max(20, int(ctx.pick(q, t) * scale))   # noqa: E731

    wiring_bad = []

    def note_stats(case, o):
        key = (case["graph"]["shape"], "lazy" if case["lazy"] else ("pool" if case.get("workers") else "eager"))
        st = stats.setdefault(key, dict(runs=0, max_excess=0, max_further=0, max_len_over=0, slack=None, proved=proved_by(case)))
        st["runs"] += 1
        st["max_excess"] = max(st["max_excess"], o["max_excess"])
        if o["e_quiet"] is not None:
            f = o["e_quiet"] - o["e_pause"]
            st["max_further"] = max(st["max_further"], f)
            if o["B"] is not None:
                st["slack"] = o["B"] - f if st["slack"] is None else min(st["slack"], o["B"] - f)
        st["max_len_over"] = max(st["max_len_over"], 1 if o["cap_bad"] else 0)
        wd = wiring_diff(case, o)
        if wd and len(wiring_bad) < 5:
            wiring_bad.append((case, wd))

    # 1. chains under deterministic priority schedules: real pipeline vs the Lean chain model (counts and wiring)
    cases = chain_model_cases(rng, pick(600, 4000))
    res = {}
    for i, c in enumerate(cases):
        c["i"] = i
        o = run_single(c)
        res[i] = o
        note_stats(c, o)

    def impl1(c):
        o = res[c["i"]]
        rest = int(o["quiet"] is not None and not o["quiet"]["other"] and not o["quiet"]["runnable"])
        hv = lambda h: ".".join(map(str, h or [])) or "-"  # noqa: E731
        return (f"ok wire={wire_line(c, o)} pause={o['e_pause']} quiet={o['e_quiet']} heaps={hv(o.get('heaps_pause'))}/"
                f"{hv(o.get('heaps_quiet'))} rest={rest} B={o['B']}")
    ctx.correspond("chain/model", cases, impl1, op_rest, lambda c, out: judge(c, [("n", res[c["i"]])]),
                   nontrivial=lambda c, out: res[c["i"]]["e_quiet"] is not None and res[c["i"]]["got"] == c["n"],
                   rule="chains under the priority schedules up/down/lag, run by the real processor and by the Lean chain model; "
                        "non-trivial = paused, at rest, resumed to the end",
                   branch=branch_rest)

    # 1b. every shape under fixed priorities: the real pipeline vs the DYNAMICS of c06's net model (`Net.step` on the net
    #     that `wire` builds from the components the real processor was given): n_sent of every mailbox at the pause and at rest
    ncases = net_cases(rng, pick(350, 2500))
    nres = {}
    for i, c in enumerate(ncases):
        c["i"] = i
        o = run_single(c)
        nres[i] = o
        note_stats(c, o)
        c["op"] = op_netrest(c, o.get("components"), c["n"], o.get("prio"))

    def impl_net(c):
        o = nres[c["i"]]
        v = lambda x: ".".join(map(str, x or [])) or "-"  # noqa: E731
        rest = int(o["quiet"] is not None and not o["quiet"]["other"] and not o["quiet"]["runnable"])
        return f"ok pause={v(o.get('nsent_pause'))} quiet={v(o.get('nsent_quiet'))} rest={rest}"
    ctx.correspond("graph/net-dynamics", ncases, impl_net, lambda c: c["op"], lambda c, out: judge(c, [("n", nres[c["i"]])]),
                   nontrivial=lambda c, out: nres[c["i"]]["e_quiet"] is not None and nres[c["i"]]["got"] == c["n"],
                   rule="chains, diamonds and multi-output graphs under the fixed-priority schedules up/down/lag: the real processor vs "
                        "`Net.step` of c06's net model under the same priorities (c13.netrest); compared: n_sent of every mailbox when "
                        "the consumer pauses and when everything else has come to rest",
                   branch=branch_rest)
    ctx.note(f"phase chain/model + graph/net-dynamics: {time.time() - t0:.1f}s")
    t0 = time.time()
    # 2. all shapes, random / PCT / adversarial schedules, runs of n and 2n chunks (oracle)
    cases = every_k_cases()
    cases += [random_case(rng, quick) for _ in range(pick(1000, 6500))]
    res2 = {}
    for i, c in enumerate(cases):
        c["i"] = i
        o1, o2 = run_pair(c)
        res2[i] = (o1, o2)
        note_stats(c, o1)
        note_stats(c, o2)
    ctx.check_oracle("pipeline/rest", cases, lambda c: summarise(c, *res2[c["i"]]),
                     lambda c, out: judge(c, [("n", res2[c["i"]][0]), ("2n", res2[c["i"]][1])]),
                     nontrivial=lambda c, out: all(o["e_quiet"] is not None and o["got"] == o["n"] for o in res2[c["i"]]),
                     rule=RULE_REST, branch=branch_rest)

    # 2b. the same graphs, wired by c06's `wire` from the components the REAL processor was given: the hypothesis of
    #     `dag_rest_bound` holds on the wired net and its bound is the one the oracle above used
    pcases = []
    seen = set()
    for c in cases:
        comp = res2[c["i"]][0].get("components")
        op = op_path(c, comp, c["n"])
        if op is None or op in seen:
            continue
        seen.add(op)
        pcases.append(dict(graph=c["graph"], cap=c["cap"], lazy=c["lazy"], workers=c.get("workers", 0), n=c["n"], op=op,
                           free=sorted(res2[c["i"]][0].get("free", []))))
    ctx.correspond("graph/path-model", pcases, path_line, lambda c: c["op"], None,
                   nontrivial=lambda c, out: True,
                   rule="every distinct (graph, capacities, mode, savers) of pipeline/rest: components of the real processor -> "
                        "c06's `wire` -> cheapest path; compared: pathOk holds, consumer is sole reader, pathBound, the path, the set of "
                        "mailboxes whose sender satisfies senderOk (hypothesis of dag_lazy_gate)",
                   branch=lambda c, out: f"{c['graph']['shape']}/{'lazy' if c['lazy'] else 'eager'}")
    ctx.note(f"phase pipeline/rest: {time.time() - t0:.1f}s")
    t0 = time.time()
    # 3. stand-alone mailbox: the gate condition at every fetch of a lazy mailbox (also diffed with the mailbox model)
    from props import c05
    gcases = gate_cases(rng, pick(2500, 25000))
    gres = {}
    for i, c in enumerate(gcases):
        c["i"] = i
        gres[i] = run_gate(c)

    def gate_oracle(c, out):
        bad = gres[c["i"]][1]
        if bad:
            return f"(c) source fetched while no driving subscriber waits for a message that is not in the heap: {bad[0]}"
        return None
    ctx.correspond("mailbox/gate", gcases, lambda c: gres[c["i"]][0], c05.op_line, gate_oracle,
                   nontrivial=lambda c, out: len(c["prog"]) >= 2 and len(c["drive"]) >= 2,
                   rule="lazy stand-alone mailbox, random and PCT schedules; the gate condition is evaluated at every fetch; "
                        "non-trivial = at least two messages and two subscribers",
                   branch=lambda c, out: f"drive={c['drive']}/cap={c['cap']}")

    ctx.note(f"phase mailbox/gate: {time.time() - t0:.1f}s")
    ctx.note("enforced bound on the further source chunks after the pause = the PROVED bound of the wiring: chains eager 2*sum(max_messages) "
             "(chain_rest_bound_paused), chains with a worker pool +1 (chain_rest_bound_pool_paused), lazy chains 1 "
             "(chain_rest_bound_lazy_paused), every other graph pathBound = 2*sum(max_messages) along the cheapest path "
             "(dag_rest_bound_paused, lazy and eager), other graphs with a worker pool: no theorem, nothing enforced")
    for (shape, mode), st in sorted(stats.items()):
        ctx.note(f"measured {shape}/{mode}: runs={st['runs']} max further chunks after the pause={st['max_further']} "
                 f"smallest (proved bound - measured)={st['slack']} [{st['proved']}] max(emitted-pulled) at any step={st['max_excess']} "
                 f"(reported, not enforced){' capacity exceeded in lazy mode (reported, not in the property)' if st['max_len_over'] and mode == 'lazy' else ''}")
    # the harness's own re-statement of the wiring rules vs the real processor: a disagreement is a broken correspondence, not a
    # violation of the property's wording
    for case, wd in wiring_bad:
        ctx.violation("pipeline/wiring", "correspondence", {"case": case, "op": None}, {"impl": wd, "model": "wiring(case)"},
                      "the wiring rules re-stated in checks/props/c13.py (capacities, which readers drive) agree with the real processor", False)


def search(ctx):
    """an obligation broke: oracle-only hunt on the real pipeline"""
    rng = ctx.rng
    cases = [random_case(rng, True) for _ in range(400)]
    res2 = {}
    for i, c in enumerate(cases):
        c["i"] = i
        res2[i] = run_pair(c)
    ctx.check_oracle("search/pipeline", cases, lambda c: summarise(c, *res2[c["i"]]),
                     lambda c, out: judge(c, [("n", res2[c["i"]][0]), ("2n", res2[c["i"]][1])]))


def replay(ctx, body):
    import logging
    import threading
    logging.disable(logging.CRITICAL)
    threading.excepthook = lambda args: None
    if body.get("case") is None:
        return f"obligation {body['component']} has no input to replay (no-failing-input-found); re-run the check"
    case = dict(body["case"]["case"])
    comp = body["component"]
    if comp.startswith("mailbox/gate"):
        line, bad = run_gate(case)
        print("implementation output:", line)
        return f"gate condition violated: {bad[0]}" if bad else None
    if comp.startswith("chain/model"):
        o = run_single(case)
        print("observed:", {k: o[k] for k in ("e_pause", "e_quiet", "max_excess", "max_len", "B", "got", "quiet")})
        return judge(case, [("n", o)])
    o1, o2 = run_pair(case)
    print("implementation output:", summarise(case, o1, o2))
    return judge(case, [("n", o1), ("2n", o2)])
