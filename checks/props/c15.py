"""C15 — loading many runs in parallel equals loading them one by one.

Model: lean/StraxModel/Model/MultiRun.lean; theorems: Props/C15.lean.
Tie (i)   strax.multi_run with stub exec_functions whose completion order is scripted (one future
          completes per `wait`) vs the Lean `multiRunFull`; plus free-running stubs (oracle only).
Tie (ii)  checks/lib/interleave.py: real threads running Context.get_array on ONE context under a
          line-level baton; (a) every access of the shared plugin registry / plugin cache is logged and
          the log is replayed through the Lean dict model (`c15.replay`), which must predict the
          result of every access (including the first exception); (b) the same log is read as thread
          programs over the model's `Instr` alphabet and executed by the Lean transition system under
          the real interleaving (`c15.sched`, and `c15.blocks` for workers run one after the other):
          same failing threads, same error kinds, same final registry; (c) program-shape: workerProg's
          order of instruction classes occurs in every finished worker.
Tie (iii) validation on the real thing: get_array / get_df / make for lists of runs, 1..8 workers,
          single / multiple same-kind targets, cold / warm plugin cache, with / without storage,
          1 microsecond interpreter switch interval: oracle, run by run = rows of the sequential
          single-run call with the run id attached, runs grouped in run-id order; a failing run raises
          ITS exception or (ignore_errors) is omitted; no other exception.
Every failure is filed as a violation of its own; the open findings D8 / D8b are matched per violation
by component-pinned, whole-message regexes in known_findings.json.
"""
from __future__ import annotations

import os
import sys

# The line-level schedules of tie (ii) are replayable only if the code under test takes the same path in
# every process; strax iterates over `set`s of data-type names (`_get_plugins`), whose order depends on the
# string hash seed.  Pin it (re-executing the interpreter once, before anything heavy is imported).
if os.environ.get("PYTHONHASHSEED") is None and os.environ.get("C15_NO_REEXEC") is None and sys.argv and sys.argv[0].endswith("check.py"):
    os.environ["PYTHONHASHSEED"] = "0"
    os.execv(sys.executable, [sys.executable] + sys.argv)

import itertools
import threading
from concurrent.futures import ThreadPoolExecutor as _RealTPE
from concurrent.futures import wait as _real_wait
from contextlib import contextmanager

import numpy as np

from lib import straxlib as sl
from lib.straxlib import strax

ID = "C15"
LEAN_MODULES = ["StraxModel.Props.C15"]
TRUSTED = [
    "scripted-completion harness for multi_run (rebinding strax.utils.wait / ThreadPoolExecutor; stub exec_functions blocked on events)",
    "line-level interleaver checks/lib/interleave.py (sys.settrace line events + baton) and the instrumented registry dict / inner cache dicts / cache attribute that log shared-state accesses",
    "the projection of an access log onto the model's Instr alphabet (project_program: which access is which micro-step; cache reads classified test/use by their source line; look-ups inside _make_progress_bar's try/except marked as non-failing)",
    "modelled not verified: concurrent.futures executor (FIFO work queue, `workers` tasks at a time), CPython dict semantics (insertion order, size check of iterators), GIL switching between byte codes (atomicity is assumed per source line)",
]
ASSUMPTIONS = [
    "multiRun (and every theorem of part 1) models the outcome of loading one run as a PURE FUNCTION of its run id (`results : run -> Except Err rows`): "
    "a worker's result does not depend on what the other workers do.  On a shared context this is exactly what the open findings D8 (several same-kind "
    "targets) and D8b (cold plugin cache) refute; outside those two shapes the real/multi-run and registry/* components find it to hold, they do not prove it",
    "run ids are compared through their rank in sorted order; numpy's unicode sort and Python's str sort agree on the ASCII ids used",
    "scripted completion handles exactly one finished future per wait(); several futures finishing together are covered by the free-running stubs and by the real get_array runs (oracle only)",
    "registry model: threads are atomic per source line of context.py (finer GIL switches only add behaviours of the same kinds); an iterator step over a dict that got a new key "
    "and has its old size again is left unspecified, and runs containing such a step are not compared with the program layer",
    "registry_safe_if_serialized* are conditional theorems about a repair (a lock around register / resolve / clean-up) that is NOT applied to /repo; they are not evidence for the current code.  What is tied to the current code: "
    "the dict/attribute semantics (c15.replay), the program layer stepThread / Sys.run / Sys.runBlocks (c15.sched, c15.blocks on programs read off real runs), workerProg's order of "
    "instruction classes, and the hypothesis of readonly_workers_safe_partial for single-target workers on a warm cache",
]

ERR_KINDS = {"ValueError": ValueError, "RuntimeError": RuntimeError, "KeyError": KeyError, "TypeError": TypeError,
             "DataNotAvailable": strax.DataNotAvailable, "OSError": OSError}
STUB_DT = np.dtype([("x", np.int64)])


class HarnessTimeout(Exception):
    pass


# ----------------------------------------------------------------------------- (i) scripted multi_run
class Script:
    """Lets exactly one running stub invocation finish each time multi_run is about to wait()."""

    def __init__(self, sorted_runs, order, workers, results, scripted=True, delays=None):
        self.sorted_runs = list(sorted_runs)
        self.order = list(order)
        self.workers = workers
        self.results = results
        self.scripted = scripted
        self.delays = delays or {}   # free-running mode: seconds each run's stub sleeps before finishing
        self.cv = threading.Condition()
        self.inv = []           # invocations: dict(run, fut, ev, released)
        self.assigned = set()   # future ids already matched to an invocation
        self.free = False       # release everything (multi_run is unwinding / done)
        self.timeout = False
        self.invoked = []

    # -- stub exec_function
    def exec_function(self, run_id, **kwargs):
        run_id = str(run_id)
        with self.cv:
            fut = next((k for k, r in enumerate(self.sorted_runs) if r == run_id and k not in self.assigned), None)
            self.assigned.add(fut)
            me = dict(run=run_id, fut=fut, ev=threading.Event(), released=False)
            self.inv.append(me)
            self.invoked.append(run_id)
            if self.free or not self.scripted:
                me["released"] = True
                me["ev"].set()
            self.cv.notify_all()
        if not self.scripted:
            # free-running: tiny delay so that completion order and batching vary
            d = self.delays.get(run_id, 0)
            if d:
                threading.Event().wait(d)
        if not me["ev"].wait(30):
            self.timeout = True
        kind, val = self.results.get(run_id, ("ok", []))
        if kind == "err":
            raise ERR_KINDS[val](f"stub failure of run {run_id}")
        a = np.zeros(len(val), dtype=STUB_DT)
        a["x"] = val
        return a

    def running(self):
        return [i for i in self.inv if not i["released"]]

    def release_next(self, n_unfinished):
        if not self.scripted:
            return
        expect = min(self.workers, n_unfinished)
        with self.cv:
            ok = self.cv.wait_for(lambda: len(self.running()) >= expect, timeout=30)
            if not ok:
                self.timeout = True
                self.release_all_locked()
                return
            run = self.running()
            if not run:
                return
            by_fut = {i["fut"]: i for i in run}
            pick = next((by_fut[k] for k in self.order if k in by_fut), None)
            if pick is None:
                pick = min(run, key=lambda i: i["fut"])
            pick["released"] = True
            pick["ev"].set()

    def release_all_locked(self):
        self.free = True
        for i in self.inv:
            i["released"] = True
            i["ev"].set()

    def release_all(self):
        with self.cv:
            self.release_all_locked()


@contextmanager
def scripted_executor(script):
    """Rebind the executor names used by strax.utils.multi_run."""
    import strax.utils as su

    def hooked_wait(fs, *a, **kw):
        script.release_next(len(fs))
        return _real_wait(fs, *a, **kw)

    class HookedTPE(_RealTPE):
        def __exit__(self, *exc):
            script.release_all()
            return super().__exit__(*exc)

    old = su.wait, su.ThreadPoolExecutor
    su.wait, su.ThreadPoolExecutor = hooked_wait, HookedTPE
    try:
        yield
    finally:
        su.wait, su.ThreadPoolExecutor = old
        script.release_all()


def rank_table(runs):
    return {r: i for i, r in enumerate(sorted(set(runs)))}


def show_result_list(res, rank):
    if res is None:
        return "none"
    toks = []
    for a in res:
        if len(a) == 0:
            toks.append("_:-")
            continue
        if "run_id" not in a.dtype.names:
            rid = "norunid"
        else:
            ids = []
            for v in a["run_id"]:
                v = v.decode() if isinstance(v, bytes) else str(v)
                if v not in ids:
                    ids.append(v)
            rid = "|".join(str(rank.get(v, "?" + v)) for v in ids)
        toks.append(f"{rid}:" + "+".join(str(int(x)) for x in a["x"]))
    return ",".join(toks) if toks else "-"


def impl_multi_run(case):
    runs = case["runs"]
    rank = rank_table(runs)
    results = {r: tuple(v) for r, v in case["results"].items()}
    script = Script(sorted(runs), case["order"], case["workers"], results, scripted=case.get("scripted", True),
                    delays=case.get("delays", {}))
    out = None
    with scripted_executor(script):
        try:
            extra = {} if case.get("addid", 1) else {"add_run_id_field": False}
            res = strax.multi_run(script.exec_function, list(runs), max_workers=case["workers"],
                                  ignore_errors=bool(case["ignore"]), throw_away_result=bool(case["throw"]),
                                  multi_run_progress_bar=False, log=QUIET_LOG, **extra)
            out = "ok " + show_result_list(res, rank)
        except Exception as e:  # noqa: BLE001
            out = "err " + sl.err_name(e)
    if script.timeout:
        raise HarnessTimeout(f"scripted executor timed out on {case!r}")
    sub = sorted(rank[r] for r in script.invoked)
    return f"{out} sub={sl.show_ints(sub)}"


def show_results_op(case, rank):
    toks = []
    for r, (kind, val) in sorted(case["results"].items()):
        if r in rank:
            toks.append(f"{rank[r]}/" + (val if kind == "err" else "+".join(map(str, val))))
    return ",".join(toks) if toks else "-"


def _wait_driver(seconds=240):
    """other builders relink the shared driver now and then: wait for the binary instead of crashing"""
    import time
    from lib.engine import DRIVER
    t = time.time()
    while not DRIVER.exists() and time.time() - t < seconds:
        time.sleep(2)


def op_multi_run(case):
    _wait_driver()
    rank = rank_table(case["runs"])
    runs = sl.show_ints([rank[r] for r in case["runs"]])
    return (f"c15.mr {runs} {sl.show_ints(case['order'])} {show_results_op(case, rank)} "
            f"{int(case['ignore'])} {int(case['throw'])} {case['workers']}")


def strip_ids(body):
    """`ok 0:1+2,_:-,2:7` -> `ok norunid:1+2,_:-,norunid:7` (what a result without the run_id column shows)"""
    if not body.startswith("ok ") or body in ("ok none", "ok -"):
        return body
    toks = [t if t.startswith("_:") else "norunid:" + t.split(":", 1)[1] for t in body[3:].split(",")]
    return "ok " + ",".join(toks)


def model_post_noid(line):
    body, sep, sub = line.rpartition(" sub=")
    return strip_ids(body) + sep + sub if sep else line


def expected_sequential(case):
    """per-run results in sorted run-id order, failing runs left out (the property's own wording)"""
    rank = rank_table(case["runs"])
    toks = []
    for r in sorted(case["runs"]):
        kind, val = case["results"].get(r, ("ok", []))
        if kind == "ok":
            toks.append(f"{rank[r]}:" + "+".join(map(str, val)) if val else "_:-")
    return ",".join(toks) if toks else "-"


def oracle_multi_run(case, out):
    runs = case["runs"]
    rank = rank_table(runs)
    body, sub = out.rsplit(" sub=", 1)
    sub = [] if sub == "-" else [int(x) for x in sub.split(",")]
    all_sub = sorted(rank[r] for r in runs)
    failing = {r: v[1] for r, v in case["results"].items() if v[0] == "err" and r in rank}
    if case["workers"] < 1:
        return None if body == "err ValueError" else f"max_workers={case['workers']} did not raise ValueError: {body}"
    if failing and not case["ignore"]:
        if not body.startswith("err "):
            return f"a run fails and errors are not ignored, but no exception was raised: {body}"
        if body[4:] not in set(failing.values()):
            return f"raised {body[4:]} which is not the failure of any run ({sorted(set(failing.values()))})"
        if not set(sub) <= set(all_sub):
            return "executed runs that were not asked for"
        return None
    if body.startswith("err "):
        return f"raised {body} although " + ("errors are ignored" if failing else "no run fails")
    if sub != all_sub:
        return f"not every run was executed exactly once: executed {sub}, asked {all_sub}"
    if case["throw"]:
        return None if body == "ok none" else f"throw_away_result returned {body}"
    exp = "ok " + expected_sequential(case)
    if not case.get("addid", 1):
        exp = strip_ids(exp)
    if body != exp:
        return f"result differs from the per-run results in run-id order: got `{body}`, sequential gives `{exp}`"
    return None


def mr_case(runs, order, results, ignore, throw, workers, **kw):
    return dict(runs=list(runs), order=list(order), results={r: list(v) for r, v in results.items()},
                ignore=int(ignore), throw=int(throw), workers=workers, **kw)


def run_ids_pool(rng, n, dup=False):
    pool = ["0", "1", "2", "10", "9", "007", "a", "b1", "B", "20", "100", "3", "5x"]
    if dup:
        return [rng.choice(pool[:max(2, n - 1)]) for _ in range(n)]
    return rng.sample(pool, n)


def gen_multi_run_exhaustive(ctx):
    """every completion order for <= 4 runs x workers 1..4 x failure patterns.
    quick: 4 runs get the all-ok / empty-result patterns and a single failing run (first or last id);
    thorough: every single failing run and every failing pair for every size."""
    cases = []
    max_n = int(os.environ.get("C15_MAX_N", "4"))      # development aid
    names = ["3", "10", "2", "1"]          # unsorted input, lexicographic trap ("10" < "2")
    for n in range(0, max_n + 1):
        runs = names[:n]
        srt = sorted(runs)
        rows = {r: ("ok", [10 * i + 1, 10 * i + 2][: 1 + i % 2]) for i, r in enumerate(runs)}
        patterns = [dict(rows)]
        full = ctx.thorough or n <= 3
        for r in (srt if full else [srt[0], srt[-1]]):        # one failing run
            patterns.append(dict(rows, **{r: ("err", "KeyError")}))
        pairs = list(itertools.combinations(srt, 2))
        if not ctx.thorough:                 # quick: neighbouring runs only, and only up to 3 runs
            pairs = [pr for pr in pairs if srt.index(pr[1]) - srt.index(pr[0]) == 1 and n <= 3]
        for a, b in pairs:                   # two failing runs, different kinds
            patterns.append(dict(rows, **{a: ("err", "ValueError"), b: ("err", "RuntimeError")}))
        if n:
            patterns.append(dict(rows, **{srt[0]: ("ok", [])}))   # an empty result
        for order in itertools.permutations(range(n)):
            for w in range(1, 5):
                for pi, pat in enumerate(patterns):
                    fails = any(v[0] == "err" for v in pat.values())
                    for ignore in ((0, 1) if fails else (0,)):
                        for throw in ((0, 1) if ((pi < 1 and n <= 3) or ctx.thorough) else (0,)):
                            cases.append(mr_case(runs, order, pat, ignore, throw, w))
    cases.append(mr_case(["1", "2"], [], {}, 0, 0, 0))
    cases.append(mr_case(["2", "1", "3"], [2, 0, 1], {"1": ("err", "OSError")}, 1, 1, 2))
    return cases


def gen_multi_run_random(ctx, n_cases, scripted=True):
    rng = ctx.rng
    cases = []
    for _ in range(n_cases):
        n = rng.randint(2, 10) if rng.random() < 0.9 else rng.randint(0, 1)
        runs = run_ids_pool(rng, n, dup=rng.random() < 0.15)
        w = rng.randint(1, 8)
        order = list(range(n))
        rng.shuffle(order)
        if rng.random() < 0.3:
            order = order[: rng.randint(0, n)]     # partial priority list
        results = {}
        nfail = rng.choice([0, 0, 1, 1, 2, 3])
        for i, r in enumerate(sorted(set(runs))):
            results[r] = ("ok", [100 * i + j for j in range(rng.randint(0, 3))])
        for r in rng.sample(sorted(set(runs)), min(nfail, len(set(runs)))):
            results[r] = ("err", rng.choice(sorted(ERR_KINDS)))
        c = mr_case(runs, order, results, rng.random() < 0.5, rng.random() < 0.2, w, scripted=scripted)
        if not scripted:
            c["delays"] = {r: rng.choice([0, 0, 0.001, 0.002, 0.004]) for r in set(runs)}
        cases.append(c)
    return cases


def branch_multi_run(case, out):
    b = out.split(" ")[0] + (":" + out.split(" ")[1] if out.startswith("err") else "")
    return f"n={min(len(case['runs']), 5)}{'+' if len(case['runs']) > 5 else ''} w={min(case['workers'], 4)} {b}"


def nontrivial_multi_run(case, out):
    return len(case["runs"]) >= 2


# ----------------------------------------------------------------------------- real contexts
import hashlib  # noqa: E402
import logging  # noqa: E402
import shutil  # noqa: E402
import sys  # noqa: E402
import tempfile  # noqa: E402

from lib import interleave as ilv  # noqa: E402


def _h(run_id):
    return int(hashlib.sha1(str(run_id).encode()).hexdigest()[:6], 16)


@strax.takes_config(
    strax.Option("c15_fail_runs", default=(), track=False),
    strax.Option("c15_n_chunks", default=2, track=False),
)
class C15Src(strax.Plugin):
    """source whose rows depend on the run id"""
    provides = "c15src"
    depends_on: tuple = tuple()
    data_kind = "c15src"
    dtype = strax.time_fields + [(("payload", "x"), np.int64)]
    rechunk_on_save = False
    __version__ = "1"

    def source_finished(self):
        return True

    def is_ready(self, chunk_i):
        return chunk_i < self.config["c15_n_chunks"]

    def compute(self, chunk_i):
        if str(self.run_id) in self.config["c15_fail_runs"]:
            raise OSError(f"c15: run {self.run_id} cannot be read")
        h = _h(self.run_id)
        n = 1 + (h + chunk_i) % 3
        r = np.zeros(n, self.dtype)
        t0 = 100 * chunk_i
        r["time"] = t0 + 10 * np.arange(n)
        r["endtime"] = r["time"] + 5
        r["x"] = (h % 1000) * 100 + 10 * chunk_i + np.arange(n)
        return self.chunk(start=t0, end=t0 + 100, data=r)


class C15A(strax.Plugin):
    provides = "c15a"
    depends_on = ("c15src",)
    data_kind = "c15src"
    dtype = strax.time_fields + [(("doubled payload", "a"), np.int64)]
    __version__ = "1"

    def compute(self, c15src):
        r = np.zeros(len(c15src), self.dtype)
        r["time"], r["endtime"] = c15src["time"], c15src["endtime"]
        r["a"] = 2 * c15src["x"]
        return r


class C15B(strax.Plugin):
    provides = "c15b"
    depends_on = ("c15src",)
    data_kind = "c15src"
    dtype = strax.time_fields + [(("payload plus one", "b"), np.int64)]
    __version__ = "1"

    def compute(self, c15src):
        r = np.zeros(len(c15src), self.dtype)
        r["time"], r["endtime"] = c15src["time"], c15src["endtime"]
        r["b"] = c15src["x"] + 1
        return r


def _never(cls):
    return type(cls.__name__ + "NoSave", (cls,), dict(save_when=strax.SaveWhen.NEVER))


class TracedContext(strax.Context):
    """Context whose `_fixed_plugin_cache` attribute logs reads and writes (registry model tie)"""
    _c15_log = None


QUIET_LOG = logging.getLogger("c15.quiet")
QUIET_LOG.setLevel(logging.CRITICAL + 1)
QUIET_LOG.propagate = False


def make_context(storage_dir=None, fail_runs=(), traced=False, save=True):
    plugins = [C15Src, C15A, C15B] if save and storage_dir else [_never(C15Src), _never(C15A), _never(C15B)]
    cls = TracedContext if traced else strax.Context
    st = cls(storage=[strax.DataDirectory(storage_dir)] if storage_dir else [],
             register=plugins, config=dict(c15_fail_runs=tuple(fail_runs)))
    st.log = QUIET_LOG
    return st


def in_context_py(frame):
    return frame.f_code.co_filename.endswith("strax/context.py")


# ----------------------------------------------------------------------------- (ii) registry model vs real threads
import os  # noqa: E402
import re  # noqa: E402
import random  # noqa: E402


@contextmanager
def quiet_stdout():
    """strax prints 'Source finished!' from worker code; keep the check's stdout for the report lines"""
    old = sys.stdout
    sys.stdout = open(os.devnull, "w")
    null = logging.NullHandler()
    logging.getLogger().addHandler(null)      # otherwise logging.lastResort prints strax' warnings to stderr
    try:
        yield
    finally:
        logging.getLogger().removeHandler(null)
        sys.stdout.close()
        sys.stdout = old


def _wrap_cache(st, log, v):
    if v is None:
        return None
    return {h: (inner if isinstance(inner, ilv.TracedRegistry) else ilv.TracedRegistry(inner, log.new_dict()))
            for h, inner in v.items()}


def _traced_cache_setter(self, v):
    log = self._c15_log
    if log is not None:
        v = _wrap_cache(self, log, v)
        log.add(0, "W1" if v is not None else "W0", "u")
    self.__dict__["_c15_fpc"] = v


def _traced_cache_getter(self):
    v = self.__dict__.get("_c15_fpc")
    if self._c15_log is not None:
        import linecache
        f = sys._getframe(1)
        line = linecache.getline(f.f_code.co_filename, f.f_lineno)
        # `... is None` only tests the attribute; every other read subscripts it / tests membership (TypeError on None)
        kind = "test" if re.search(r"_fixed_plugin_cache\s+is\s+(not\s+)?None", line) else "use"
        self._c15_log.add(0, "R", "b1" if v is not None else "b0", kind)
    return v


TracedContext._fixed_plugin_cache = property(_traced_cache_getter, _traced_cache_setter)


def install_tracing(st, il_ref):
    log = ilv.AccessLog(il_ref)
    st._plugin_class_registry = ilv.TracedRegistry(st._plugin_class_registry, log.new_dict())
    st.__dict__["_c15_fpc"] = _wrap_cache(st, log, st.__dict__.get("_c15_fpc"))
    st._c15_log = log
    log.n_initial_dicts = len(log.dicts)
    return log


TARGETS = {"single": "c15a", "multi": ("c15a", "c15b")}
_EXPECTED = {}


def canon_rows(a):
    """canonical text of a result array (all fields, row by row)"""
    if a is None:
        return "none"
    names = [n for n in a.dtype.names]
    return ";".join(",".join(str(x.decode() if isinstance(x, bytes) else x) for x in (row[n] for n in names)) for row in a) or "-"


def expected_single(run, tkey, fail_runs=()):
    """what a sequential single-run call on a fresh context returns (or the kind it raises)"""
    k = (run, tkey, str(run) in fail_runs)
    if k not in _EXPECTED:
        st = make_context(None, fail_runs=fail_runs)
        try:
            _EXPECTED[k] = ("ok", st.get_array(run, TARGETS[tkey], progress_bar=False))
        except Exception as e:  # noqa: BLE001
            _EXPECTED[k] = ("err", sl.err_name(e))
    return _EXPECTED[k]


def where_in_context(e):
    """innermost function of strax/context.py on the traceback of e"""
    fn = "?"
    tb = e.__traceback__
    while tb is not None:
        if tb.tb_frame.f_code.co_filename.endswith("strax/context.py"):
            fn = tb.tb_frame.f_code.co_name
        tb = tb.tb_next
    return fn


def describe_exc(e):
    return f"{type(e).__name__}: {str(e)[:90]} at={where_in_context(e)}"


def make_strategy(spec):
    kind = spec["kind"]
    if kind == "random":
        return ilv.RandomStrategy(random.Random(spec["seed"]), spec["p"])
    if kind == "replay":
        return ilv.ReplayStrategy(spec["schedule"])
    if kind == "preempt":
        return ilv.PreemptStrategy([tuple(x) for x in spec["switches"]], first=spec.get("first", 0))
    raise ValueError(kind)


_SIDE = {}
_TALLY = {"stuck": 0, "uncontrolled": 0}


def run_interleaved(case):
    """N real threads, each `st.get_array(run_i, targets)` on ONE context, under the line-level baton"""
    tkey, warm, nth = case["targets"], case["warm"], case["threads"]
    tmp = tempfile.mkdtemp(prefix="c15il_") if case.get("storage") else None
    try:
        st = make_context(tmp, traced=True)
        if warm:
            st.get_array("warm", TARGETS[tkey], progress_bar=False)
        holder = {}
        log = install_tracing(st, lambda: holder.get("il"))
        cache0 = st.__dict__.get("_c15_fpc") is not None
        il = ilv.Interleaver(make_strategy(case["strategy"]), in_context_py)
        holder["il"] = il
        fns = [lambda r=str(i): st.get_array(r, TARGETS[tkey], progress_bar=False) for i in range(nth)]
        res = il.run(fns)
        log.enabled = False
        cache1 = st.__dict__.get("_c15_fpc") is not None
    finally:
        if tmp:
            shutil.rmtree(tmp, ignore_errors=True)
    return dict(il=il, log=log, res=res, cache0=cache0, cache1=cache1)


def trace_lines(info):
    """(impl canonical line, op line) from the access log of one interleaved run"""
    log = info["log"]
    c0 = int(info["cache0"])
    outs, toks = [], []
    for d in log.dicts:
        ents = [e for e in log.entries if e[1] == d.id]
        acts = ",".join(e[2] for e in ents) or "-"
        ress = ",".join(e[3] for e in ents) or "-"
        keys = "+".join(d.key(k) for k in d.traced.plain_keys()) or "-"
        # the cache flag is carried by dict 0 only; the other dicts keep the initial value
        cflag = int(info["cache1"]) if d.id == 0 else c0
        # R / W tokens only occur in dict 0; replay of dict 0 tracks them
        outs.append(f"{ress} reg={keys} cache={cflag}")
        toks.append(f"{d.n_initial}:{acts}")
    return "ok " + " | ".join(outs), f"c15.replay {c0} " + " ".join(toks)


FAIL_TOKENS = {"RuntimeError": ("eRuntimeError", "?"), "KeyError": ("eKeyError",), "TypeError": ("b0",)}


def explained(info, i, e):
    """is the exception of thread i the direct consequence of its last logged access?  (For the
    TypeError on a `None` cache the attribute read may be followed by the accesses of a
    `_context_hash()` call evaluated inside the subscript, and by look-ups in the inner dict.)"""
    mine = [x for x in info["log"].entries if x[0] == i]
    kind = type(e).__name__
    if kind == "TypeError":
        while mine and mine[-1][2][0] in "IN":
            mine.pop()
    if kind == "KeyError" and mine and mine[-1][2][0] == "C" and mine[-1][3] == "b0":
        return True      # `if name not in registry: raise KeyError(...)`
    if kind == "KeyError" and mine and mine[-1][3] != "eKeyError":
        # key_for: `plugins[target]` on the plain outer/inner dict after the cache was rebuilt by another thread
        return where_in_context(e) == "key_for" and any(x[2] == "W0" for x in info["log"].entries)
    if not mine:
        return False
    return mine[-1][3] in FAIL_TOKENS.get(kind, ())


def impl_interleaved(case):
    info = run_interleaved(case)
    line, op = trace_lines(info)
    _SIDE[id(case)] = dict(info=info, op=op)
    il = info["il"]
    case["schedule_len"] = len(il.schedule)
    if il.stuck:
        case["stuck"] = True
        _TALLY["stuck"] += 1
    if il.uncontrolled:
        _TALLY["uncontrolled"] += 1
    return line


def op_interleaved(case):
    _wait_driver()
    return _SIDE[id(case)]["op"]


def case_tag(case, workers=None):
    w = workers if workers is not None else case["threads"]
    return f"[multi_target={int(case['targets'] == 'multi')} workers={w} cache={'warm' if case['warm'] else 'cold'} storage={int(bool(case.get('storage')))}]"


def failures_interleaved(case):
    """one message per failure of one interleaved run (never joined: each is matched on its own)"""
    side = _SIDE.get(id(case))
    if side is None:
        return []
    info = side["info"]
    msgs = []
    for i, r in enumerate(info["res"]):
        exp = expected_single(str(i), case["targets"])
        if r is None:
            msgs.append(f"thread {i} did not finish {case_tag(case)}")
        elif r[0] == "err":
            e = r[1]
            msgs.append(f"crash: thread {i} raised {describe_exc(e)} explained={int(explained(info, i, e))} {case_tag(case)}")
        elif exp[0] != "ok" or canon_rows(r[1]) != canon_rows(exp[1]):
            msgs.append(f"wrong-result: thread {i} returned rows that differ from the sequential single-run call {case_tag(case)}")
    if msgs:
        # keep the executed schedule so that the case can be replayed exactly
        case["strategy"] = dict(kind="replay", schedule=list(info["il"].schedule), was=case["strategy"].get("was", case["strategy"]))
    return msgs


def oracle_interleaved(case, out):
    """replay entry point: all failures of the run (the check itself files them one by one)"""
    return " ;; ".join(failures_interleaved(case)) or None


def one_per_failure(ctx, comp, failures):
    """oracle for ctx.correspond that reports every failure of a case as a violation of its own: the first through
    the engine's normal path (return value), the others directly — so that a listed finding (matched per
    violation, anchored on the whole message) can never cover a different failure of the same run."""
    def oracle(case, out):
        msgs = failures(case, out)
        for m in msgs[1:]:
            ctx.comp(comp).oracle_failures += 1
            ctx.violation(comp, "oracle", {"case": case, "op": None}, {"impl": out[:300], "also": "further failure of the same run"}, m, True)
        return msgs[0] if msgs else None
    return oracle


def tally_known(ctx, comp):
    n = {}
    for v in ctx.violations:
        if v.component == comp and v.known:
            n[v.known] = n.get(v.known, 0) + 1
    return n


# ----------------------------------------------------------------------------- (ii-b) program layer vs get_iter
class Incomparable(Exception):
    pass


def project_program(info):
    """Read the program-level events of every thread off the access log of a real interleaved run:
    per thread the sequence of `Instr` tokens it performed (attempted), and the global schedule = one thread index
    per model micro-step, in the order in which the corresponding real accesses happened.

      registry:  L t<k> / W0 / S t<k>      -> R<k>  (registerTemp: look-up, [cache reset], assignment)
                 I (items|values), N ...   -> H     (contextHash: iterator creation, one step per `next`)
                 C t<k>, then G t<k>       -> X<k>  (resolve: membership test, subscript)
                 bare G t<k>               -> G<k>  (lookupTemp)   / g<k> inside _make_progress_bar's try/except
                 I (keys), D t<k> ...      -> D     (deleteAllTemp: snapshot, one step per del, one closing step)
      attribute: R (is None test)          -> T ;  R (subscript / membership) -> U ;  W1 -> N (cacheInit)
      inner dict d: I, N ...               -> I<d> ;  S key -> S<d>_key ;  G key -> Q<d>_key
    Accesses of ordinary data-type keys of the registry and membership tests on inner dicts neither change the
    shared state nor can fail: they are left out."""
    log, n = info["log"], len(info["res"])
    progs = [[] for _ in range(n)]
    sched = []
    T = [dict(await_get=None, cleanup=None, finish=False, use=False, cur=None) for _ in range(n)]

    def flush_use(w):
        if T[w]["use"]:
            progs[w].append("U")
            sched.append(w)
            T[w]["use"] = False

    entries = log.entries
    for pos_, (w, d, act, res, _step, extra) in enumerate(entries):
        if not (0 <= w < n):
            raise Incomparable("access by an uncontrolled thread")
        t = T[w]
        a0 = act[0]
        is_cleanup_step = d == 0 and ((a0 == "N" and act[1:] == t["cleanup"]) or (a0 == "D" and act[1:2] == "t"))
        if t["finish"] and not is_cleanup_step:
            sched.append(w)                    # `deleting [] -> idle`: nothing left to delete
            t["finish"], t["cleanup"] = False, None
        if d == 0:
            last, t["last"] = t.get("last", ""), act
            if a0 == "L" and act[1] == "t":
                if last.startswith("St"):
                    continue    # register(): `currently_registered = registry.get(d)` for the class it just replaced
                progs[w].append("R" + act[2:])
                sched.append(w)
            elif act == "W0" or (a0 == "S" and act[1] == "t"):
                sched.append(w)
            elif a0 == "I":
                if extra == "keys":
                    progs[w].append("D")
                    sched.append(w)
                    t["cleanup"], t["finish"] = act[1:], True
                else:
                    if t["cur"] is not None:
                        raise Incomparable("nested iteration")
                    progs[w].append("H")
                    sched.append(w)
                    t["cur"] = act[1:]
            elif a0 == "N":
                if act[1:] == t["cleanup"]:
                    continue
                if res == "?":
                    raise Incomparable("iterator step left unspecified by the dict model")
                sched.append(w)
                if res in ("s", "eRuntimeError"):
                    t["cur"] = None
                if res == "s":
                    flush_use(w)
            elif a0 == "D" and act[1] == "t":
                sched.append(w)
                if res.startswith("e"):
                    t["finish"] = False
            elif a0 == "C" and act[1] == "t":
                if extra == "guarded":      # __get_plugin reached from _make_progress_bar: its KeyError is swallowed there
                    progs[w].append("g" + act[2:])
                    sched.append(w)
                    continue
                progs[w].append("X" + act[2:])
                sched.append(w)
                t["await_get"] = act[2:] if res == "b1" else None
            elif a0 == "G" and act[1] == "t":
                if t["await_get"] == act[2:]:
                    t["await_get"] = None
                else:
                    progs[w].append(("g" if extra == "guarded" else "G") + act[2:])
                sched.append(w)
            elif act == "R":
                if extra == "test":
                    progs[w].append("T")
                    sched.append(w)
                elif res == "b0" and next((e_[2][0] == "I" for e_ in entries[pos_ + 1:] if e_[0] == w), False):
                    # `cache[self._context_hash()]`: the attribute is read first, the TypeError comes after the hash
                    t["use"] = True
                else:
                    progs[w].append("U")
                    sched.append(w)
            elif act == "W1":
                progs[w].append("N")
                sched.append(w)
            elif a0 in "SD":
                raise Incomparable("an ordinary data type was (de)registered")
        else:
            di = d - 1
            if a0 == "I":
                if t["cur"] is not None:
                    raise Incomparable("nested iteration")
                progs[w].append(f"I{di}")
                sched.append(w)
                t["cur"] = act[1:]
            elif a0 == "N":
                if res == "?":
                    raise Incomparable("iterator step left unspecified by the dict model")
                sched.append(w)
                if res in ("s", "eRuntimeError"):
                    t["cur"] = None
                if res == "s":
                    flush_use(w)
            elif a0 == "S":
                progs[w].append(f"S{di}_{act[1:].split('/')[0]}")
                sched.append(w)
            elif a0 == "G":
                progs[w].append(f"Q{di}_{act[1:]}")
                sched.append(w)
    for w in range(n):
        if T[w]["finish"]:
            sched.append(w)
        flush_use(w)
    inner0 = []
    for dl in log.dicts[1:log.n_initial_dicts]:
        inner0.append("+".join(f"p{i}" for i in range(dl.n_initial)))
    return dict(progs=progs, sched=sched, inner0=",".join(inner0) or "-", n_plugins=log.dicts[0].n_initial)


def program_outcome(info):
    """outcome class of the real run in the vocabulary of the model's `showSys`"""
    toks = []
    for r in info["res"]:
        toks.append("done" if (r and r[0] == "ok") else ("err:" + sl.err_name(r[1]) if r else "unfinished"))
    d0 = info["log"].dicts[0]
    keys = "+".join(d0.key(k) for k in d0.traced.plain_keys()) or "-"
    return "ok " + " ".join(toks) + f" reg={keys} cache={int(info['cache1'])}"


_PROG_NOTES = {"incomparable": 0, "compared": 0}


def impl_program(case):
    side = _SIDE.get(id(case))
    if side is None:
        impl_interleaved(case)
        side = _SIDE[id(case)]
    info = side["info"]
    try:
        pr = project_program(info)
    except Incomparable as e:
        side["prog_op"] = None
        side["prog"] = None
        _PROG_NOTES["incomparable"] += 1
        case["incomparable"] = str(e)
        return program_outcome(info)
    side["prog"] = pr
    progs = "/".join(".".join(p_) or "-" for p_ in pr["progs"])
    if case.get("blocks"):
        order = []
        for t_ in info["il"].schedule:
            if not order or order[-1] != t_:
                order.append(t_)
        side["prog_op"] = f"c15.blocks {pr['n_plugins']} {int(info['cache0'])} {pr['inner0']} {progs} {sl.show_ints(order)}"
    else:
        side["prog_op"] = f"c15.sched {pr['n_plugins']} {int(info['cache0'])} {pr['inner0']} {progs} {sl.show_ints(pr['sched'])}"
    _PROG_NOTES["compared"] += 1
    return program_outcome(info)


def op_program(case):
    _wait_driver()
    return _SIDE[id(case)]["prog_op"]


COARSE = {"H": "H", "R": "R", "X": "X", "G": "G", "T": "C", "U": "C", "N": "C", "C": "C", "D": "D"}


def coarse(tokens):
    out = []
    for tok in tokens:
        c = COARSE.get(tok[0])
        if c and (not out or out[-1] != c):
            out.append(c)
    return out


def shape_failures(ctx, case):
    """`workerProg` (and its read-only sibling for a single target) as a claim about get_iter: the events of every
    worker that finished must contain the model program's instruction classes in its order, with exactly one
    registration and one clean-up, every unguarded look-up of the temp name in between; a single-target worker on a
    warm cache must not write shared state at all."""
    side = _SIDE.get(id(case))
    if not side or not side.get("prog"):
        return []
    msgs = []
    want = coarse(ctx._c15_workerprog)
    # `resolve` (membership test + subscript in __get_plugin) only happens when the temp plugin is not in the plugin
    # cache, i.e. for the first worker on a cold cache (or after an invalidation): optional in the required order
    want = [c_ for c_ in want if c_ != "X"]
    for i, (r, prog) in enumerate(zip(side["info"]["res"], side["prog"]["progs"])):
        if not r or r[0] != "ok":
            continue
        if case["targets"] == "multi":
            seq = coarse(prog)
            it = iter(seq)
            if not all(any(x == w for x in it) for w in want):
                msgs.append(f"program-shape: worker {i} performed {'.'.join(seq)}, which does not contain workerProg's {'.'.join(want)} in order")
            nr, nd = sum(t_[0] == "R" for t_ in prog), sum(t_ == "D" for t_ in prog)
            ir = next((j for j, t_ in enumerate(prog) if t_[0] == "R"), -1)
            idel = next((j for j, t_ in enumerate(prog) if t_ == "D"), len(prog))
            stray = [j for j, t_ in enumerate(prog) if t_[0] in "XG" and not (ir < j < idel)]
            if nr != 1 or nd != 1 or stray:
                msgs.append(f"program-shape: worker {i}: {nr} registration(s), {nd} clean-up(s), {len(stray)} temp look-up(s) outside them")
        else:
            writes = [t_ for t_ in prog if t_[0] in "RNS"]
            if case["warm"] and writes:
                msgs.append(f"program-shape: single-target worker {i} on a warm cache wrote shared state: {writes[:5]}")
            if any(t_[0] in "RXG" for t_ in prog):
                msgs.append(f"program-shape: single-target worker {i} touched a temp plugin")
    return msgs


def registry_random_cases(ctx, n):
    rng = ctx.rng
    cases = []
    for _ in range(n):
        cases.append(dict(targets=rng.choice(["single", "multi"]), warm=rng.randint(0, 1), threads=rng.choice([2, 2, 3]),
                          storage=int(rng.random() < 0.2),
                          strategy=dict(kind="random", seed=rng.randrange(10 ** 9), p=rng.choice([0.01, 0.05, 0.2, 0.5]))))
    return cases


def preempt_candidates(tkey, warm):
    """baseline: thread 0 runs alone, then thread 1.  Returns the yield-point indices of thread 0 that
    precede a line touching the shared registry / cache (the only places where a switch matters)."""
    case = dict(targets=tkey, warm=warm, threads=2, storage=0, strategy=dict(kind="preempt", switches=[]))
    info = run_interleaved(case)
    ks = sorted({e[4] - 1 for e in info["log"].entries if e[0] == 0 and e[4] >= 1})
    ks1 = sorted({e[4] - 1 for e in info["log"].entries if e[0] == 1 and e[4] >= 1})
    return case, ks, ks1


def registry_preempt_cases(ctx, per_config, two_level):
    rng = ctx.rng
    cases = []
    for tkey in ("single", "multi"):
        for warm in (0, 1):
            base, ks, ks1 = preempt_candidates(tkey, warm)
            cases.append(base)
            pick = ks if len(ks) <= per_config else sorted(rng.sample(ks, per_config))
            for k in pick:
                cases.append(dict(targets=tkey, warm=warm, threads=2, storage=0,
                                  strategy=dict(kind="preempt", switches=[[0, k, 1]])))
            for _ in range(two_level):
                k, j = rng.choice(ks), rng.choice(ks1)
                cases.append(dict(targets=tkey, warm=warm, threads=2, storage=0,
                                  strategy=dict(kind="preempt", switches=[[0, k, 1], [1, j, 0]])))
    return cases


def branch_interleaved(case, out):
    side = _SIDE.get(id(case))
    kinds = []
    if side:
        for r in side["info"]["res"]:
            kinds.append("ok" if r and r[0] == "ok" else (type(r[1]).__name__ + "@" + where_in_context(r[1]) if r else "unfinished"))
    return f"{case['targets']} {'warm' if case['warm'] else 'cold'} {case['strategy'].get('was', case['strategy'])['kind']}: " + ",".join(sorted(set(kinds)))


def minimal_interleavings(ctx, cases):
    """describe, for every failure kind met by a one-preemption schedule, the earliest switch point"""
    best = {}
    for c in cases:
        side = _SIDE.get(id(c))
        spec = c["strategy"].get("was", c["strategy"])
        if not side or spec["kind"] != "preempt" or len(spec["switches"]) != 1:
            continue
        info = side["info"]
        for i, r in enumerate(info["res"]):
            if r and r[0] == "err":
                k = spec["switches"][0][1]
                pre = next((p_ for p_ in info["il"].preempted if p_[0] == 0), None)
                at = f"context.py:{pre[1]}:{pre[2]}" if pre else "?"
                kind = f"{type(r[1]).__name__} in {where_in_context(r[1])} ({c['targets']} target, {'warm' if c['warm'] else 'cold'} cache)"
                if kind not in best or k < best[kind][0]:
                    best[kind] = (k, i, str(r[1])[:80], at)
    for kind, (k, i, msg, at) in sorted(best.items()):
        ctx.note(f"one-preemption schedule: thread 0 stopped before {at} (its yield point #{k}), thread 1 runs to completion, thread 0 resumes -> thread {i} raises {kind}: {msg}")


# ----------------------------------------------------------------------------- (iii) the real thing, free-running threads
def real_case(rng, api=None):
    n = rng.randint(2, 8)
    pool = ["0", "1", "2", "3", "4", "5", "6", "7", "10", "11", "007", "a1"]
    runs = rng.sample(pool, n)
    fail = [r for r in runs if rng.random() < 0.5][: rng.randint(1, 2)] if rng.random() < 0.25 else []
    return dict(api=api or rng.choice(["get_array", "get_array", "get_df", "make"]), runs=runs, workers=rng.randint(1, 8),
                targets=rng.choice(["single", "multi"]), warm=rng.randint(0, 1), storage=rng.randint(0, 1),
                fail=fail, ignore=int(bool(fail) and rng.random() < 0.6))


def table_rows(x):
    """(column names, rows as tuples of str) of a structured array or DataFrame"""
    import pandas as pd
    if isinstance(x, pd.DataFrame):
        return list(x.columns), [tuple(str(v) for v in row) for row in x.itertuples(index=False)]
    names = list(x.dtype.names)
    return names, [tuple(str(v.decode() if isinstance(v, bytes) else v) for v in (row[n] for n in names)) for row in x]


def per_run(x):
    """group the rows of a multi-run result by their run_id, in order of appearance:
    (columns, [(run, sha1 of its rows without the run_id column)], grouped: every run in one contiguous block)"""
    cols, rows = table_rows(x)
    if "run_id" not in cols:
        return cols, [("?", "norunid")], False
    k = cols.index("run_id")
    groups = []
    for row in rows:
        rest = row[:k] + row[k + 1:]
        if groups and groups[-1][0] == row[k]:
            groups[-1][1].append(rest)
        else:
            groups.append((row[k], [rest]))
    ids = [g[0] for g in groups]
    return cols, [(r, hashlib.sha1(repr(g).encode()).hexdigest()[:10]) for r, g in groups], len(set(ids)) == len(ids)


def expected_run_hash(case, r):
    kind, val = expected_single(r, case["targets"], tuple(case["fail"]))
    if kind != "ok":
        return None, None
    x = strax.convert_structured_array_to_df(val, log=QUIET_LOG) if case["api"] == "get_df" else val
    cols, rows = table_rows(x)
    return ["run_id"] + cols, hashlib.sha1(repr(rows).encode()).hexdigest()[:10]


class _Capture(logging.Handler):
    def __init__(self):
        super().__init__()
        self.msgs = []

    def emit(self, record):
        self.msgs.append(record.getMessage())


def _ignored(cap):
    """texts of the exceptions that multi_run logged as ignored"""
    return [m[len("Ran into "):].rsplit(", ignoring", 1)[0].replace("~", "-").replace(" ", "~").replace("|", "/") for m in cap.msgs if m.startswith("Ran into ")]


def impl_real(case):
    tkey = case["targets"]
    tmp = tempfile.mkdtemp(prefix="c15real_") if case["storage"] else None
    old = sys.getswitchinterval()
    try:
        st = make_context(tmp, fail_runs=case["fail"])
        cap = _Capture()
        if case["ignore"]:
            lg = logging.getLogger("c15.capture")
            lg.handlers, lg.propagate = [cap], False
            lg.setLevel(logging.WARNING)
            st.log = lg
        if case["warm"]:
            st.get_array("warm", TARGETS[tkey], progress_bar=False)
        kw = dict(max_workers=case["workers"], progress_bar=False, multi_run_progress_bar=False)
        if case["ignore"]:
            kw["ignore_errors"] = True
        sys.setswitchinterval(1e-6)
        try:
            res = getattr(st, case["api"])(list(case["runs"]), TARGETS[tkey], **kw)
        except Exception as e:  # noqa: BLE001
            return f"err {sl.err_name(e)} | {describe_exc(e)} | ignored=" + ("|".join(_ignored(cap)) or "-")
        finally:
            sys.setswitchinterval(old)
        st.log = QUIET_LOG
        ign = "|".join(_ignored(cap)) or "-"
        if res is None:
            out = f"ok none ignored={ign}"
        else:
            cols, groups, grouped = per_run(res)
            out = (f"ok cols={','.join(cols)} runs=" + (",".join(f"{r}:{h}" for r, h in groups) or "-") +
                   f" grouped={int(grouped)} ignored={ign}")
        if case["api"] == "make":
            # what was made must be loadable afterwards, run by run, and equal the sequential result
            after = []
            for r in sorted(case["runs"]):
                if r in case["fail"]:
                    continue
                try:
                    a = st.get_array(r, TARGETS[tkey], progress_bar=False)
                    stored = bool(case["storage"]) and all(st.is_stored(r, t) for t in strax.to_str_tuple(TARGETS[tkey]))
                    after.append(f"{r}:{hashlib.sha1(canon_rows(a).encode()).hexdigest()[:8]}:{int(stored)}")
                except Exception as e:  # noqa: BLE001
                    after.append(f"{r}:err_{sl.err_name(e)}:0")
            out += " after=" + (",".join(after) or "-")
        return out
    finally:
        sys.setswitchinterval(old)
        if tmp:
            shutil.rmtree(tmp, ignore_errors=True)


OWN_FAILURE = re.compile(r"^OSError: c15: run (\S+) cannot be read\b")


def failures_real(case, out):
    """one message per failure of one free-running multi-run call"""
    tag = case_tag(case, workers=case["workers"])
    api = case["api"]
    healthy = [r for r in sorted(case["runs"]) if r not in case["fail"]]
    failing = [r for r in sorted(case["runs"]) if r in case["fail"]]
    msgs = []
    fields = dict(tok.split("=", 1) for tok in out.split(" ") if "=" in tok and not tok.startswith("|"))
    ign_tok = out.rsplit("ignored=", 1)[1].split(" ")[0] if "ignored=" in out else "-"
    ignored = [] if ign_tok == "-" else [x.replace("~", " ") for x in ign_tok.split("|")]
    own = [m for m in ignored if "cannot be read" in m]
    foreign = [m for m in ignored if "cannot be read" not in m]
    for m in foreign:
        msgs.append(f"omitted-run: ignore_errors swallowed a worker exception that is not the failure of a failing run ({m[:120]}) {tag}")
    if out.startswith("err "):
        head, desc, _ = out[4:].split(" | ", 2)
        if failing and not case["ignore"]:
            m = OWN_FAILURE.match(desc)
            if not (m and m.group(1) in failing):
                msgs.append(f"crash: {api} raised {desc} {tag}")      # not the exception of (one of) the failing run(s)
            return msgs
        if case["ignore"] and (not healthy or len(foreign) - max(0, len(failing) - len(own)) >= len(healthy)):
            return msgs          # nothing (not even a dtype) was left to return: np.concatenate([]) raises
        msgs.append(f"crash: {api} raised {desc} {tag}")
        return msgs
    if failing and not case["ignore"]:
        msgs.append(f"wrong-result: {api} returned although run(s) {failing} fail and errors are not ignored {tag}")
        return msgs
    if case["ignore"] and len(own) > len(failing):
        msgs.append(f"wrong-result: {len(failing)} run(s) fail but {len(own)} failures of them were logged as ignored {tag}")
    # a failing run whose worker died of something else first (reported above) does not log its own failure
    unaccounted = len(failing) - len(own) if case["ignore"] else 0
    body = out.split(" after=")
    if api == "make":
        if not body[0].startswith("ok none"):
            msgs.append(f"wrong-result: make returned something {tag}")
        toks = [] if len(body) < 2 or body[1] == "-" else body[1].split(",")
        bad_after = 0
        for tok in toks:
            r, h, stored = tok.split(":")
            e = expected_single(r, case["targets"], tuple(case["fail"]))
            if h.startswith("err") or h != hashlib.sha1(canon_rows(e[1]).encode()).hexdigest()[:8]:
                msgs.append(f"wrong-result: after make, run {r} loads rows that differ from the sequential result {tag}")
            elif case["storage"] and stored != "1":
                bad_after += 1
        # a run whose worker crashed on the race (already reported above) is legitimately not stored
        if bad_after > len(foreign) - unaccounted:
            msgs.append(f"wrong-result: after make, {bad_after} healthy run(s) are not stored although only {len(foreign) - unaccounted} of their workers failed {tag}")
        return msgs
    if body[0].startswith("ok none"):
        msgs.append(f"wrong-result: {api} returned None {tag}")
        return msgs
    groups = [] if fields.get("runs", "-") == "-" else [g.split(":") for g in fields["runs"].split(",")]
    present = [g[0] for g in groups]
    if fields.get("grouped") != "1" or present != sorted(present):
        msgs.append(f"wrong-order: the rows of {api} are not grouped by run in run-id order: {present} {tag}")
    for r, h in groups:
        if r not in healthy:
            msgs.append(f"wrong-result: {api} returned rows labelled with run {r!r}, which " + ("fails" if r in failing else "was not asked for") + f" {tag}")
            continue
        cols, eh = expected_run_hash(case, r)
        if fields.get("cols", "").split(",") != cols:
            msgs.append(f"wrong-result: {api} returned columns {fields.get('cols')} instead of {','.join(cols)} {tag}")
            break
        if h != eh:
            msgs.append(f"wrong-result: the rows {api} returned for run {r!r} differ from the sequential single-run call {tag}")
    missing = [r for r in healthy if r not in present]
    if len(missing) != len(foreign) - unaccounted:
        msgs.append(f"wrong-result: healthy run(s) {missing} are missing from {api} but {len(foreign) - unaccounted} exception(s) of healthy runs' workers were swallowed {tag}")
    return msgs


def oracle_real(case, out):
    return " ;; ".join(failures_real(case, out)) or None


def branch_real(case, out):
    return f"{case['api']} {case['targets']} w={'1' if case['workers'] == 1 else '2+'} {'fail' if case['fail'] else 'nofail'}{'+ignore' if case['ignore'] else ''}: {out.split(' ')[0]}" + \
        (":" + out.split(" ")[1] if out.startswith("err") else "")


# ----------------------------------------------------------------------------- entry points
def _lap(t0, what):
    from lib.engine import log
    import time
    log(f"[C15] {what}: {time.time() - t0[0]:.1f} s")
    t0[0] = time.time()


def run(ctx):
    import time
    t0 = [time.time()]
    only = os.environ.get("C15_ONLY", "")       # development aid: stubs | registry | real
    if only in ("", "stubs"):
        run_stubs(ctx)
    _lap(t0, "multi_run stubs")
    with quiet_stdout():
        # warm up jitted code so that no step of a controlled thread is slow
        expected_single("0", "single"), expected_single("0", "multi")
        if only in ("", "registry"):
            run_registry(ctx, t0)
        if only in ("", "real"):
            run_real(ctx, t0)


def run_stubs(ctx):
    cases = gen_multi_run_exhaustive(ctx)
    ctx.correspond("multi_run/exhaustive", cases, impl_multi_run, op_multi_run, oracle_multi_run,
                   nontrivial=nontrivial_multi_run, exhaustive=True, branch=branch_multi_run,
                   rule="0..4 runs (unsorted ids, lexicographic trap) x every completion order x workers 1..4 x {all ok, each single failing run, "
                        "pairs failing with different kinds, an empty result} x ignore_errors x throw_away_result; non-trivial = at least 2 runs")
    cases = gen_multi_run_random(ctx, ctx.pick(200, 3000))
    ctx.correspond("multi_run/random", cases, impl_multi_run, op_multi_run, oracle_multi_run,
                   nontrivial=nontrivial_multi_run, branch=branch_multi_run,
                   rule="0..10 runs (15% with duplicate ids), workers 1..8, random full or partial completion priorities, 0..3 failing runs of random kinds")
    noid = [dict(c, addid=0) for c in cases if not c["throw"]] + \
           [dict(c, addid=0) for c in gen_multi_run_exhaustive(ctx) if not c["throw"] and len(c["runs"]) >= 2 and c["workers"] >= 2][:: ctx.pick(7, 1)]
    ctx.correspond("multi_run/no-run-id-field", noid, impl_multi_run, op_multi_run, oracle_multi_run,
                   nontrivial=nontrivial_multi_run, branch=branch_multi_run, model_post=model_post_noid,
                   rule="the random cases and every 7th exhaustive case (>= 2 runs, >= 2 workers; all of them in the thorough tier) again with "
                        "add_run_id_field=False (the default for super-runs): the per-run results must still come back in run-id order although no "
                        "column says which run a block belongs to; the model's answer is compared with its run labels removed")
    cases = gen_multi_run_random(ctx, ctx.pick(150, 2000), scripted=False)
    ctx.check_oracle("multi_run/free-running", cases, impl_multi_run, oracle_multi_run, nontrivial=nontrivial_multi_run,
                     branch=branch_multi_run,
                     rule="same generator, stubs finish on their own after 0..4 ms (several futures per wait() round): oracle only")



def run_registry(ctx, t0):
    nontriv = lambda c, o: True  # noqa: E731
    wp = ctx.driver.run(["c15.workerprog 0"])[0] if ctx.model_available else "ok H.R0.H.G0.C.X0.D.H -"
    ctx._c15_workerprog = wp.split(" ")[1].split(".")
    rule_il = ("2..3 real threads, each get_array(run_i, targets) on ONE context, scheduled line by line inside strax/context.py; every access of the "
               "plugin registry, of the _fixed_plugin_cache attribute and of the inner plugin-cache dicts is logged and replayed through the Lean dict model "
               "(c15.replay), which must predict every result (incl. the first exception) and the final key sets; oracle: every thread returns the sequential "
               "result, one violation per failing thread")
    all_cases = []
    cases = registry_random_cases(ctx, ctx.pick(60, 800))
    ctx.correspond("registry/random", cases, impl_interleaved, op_interleaved,
                   one_per_failure(ctx, "registry/random", lambda c, o: failures_interleaved(c)), nontrivial=nontriv, branch=branch_interleaved,
                   rule=rule_il + "; seeded random schedules (switch probability 0.01..0.5), single / multiple same-kind targets, cold / warm cache, 20% with storage")
    all_cases += cases
    _lap(t0, "registry/random")
    cases = registry_preempt_cases(ctx, ctx.pick(25, 10 ** 6), ctx.pick(5, 100))
    ctx.correspond("registry/preempt", cases, impl_interleaved, op_interleaved,
                   one_per_failure(ctx, "registry/preempt", lambda c, o: failures_interleaved(c)), nontrivial=nontriv, branch=branch_interleaved,
                   exhaustive=ctx.thorough,
                   rule=rule_il + "; preemption-bounded: thread 0 is stopped before a line that touches the shared state, thread 1 runs to completion (one preemption; "
                        "thorough: every such line) or is itself stopped once (two preemptions, sampled)")
    all_cases += cases
    minimal_interleavings(ctx, cases)
    _lap(t0, "registry/preempt")

    # program layer (Instr / stepThread / Sys.run / Sys.runBlocks) against get_iter: the same runs, read as thread programs
    ctx.correspond("registry/program", all_cases, impl_program, op_program, None, nontrivial=nontriv,
                   branch=lambda c, o: f"{c['targets']} {'warm' if c['warm'] else 'cold'}: " + o.split(" reg=")[0][3:].replace("done", "ok"),
                   rule="the runs of registry/random and registry/preempt read as thread programs: per thread the order of its program-level events (registerTemp "
                        "look-up / cache reset / assignment, registry iteration start + every step, temp-name membership test / subscript, clean-up snapshot + every del, "
                        "cache attribute test / use / re-initialisation, inner cache dict iteration / insert / subscript); the Lean transition system (c15.sched: stepThread, "
                        "Sys.run) executes these programs under the interleaving of the real accesses and must end in the same outcome class: which thread fails with which "
                        "error kind, final registry keys, cache flag.  Plus program-shape: every finished worker's events contain workerProg's instruction classes in "
                        "workerProg's order (one registration, one clean-up, temp look-ups in between); a single-target worker on a warm cache writes nothing shared")
    block_cases = []
    for tkey in ("single", "multi"):
        for warm in (0, 1):
            for nth, firsts in ((2, (0, 1)), (3, (2,))):
                for first in firsts:
                    block_cases.append(dict(targets=tkey, warm=warm, threads=nth, storage=0, blocks=1,
                                            strategy=dict(kind="preempt", switches=[], first=first)))
    ctx.correspond("registry/blocks", block_cases, impl_program, op_program,
                   one_per_failure(ctx, "registry/blocks", lambda c, o: failures_interleaved(c)), nontrivial=nontriv, exhaustive=True,
                   rule="workers run one after the other (no preemption; 2 and 3 threads, each order of the first thread, single / multiple targets, cold / warm): "
                        "their event programs executed by Sys.runBlocks (c15.blocks: every program as one atomic block) must give the real outcome: all done, registry restored")
    for c in all_cases + block_cases:
        for m in shape_failures(ctx, c):
            ctx.violation("registry/program", "correspondence", {"case": {k: v for k, v in c.items() if k != "strategy"}, "op": None},
                          {"programs": _SIDE[id(c)]["prog"]["progs"] if _SIDE.get(id(c), {}).get("prog") else None}, m, False)
    ctx.note(f"registry/program: {_PROG_NOTES['compared']} run(s) compared with the program-layer model, {_PROG_NOTES['incomparable']} left out "
             "(an iterator step the dict model leaves unspecified, a nested iteration, or an access by an uncontrolled thread)")
    for comp in ("registry/random", "registry/preempt"):
        ctx.note(f"{comp}: {ctx.comp(comp).oracle_failures} failing thread(s) in {ctx.comp(comp).evaluations} runs (every one filed; the engine keeps 5 per component of listed and of unlisted ones)")
    _SIDE.clear()
    if _TALLY["stuck"] or _TALLY["uncontrolled"]:
        ctx.note(f"interleaver: {_TALLY['uncontrolled']} run(s) where a baton holder was taken to be blocked on a lock (schedule not exactly "
                 f"replayable), {_TALLY['stuck']} run(s) given up as stuck; their access logs and results were still checked")
    _lap(t0, "registry/program+blocks")


def run_real(ctx, t0):
    cases = [real_case(ctx.rng) for _ in range(ctx.pick(120, 1000))]
    ctx.check_oracle("real/multi-run", cases, impl_real, one_per_failure(ctx, "real/multi-run", failures_real),
                     nontrivial=lambda c, o: c["workers"] >= 2, branch=branch_real,
                     rule="get_array / get_df / make on 2..8 runs x 1..8 workers, single / multiple same-kind targets, cold / warm plugin cache, with / without "
                          "storage, 25% with failing runs (60% of those with ignore_errors), interpreter switch interval 1 microsecond; per run: rows equal the sequential "
                          "single-run call, run_id attached, runs grouped in run-id order; a failing run raises ITS exception or is omitted; one violation per failure; "
                          "non-trivial = at least 2 workers")
    ctx.note(f"real/multi-run: {ctx.comp('real/multi-run').oracle_failures} failure(s) in {ctx.comp('real/multi-run').evaluations} calls")
    _lap(t0, "real/multi-run")


def search(ctx):
    """an obligation broke: look for a failing input on the real code with the oracles only.  The registry / real
    searches run under the regular component names, so that the listed findings (pinned to those components) are
    recognised and only a different failure is reported."""
    cases = gen_multi_run_random(ctx, 2000)
    ctx.check_oracle("search/multi_run", cases, impl_multi_run, oracle_multi_run)
    with quiet_stdout():
        ctx.check_oracle("registry/random", registry_random_cases(ctx, 200), impl_interleaved,
                         one_per_failure(ctx, "registry/random", lambda c, o: failures_interleaved(c)))
        _SIDE.clear()
        ctx.check_oracle("real/multi-run", [real_case(ctx.rng) for _ in range(200)], impl_real,
                         one_per_failure(ctx, "real/multi-run", failures_real))


REPLAYERS = {
    "multi_run": (impl_multi_run, oracle_multi_run),
    "registry": (impl_interleaved, oracle_interleaved),
    "real": (impl_real, oracle_real),
}


def replay(ctx, body):
    comp = body["component"].split("/")
    name = comp[0] if comp[0] != "search" else comp[1]
    impl, oracle = REPLAYERS.get(name, (None, None))
    if impl is None or body.get("case") is None:
        return f"obligation {body['component']} has no input to replay (no-failing-input-found); re-run the check"
    case = body["case"]["case"]
    tries = 1 if name != "real" else 20     # free-running threads: the OS picks the schedule
    msg = None
    for _ in range(tries):
        with quiet_stdout():
            out = impl(case)
            msg = oracle(case, out)
        print("implementation output:", out[:300])
        if msg:
            return msg
    return msg
