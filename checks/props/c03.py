"""C03 — saving then loading returns the same rows, ranges and consistent metadata.

Model: lean/StraxModel/Model/Storage.lean (saver / loader protocol over metadata + files-as-a-map, on top
of the chunk algebra and rechunker of C07); theorems: Props/C03.lean.
Tie: the REAL `strax.DataDirectory` -> `FileSytemBackend` saver (`save_from` fed by a generator of real
chunks) and loader, run in a scratch directory under $TMPDIR, against the compiled driver op `c03.rt`:
the canonicalised metadata json, the directory listing with independently decompressed contents, and the
loaded chunks must be identical strings.  Law-abiding streams over 4 dtypes x 4 compressors x rechunk
on/off (tiny targets) x serial / thread-pool saving and loading, all chunkings of tiny runs, super-run
chunks with subruns (incl. zero-duration chunks of a sub-run: regression corpus of the fixed D31), epoch-scale
replicas (every time + 1.7e18 ns), a malformed stream (gaps, out-of-order, mixed types / runs, target 0, invalid
annotations) and tampered directories (wrong n, missing file, missing filename, swapped files, ...) for
the rejecting branches of the loader.
Oracle: the wording of the property evaluated on the real objects: raw bytes of the concatenated rows,
overall range, contiguity, the boundary rule (no row straddles a cut; a new cut is an old boundary or lies where no
row covers it), and metadata-versus-files consistency (n, nbytes, filesize — recorded by the serial saver only,
start/end, first/last row times, run id, chunk_i, overall start/end, writing_ended, no exception, no stray
or missing files).
"""
from __future__ import annotations

import atexit
import itertools
import json
import os
import shutil
import tempfile
import warnings
from collections import Counter
from concurrent.futures import Future, ThreadPoolExecutor

import numpy as np

from lib import gen
from lib import straxlib as sl
from lib.straxlib import strax

ID = "C03"
LEAN_MODULES = ["StraxModel.Props.C03"]
TRUSTED = [
    "modelled not verified: the four codecs (identity on rows in the model; the harness decompresses every file independently "
    "with the one-shot library functions and compares bytes), np.frombuffer, dtype.descr <-> literal_eval, json round trip of ints",
    "the real file system is used as is (no faults: that is C04); directory listing compared as a sorted name list",
    "thread-pool saving/loading is run with a real ThreadPoolExecutor (OS scheduling, not enumerated); the model completes the pending "
    "writes in an arbitrary permutation derived from the case (theorem: the result does not depend on it) and resolves futures in chunk order",
]
ASSUMPTIONS = [
    "rows are identified by an opaque id; bit-identity of all other bytes is checked by the oracle on the real arrays (4 dtypes: "
    "endtime, dt*length, array-valued + titles, untitled with float/bool/2-d fields)",
    "target_size_mb / chunk_target_size_mb are mapped monotonically to a target row count",
    "nbytes (= n*itemsize) and the presence of filesize are in the model and in the compared line; the VALUE of filesize is an "
    "uninterpreted positive function of the rows (opaque blobSize), compared with the real file size by the oracle only",
    "target sizes are given in MB worth rows + frac rows (frac in {.03,.25,.5,.97}); strax must floor them to the row count sent to the driver",
]

COMPRESSORS = ["blosc", "zstd", "lz4", "bz2"]
DT_MIX = np.dtype([("time", np.int64), ("endtime", np.int64), ("id", np.int64), ("x", np.float32), ("flag", np.bool_),
                   ("m", np.uint8, (2, 2))])
ENCS = ["end", "len", "arr", "mix"]


def dtype_of(enc):
    return DT_MIX if enc == "mix" else sl.DTYPES[enc]


def mk_array(rows, enc):
    if enc != "mix":
        a = sl.mk_array(rows, enc)
        if enc == "arr":   # make the payload depend on more than id % small primes
            for i, (_t, _e, k) in enumerate(rows):
                a[i]["wave"] = [(k * 37 + 11) % 30000, -(k % 91), k % 3]
        return a
    rows = list(rows)
    a = np.zeros(len(rows), dtype=DT_MIX)
    for i, (t, e, k) in enumerate(rows):
        a[i]["time"], a[i]["endtime"], a[i]["id"] = t, e, k
        a[i]["x"] = k * 0.25 - 3.5
        a[i]["flag"] = bool(k % 2)
        a[i]["m"] = [[k % 251, (k * 7) % 251], [(k * 13) % 251, 255 - k % 200]]
    return a


def target_mb(rows_target, itemsize, frac=0.5):
    """a target size in MB worth `rows_target + frac` rows (0 <= frac < 1): strax must floor it to `rows_target` rows
    (`int(target_size_mb * 1e6 // itemsize)`); `frac` varies so that a change of that rounding would show"""
    mb = (rows_target + frac) * itemsize / 1e6
    return mb if sl.target_rows(mb, itemsize) == rows_target else sl.target_mb(rows_target, itemsize)


def build_chunk(rc, enc, frac=0.5):
    data = mk_array([tuple(r) for r in rc["rows"]], enc)
    return strax.Chunk(data_type=rc["data_type"], data_kind=rc["kind"], dtype=data.dtype, run_id=rc["run_id"],
                       start=rc["start"], end=rc["end"], data=data, subruns=rc["subruns"], superrun=rc["superrun"],
                       target_size_mb=target_mb(rc["target"], data.dtype.itemsize, frac))


# ----------------------------------------------------------------------------- scratch space
_ROOT = None
_POOL = None


def scratch_root():
    global _ROOT
    if _ROOT is None:
        _ROOT = tempfile.mkdtemp(prefix="verif_c03_", dir=os.environ.get("TMPDIR") or None)
        pid = os.getpid()
        atexit.register(lambda: shutil.rmtree(_ROOT, ignore_errors=True) if os.getpid() == pid else None)
    return _ROOT


def pool():
    global _POOL
    if _POOL is None:
        _POOL = ThreadPoolExecutor(max_workers=3)
        atexit.register(lambda: _POOL.shutdown(wait=False))
    return _POOL


# ----------------------------------------------------------------------------- canonical text (== Driver/C03.lean)
def _o(v):
    return "-" if v is None else str(v)


def show_runs_sorted(d):
    """a runs dict as it is in the json file (sort_keys=True)"""
    if d is None:
        return "-"
    if not d:
        return "{}"
    return ",".join(f"{k}:{int(d[k]['start'])}:{int(d[k]['end'])}" for k in sorted(d))


def show_meta(md):
    infos = []
    for c in md.get("chunks", []):
        infos.append("/".join([_o(c.get("chunk_i")), _o(c.get("n")), _o(c.get("start")), _o(c.get("end")), _o(c.get("run_id")),
                               show_runs_sorted(c.get("subruns")), _o(c.get("first_time")), _o(c.get("first_endtime")),
                               _o(c.get("last_time")), _o(c.get("last_endtime")), _o(c.get("filename")),
                               _o(c.get("nbytes")), str(int("filesize" in c))]))
    return (f"start={_o(md.get('start'))} end={_o(md.get('end'))} we={int('writing_ended' in md)} exc={int('exception' in md)} "
            f"chunks=" + (";".join(infos) if infos else "-"))


def show_files(files):
    return ";".join(f"{fn}={sl.show_rows(sl.rows_of(files[fn][1]))}" for fn in sorted(files)) if files else "-"


def show_chunk(c):
    return sl.show_chunk(c)


# ----------------------------------------------------------------------------- hypotheses, evaluated on the real chunks
def py_law(chunks):
    prev_end = None
    last_time = None
    for c in chunks:
        if c.start > c.end:
            return False
        if prev_end is not None and c.start != prev_end:
            return False
        prev_end = c.end
        for t, e, _k in sl.rows_of(c.data):
            if not (c.start <= t < e <= c.end):
                return False
            if last_time is not None and t < last_time:
                return False
            last_time = t
    return True


def py_restorable(subruns):
    if subruns is None:
        return True
    items = [(k, int(v["start"]), int(v["end"])) for k, v in subruns.items()]
    back = sorted(sorted(items, key=lambda x: x[0]), key=lambda x: (x[1], x[2]))   # json sort_keys, then the setter's (start, end)
    return back == items and all(a[2] <= b[1] for a, b in zip(items[:-1], items[1:]))


def py_storable(rid, c):
    return bool(0 <= c.start <= c.end and all(c.start <= t < e <= c.end for t, e, _k in sl.rows_of(c.data))
                and c.run_id == rid and py_restorable(c.subruns) and (not rid.startswith("_") or c.subruns is not None))


# ----------------------------------------------------------------------------- the adapter
_SIDE = {}


def case_key(case):
    return json.dumps(case, sort_keys=True)


def read_dir(dirname, comp, dtype):
    """metadata dict + {filename: (size, array)} with every data file decompressed independently of strax.load_file"""
    prefix = strax.storage.files.dirname_to_prefix(dirname)
    md_name = strax.RUN_METADATA_PATTERN % prefix
    with open(os.path.join(dirname, md_name)) as f:
        md = json.load(f)
    files = {}
    for fn in os.listdir(dirname):
        if fn == md_name:
            continue
        p = os.path.join(dirname, fn)
        with open(p, "rb") as f:
            raw = f.read()
        buf = strax.io.COMPRESSORS[comp]["decompress"](raw)
        files[fn] = (len(raw), np.frombuffer(bytes(buf), dtype=dtype))
    return md, md_name, files


def apply_tamper(spec, dirname, md_name, md):
    parts = spec.split(":")
    chunks = md["chunks"]
    ln = len(chunks)

    def idx(k):
        return 0 if ln == 0 else int(k) % ln
    kind = parts[0]
    hit = False
    if kind == "none":
        return hit
    if kind == "nochunks":
        md["chunks"] = []
    elif ln == 0:
        pass
    elif kind == "n":
        c = chunks[idx(parts[1])]
        old_n = c["n"]
        c["n"] = max(0, c["n"] + int(parts[2]))
        hit = c["n"] != old_n and c["n"] > 0    # n -> 0 is the documented "no data, no need to load" shortcut
    elif kind == "rm":
        fn = chunks[idx(parts[1])].get("filename")
        if fn is not None:
            os.remove(os.path.join(dirname, fn))
            hit = True
    elif kind == "nofn":
        chunks[idx(parts[1])].pop("filename", None)
    elif kind == "rid":
        chunks[idx(parts[1])]["run_id"] = None if parts[2] == "-" else parts[2]
    elif kind == "swap":
        j, k = idx(parts[1]), idx(parts[2])
        if j != k:
            fj, fk = chunks[j].get("filename"), chunks[k].get("filename")
            for c, f in ((chunks[j], fk), (chunks[k], fj)):
                if f is None:
                    c.pop("filename", None)
                else:
                    c["filename"] = f
    elif kind == "range":
        c = chunks[idx(parts[1])]
        c["start"] += int(parts[2])
        c["end"] += int(parts[3])
    else:
        raise ValueError(spec)
    with open(os.path.join(dirname, md_name), "w") as f:
        f.write(json.dumps(md, sort_keys=True, indent=4))
    return hit


def impl(case):
    with warnings.catch_warnings():
        warnings.simplefilter("ignore")
        return _impl(case)


def _impl(case):
    key = case_key(case)
    enc, comp = case["enc"], case["comp"]
    dt = dtype_of(enc)
    rid, data_type, kind = case["run_id"], case["data_type"], case["kind"]
    side = _SIDE[key] = {"msgs": [], "status": "?"}
    try:
        chunks = [build_chunk(rc, enc, case.get("mb_frac", 0.5)) for rc in case["chunks"]]
    except Exception as e:  # noqa: BLE001
        side["status"] = "construct"
        return "err-construct " + sl.err_name(e)
    path = tempfile.mkdtemp(dir=scratch_root())
    try:
        st = strax.DataDirectory(path)
        lineage = {data_type: ["VerifPlugin", "0.0.0", {}]}
        dkey = strax.DataKey(rid, data_type, lineage, subruns={"s0": "all"} if rid.startswith("_") else None)
        md0 = dict(run_id=rid, data_type=data_type, data_kind=kind, dtype=dt, lineage_hash=dkey.lineage_hash,
                   compressor=comp, lineage=lineage, chunk_target_size_mb=target_mb(case["hdr_target"], dt.itemsize, case.get("mb_frac", 0.5)))
        saver = st.saver(dkey, md0, saver_timeout=120)
        dirname = saver.dirname
        pfx = saver.prefix
        side["pfx"] = pfx
        err = None
        try:
            saver.save_from((c for c in chunks), rechunk=bool(case["rechunk"]), executor=pool() if case["save_exec"] else None)
        except Exception as e:  # noqa: BLE001
            err = sl.err_name(e)
        md, md_name, files = read_dir(dirname, comp, dt)
        meta_s, files_s = show_meta(md), show_files(files)
        if err is not None:
            side["status"] = "save-err"
            if os.path.exists(dirname + "_temp"):
                side["msgs"].append("temp directory left behind")
            return f"err {err} {meta_s} ## {files_s}"
        law, stor = py_law(chunks), all(py_storable(rid, c) for c in chunks)
        side.update(law=law, stor=stor)
        oracle_meta(side["msgs"], case, md, files, dt, dirname)
        side["rm_hit"] = apply_tamper(case["tamper"], dirname, md_name, json.loads(json.dumps(md)))
        loaded, lerr = [], None
        try:
            for c in st.loader(dkey, executor=pool() if case["load_exec"] else None):
                if isinstance(c, Future):
                    c = c.result()
                loaded.append(c)
        except Exception as e:  # noqa: BLE001
            lerr = sl.err_name(e)
        if lerr is None:
            side["status"] = "ok"
            loaded_s = "ok " + (" ".join(show_chunk(c) for c in loaded) if loaded else "-")
            if case["tamper"] == "none":
                oracle_roundtrip(side["msgs"], case, chunks, loaded, md)
        else:
            side["status"] = "load-err"
            loaded_s = "err " + lerr
        return f"ok {meta_s} ## {files_s} ## {loaded_s} ## law={int(law)} stor={int(stor)}"
    finally:
        shutil.rmtree(path, ignore_errors=True)


def to_op(case):
    keys = case.get("order_keys") or []
    return " ".join(["c03.rt", str(int(case["rechunk"])), str(int(case["save_exec"])), str(int(case["load_exec"])),
                     sl.show_ints(keys), case["tamper"], case["run_id"], case["data_type"], case["kind"],
                     str(case["hdr_target"]), str(dtype_of(case["enc"]).itemsize),
                     _SIDE.get(case_key(case), {}).get("pfx") or pfx_of(case),
                     *[sl.raw_chunk_op(rc) for rc in case["chunks"]]])


def pfx_of(case):
    lineage = {case["data_type"]: ["VerifPlugin", "0.0.0", {}]}
    return f"{case['data_type']}-{strax.deterministic_hash(lineage)}"


# ----------------------------------------------------------------------------- oracle parts (on the real objects)
def raw_bytes(arrs, dt):
    arrs = [a for a in arrs if len(a)]
    return (np.concatenate(arrs) if arrs else np.zeros(0, dt)).tobytes()


def oracle_meta(msgs, case, md, files, dt, dirname):
    """stored metadata agrees with the files (evaluated whenever save_from returned normally)"""
    rid = case["run_id"]
    if "writing_ended" not in md:
        msgs.append("metadata has no writing_ended although save_from returned normally")
    if "exception" in md:
        msgs.append("metadata has an exception field although save_from returned normally")
    for k, v in (("run_id", rid), ("data_type", case["data_type"]), ("data_kind", case["kind"]), ("compressor", case["comp"])):
        if md.get(k) != v:
            msgs.append(f"metadata {k} = {md.get(k)!r}, saver was created with {v!r}")
    try:
        from ast import literal_eval
        if np.dtype(literal_eval(md["dtype"])) != dt:
            msgs.append("metadata dtype does not evaluate to the dtype saved")
    except Exception as e:  # noqa: BLE001
        msgs.append(f"metadata dtype unreadable: {e}")
    infos = md.get("chunks", [])
    if os.path.exists(dirname + "_temp"):
        msgs.append("temp directory still exists after a successful save")
    named = set()
    for pos, c in enumerate(infos):
        if c.get("chunk_i") != pos:
            msgs.append(f"chunk info at position {pos} has chunk_i {c.get('chunk_i')}")
        fn = c.get("filename")
        if c["n"] == 0:
            if fn is not None and fn in files and len(files[fn][1]):
                msgs.append(f"chunk {pos}: n = 0 but file {fn} has rows")
            if c.get("nbytes") != 0:
                msgs.append(f"chunk {pos}: n = 0 but nbytes = {c.get('nbytes')}")
            continue
        if fn is None or fn not in files:
            msgs.append(f"chunk {pos}: n = {c['n']} but file {fn!r} does not exist")
            continue
        if fn in named:
            msgs.append(f"file {fn} named by two chunk infos")
        named.add(fn)
        size, data = files[fn]
        if len(data) != c["n"]:
            msgs.append(f"chunk {pos}: n = {c['n']} but the file holds {len(data)} rows")
            continue
        if c.get("nbytes") != c["n"] * dt.itemsize:
            msgs.append(f"chunk {pos}: nbytes = {c.get('nbytes')} != n * itemsize = {c['n'] * dt.itemsize}")
        if "filesize" in c and c["filesize"] != size:
            msgs.append(f"chunk {pos}: filesize = {c['filesize']} but the file has {size} bytes")
        if not case["save_exec"] and "filesize" not in c:
            msgs.append(f"chunk {pos}: no filesize recorded by the serial saver")
        if size <= 0:
            msgs.append(f"chunk {pos}: file {fn} is empty")
        ends = strax.endtime(data)
        exp = dict(first_time=int(data["time"][0]), first_endtime=int(ends[0]), last_time=int(data["time"][-1]),
                   last_endtime=int(ends[-1]))
        for k, v in exp.items():
            if c.get(k) != v:
                msgs.append(f"chunk {pos}: {k} = {c.get(k)} but the file says {v}")
        if not (c["start"] <= int(data["time"].min()) and int(ends.max()) <= c["end"]):
            msgs.append(f"chunk {pos}: rows in the file are outside [start, end) = [{c['start']}, {c['end']})")
    stray = set(files) - named
    if stray:
        msgs.append(f"files not named by any chunk info: {sorted(stray)}")
    if infos:
        if md.get("start") != infos[0]["start"]:
            msgs.append(f"metadata start = {md.get('start')} but the first chunk starts at {infos[0]['start']}")
        if md.get("end") != infos[-1]["end"]:
            msgs.append(f"metadata end = {md.get('end')} but the last chunk ends at {infos[-1]['end']}")


def oracle_roundtrip(msgs, case, chunks, loaded, md):
    """rows, ranges, boundaries of what the loader yields versus what was written"""
    dt = dtype_of(case["enc"])
    infos = md.get("chunks", [])
    if len(loaded) != len(infos):
        msgs.append(f"loader yielded {len(loaded)} chunks, metadata lists {len(infos)}")
    else:
        for pos, (c, i) in enumerate(zip(loaded, infos)):
            if (c.start, c.end, len(c), c.run_id) != (i["start"], i["end"], i["n"], i["run_id"]):
                msgs.append(f"chunk {pos}: loaded (start, end, n, run_id) differs from its chunk info")
    if any(c.data.dtype != dt for c in loaded):
        msgs.append("loaded dtype differs from the saved one")
    if raw_bytes([c.data for c in loaded], dt) != raw_bytes([c.data for c in chunks], dt):
        msgs.append("rows loaded are not bit-identical to the rows saved (raw bytes of the concatenation differ)")
    if not chunks:
        return
    if not loaded:
        msgs.append("nothing loaded")
        return
    if not case["rechunk"]:
        if [(c.start, c.end) for c in loaded] != [(c.start, c.end) for c in chunks]:
            msgs.append("chunk boundaries changed although rechunking was off")
        return
    if not SIDE_LAW(case):
        return
    if (loaded[0].start, loaded[-1].end) != (chunks[0].start, chunks[-1].end):
        msgs.append("overall time range changed by saving with rechunking")
    if any(a.end != b.start for a, b in zip(loaded[:-1], loaded[1:])):
        msgs.append("loaded chunks are not contiguous")
    rows = [r for c in chunks for r in sl.rows_of(c.data)]
    old = {c.start for c in chunks} | {chunks[-1].end}
    for t in [c.start for c in loaded] + [loaded[-1].end]:
        if t in old:
            continue
        if any(a <= t < b for a, b, _k in rows):
            msgs.append(f"new chunk boundary {t} is neither an old boundary nor in a stretch covered by no row")
    for t in [c.start for c in loaded] + [loaded[-1].end]:
        if any(a < t < b for a, b, _k in rows):
            msgs.append(f"chunk boundary {t} cuts through a row")
    for c in loaded:
        if any(not (c.start <= t < e <= c.end) for t, e, _k in sl.rows_of(c.data)):
            msgs.append("a loaded row lies outside its chunk")


def SIDE_LAW(case):
    return _SIDE[case_key(case)].get("law", False)


def oracle(case, out):
    side = _SIDE.get(case_key(case))
    if side is None:
        return "internal: no side record"
    msgs = list(side["msgs"])
    status = side["status"]
    tam = case["tamper"].split(":")[0]
    valid = side.get("stor") and (side.get("law") or not case["rechunk"])
    if case.get("expect") == "valid":
        if status == "construct" or (status != "save-err" and not (side.get("law") and side.get("stor"))):
            raise RuntimeError(f"generator produced a case outside the hypotheses although it was meant to be valid: {case}")
    if status == "save-err" and case.get("expect") == "valid" and all(rc["target"] >= 1 for rc in case["chunks"]):
        msgs.append(f"saving a law-abiding stream failed: {out.split(' ')[1]}")
    if status == "load-err" and tam == "none" and (valid or case.get("expect") == "roundtrip") and case["chunks"]:
        msgs.append(f"loading back what was just saved failed: {out.split(' ## ')[2]}")
    if status == "save-err" and case.get("expect") == "roundtrip":
        msgs.append(f"saving a stream of valid chunks failed: {out.split(' ')[1]}")
    if status == "ok" and not case["chunks"]:
        msgs.append("loader returned normally on data without chunks")
    if status == "ok" and tam == "n" and side.get("rm_hit"):
        msgs.append("loader accepted a chunk whose row count differs from the (non-zero) n of its chunk info")
    if status == "ok" and tam == "rm" and side.get("rm_hit"):
        msgs.append("loader succeeded although a chunk file is missing")
    return "; ".join(msgs[:4]) if msgs else None


# ----------------------------------------------------------------------------- generators
def base_case(rng, chunks, **kw):
    case = dict(enc=rng.choice(ENCS), comp=rng.choice(COMPRESSORS), rechunk=rng.randint(0, 1), save_exec=int(rng.random() < 0.35),
                load_exec=int(rng.random() < 0.35), run_id="r", data_type="d", kind="k", hdr_target=3, tamper="none", chunks=chunks)
    # the model's executor completes the pending writes in the order given by these sort keys (any permutation must
    # give the same directory and metadata as the real pool, whose order the OS decides)
    case["order_keys"] = [rng.randint(0, 5) for _ in range(rng.randint(0, 6))] if case["save_exec"] else []
    case["mb_frac"] = rng.choice([0.5, 0.03, 0.97, 0.25])
    case.update(kw)
    if not case["save_exec"]:
        case["order_keys"] = []
    return case


def raw(a, b, rows, target, run_id="r", subruns=None, data_type="d", kind="k"):
    return sl.raw_chunk(data_type=data_type, kind=kind, run_id=run_id, start=a, end=b, rows=rows, subruns=subruns, target=target)


def tile_subruns(rng, a, b, names):
    """subruns dict tiling [a,b) with 1..3 runs whose alphabetical order differs from time order"""
    if a == b:
        return {names[0]: {"start": a, "end": b}}
    n = rng.randint(1, min(3, b - a))
    cuts = sorted(rng.sample(range(a + 1, b), n - 1)) if n > 1 else []
    cuts = [a, *cuts, b]
    return {names[i]: {"start": x, "end": y} for i, (x, y) in enumerate(zip(cuts[:-1], cuts[1:]))}


SUBRUN_NAMES = ["s9", "s3", "s7", "s1", "s5", "s2", "s8", "s4", "s6", "s0"]


def valid_stream(rng, n_rows=None, target=None, superrun=False):
    n_rows = rng.randint(0, 14) if n_rows is None else n_rows
    target = rng.randint(1, 6) if target is None else target
    rows = gen.gen_rows(rng, n_rows, big_gap_p=rng.choice([0.0, 0.1, 0.3, 0.6]))
    s, e = gen.run_of(rng, rows)
    if not superrun:
        parts = gen.random_chunking(rng, rows, s, e, p_cut=rng.choice([0.05, 0.3, 0.7]), p_dup=rng.choice([0.0, 0.1, 0.3]))
        return [raw(a, b, rs, target) for a, b, rs in parts]
    # a super-run: [s,e) is partitioned into sub-runs (ids deliberately not in time order); every chunk carries the
    # pieces of the sub-runs it covers, as chunks assembled from sub-runs do.  No zero-duration chunks here: they would
    # carry no subruns at all (see the malformed stream).
    parts = gen.random_chunking(rng, rows, s, e, p_cut=rng.choice([0.05, 0.3, 0.7]), p_dup=0.0)
    parts = [p for p in parts if p[0] < p[1]] or [(s, e, rows)]
    if s == e:
        return [raw(s, e, [], target, run_id="_sup", subruns={SUBRUN_NAMES[0]: {"start": s, "end": e}})]
    n = rng.randint(1, min(len(SUBRUN_NAMES), 4, e - s))
    cuts = [s, *sorted(rng.sample(range(s + 1, e), n - 1)), e]
    out = []
    for a, b, rs in parts:
        sub = {}
        for name, (x, y) in zip(SUBRUN_NAMES, zip(cuts[:-1], cuts[1:])):
            lo, hi = max(a, x), min(b, y)
            if lo < hi:
                sub[name] = {"start": lo, "end": hi}
        out.append(raw(a, b, rs, target, run_id="_sup", subruns=sub))
    return out


def malformed_stream(rng):
    """mostly-valid stream with one law broken, or an odd configuration"""
    chunks = valid_stream(rng, n_rows=rng.randint(2, 10))
    why = rng.choice(["gap", "order", "dtype", "run", "target0", "zero-subrun", "plain-subruns", "superid-nosub", "neg-start",
                      "hdr-target", "row-outside"])
    kw = {}
    if why == "gap" and len(chunks) >= 2:
        j = rng.randrange(1, len(chunks))
        d = rng.randint(1, 2000)
        chunks = chunks[:j] + [dict(c, start=c["start"] + d, end=c["end"] + d, rows=[[r[0] + d, r[1] + d, r[2]] for r in c["rows"]])
                               for c in chunks[j:]]
    elif why == "order" and len(chunks) >= 2:
        j = rng.randrange(0, len(chunks) - 1)
        chunks[j], chunks[j + 1] = chunks[j + 1], chunks[j]
    elif why == "dtype" and len(chunks) >= 2:
        j = rng.randrange(0, len(chunks))
        chunks[j] = dict(chunks[j], data_type="other")
    elif why == "run" and len(chunks) >= 2:
        j = rng.randrange(0, len(chunks))
        chunks[j] = dict(chunks[j], run_id="r2")
        if rng.random() < 0.5:
            kw["run_id"] = "_sup"
    elif why == "target0":
        chunks = [dict(c, target=0) for c in chunks]
    elif why == "zero-subrun":
        # a zero-length subrun whose id sorts after its neighbour: accepted by Chunk.__init__, not restorable
        c = chunks[0]
        chunks = [dict(c, run_id="_sup", subruns={"b": {"start": c["start"], "end": c["start"]}, "a": {"start": c["start"], "end": c["end"]}})] \
            + [dict(x, run_id="_sup", subruns={"a": {"start": x["start"], "end": x["end"]}}) for x in chunks[1:]]
        kw["run_id"] = "_sup"
    elif why == "plain-subruns":
        chunks = [dict(c, subruns=tile_subruns(rng, c["start"], c["end"], ["z", "y", "x"])) for c in chunks]
    elif why == "superid-nosub":
        chunks = [dict(c, run_id="_sup") for c in chunks]
        kw["run_id"] = "_sup"
    elif why == "neg-start":
        chunks[0] = dict(chunks[0], start=-1)
    elif why == "hdr-target":
        kw["hdr_target"] = rng.choice([0, 1, 7, 1000])
    elif why == "row-outside" and chunks[-1]["rows"]:
        chunks[-1] = dict(chunks[-1], end=chunks[-1]["end"] - 1 if chunks[-1]["rows"][-1][1] == chunks[-1]["end"] else chunks[-1]["rows"][-1][1] - 1)
    return chunks, why, kw


def zero_subrun_cases(rng, n):
    """super-run streams in which a sub-run contributes a zero-duration chunk (inside the quantifier of C03: 'including
    empty and zero-duration chunks').  `adverse` = the id of the zero-length span sorts after the id of the sub-run that
    follows it at the same time and both end up in one stored chunk: the input shape of the FIXED finding
    C03-zero-length-subrun (D31, /repo a608e2e).  The round trip is demanded for every id order."""
    out = []

    def mk(zero_id, next_id, prev, rechunk, t0, rows_after, direct):
        chunks = []
        t = t0
        if prev:
            chunks.append(raw(0, t, [[0, 1, 0]] if t > 0 else [], 50, run_id="_sup", subruns={"p": {"start": 0, "end": t}} if t > 0 else {"p": {"start": 0, "end": 0}}))
        end = t + 10
        rows = [[t + 1 + 2 * i, t + 2 + 2 * i, 10 + i] for i in range(rows_after)]
        if direct:   # one chunk already carrying both spans (as the rechunker would emit it)
            chunks.append(raw(t, end, rows, 50, run_id="_sup", subruns={zero_id: {"start": t, "end": t}, next_id: {"start": t, "end": end}}))
        else:
            chunks.append(raw(t, t, [], 50, run_id="_sup", subruns={zero_id: {"start": t, "end": t}}))
            chunks.append(raw(t, end, rows, 50, run_id="_sup", subruns={next_id: {"start": t, "end": end}}))
        return chunks, (direct or bool(rechunk)) and zero_id > next_id
    # the minimal witness first
    c, adv = mk("b", "a", False, 1, 0, 2, False)
    out.append(base_case(rng, c, run_id="_sup", rechunk=1, hdr_target=50, expect="roundtrip", adverse=adv, save_exec=0, load_exec=0, enc="end", comp="zstd"))
    for _ in range(n - 1):
        zid, nid = rng.sample(["a", "b", "m", "s1", "s10", "z"], 2)
        prev = rng.random() < 0.5
        rechunk = rng.randint(0, 1)
        direct = rng.random() < 0.3
        c, adv = mk(zid, nid, prev, rechunk, rng.randint(1, 40) if prev else rng.randint(0, 40), rng.randint(0, 3), direct)
        out.append(base_case(rng, c, run_id="_sup", rechunk=rechunk, hdr_target=50, expect="roundtrip", adverse=adv))
    return out


T0 = 1_700_000_000_000_000_137


def shift_case(case, t0=T0):
    """the same case with every time moved to epoch scale (ns since 1970)"""
    def sh_runs(d):
        return None if d is None else {k: {"start": v["start"] + t0, "end": v["end"] + t0} for k, v in d.items()}
    chunks = [dict(c, start=c["start"] + t0, end=c["end"] + t0, rows=[[r[0] + t0, r[1] + t0, r[2]] for r in c["rows"]],
                   subruns=sh_runs(c["subruns"]), superrun=sh_runs(c["superrun"])) for c in case["chunks"]]
    return dict(case, chunks=chunks, shifted=1)


TAMPERS = ["n:{k}:1", "n:{k}:-1", "n:{k}:0", "rm:{k}", "nofn:{k}", "rid:{k}:_x", "rid:{k}:-", "rid:{k}:zz", "swap:{j}:{k}", "range:{k}:1:0",
           "range:{k}:0:-1", "range:{k}:-1:1", "nochunks"]


def exhaustive_cases(max_rows=3):
    """all chunkings (<= 3 interior cuts, plus duplicated cuts) of every run of <= max_rows rows on a stretched grid,
    rechunk off and on with targets 1 and 2"""
    out = []
    for rows in gen.all_sorted_rows(max_rows, 3):
        rows = [(2000 * a, 2000 * a + 700 * (b - a), i) for a, b, i in rows]
        if not rows:
            continue
        s, e = 0, max(r[1] for r in rows) + 100
        cand = [t for t in sorted({x for r in rows for x in (r[0], r[1])} | {r[1] + 600 for r in rows}) if s < t < e and gen.admissible(rows, t)]
        cutsets = [sel for k in range(min(len(cand), 3) + 1) for sel in itertools.combinations(cand, k)]
        dups = [(t, t) for t in cand[:2]] + [(s,), (e,)]
        for sel in cutsets + dups:
            parts = gen.chunk_rows(rows, [s, *sel, e])
            for rechunk, target in ((0, 1), (1, 1), (1, 2)):
                out.append((parts, rechunk, target))
    return out


def run(ctx):
    rng = ctx.rng
    dist = Counter()

    def nontriv(c, o):
        return len(c["chunks"]) >= 2 and sum(len(x["rows"]) for x in c["chunks"]) >= 2

    def branch(c, o):
        st = _SIDE[case_key(c)]["status"]
        extra = ""
        if st == "ok" and c["tamper"] == "none":
            n_out = len(o.split(" ## ")[2].split(" ")) - 1
            extra = ":same" if n_out == len(c["chunks"]) else (":fewer" if n_out < len(c["chunks"]) else ":more")
        elif st in ("load-err", "save-err"):
            extra = ":" + (o.split(" ")[1] if st == "save-err" else o.split(" ## ")[2].split(" ")[1])
        return f"re{c['rechunk']}:{c['tamper'].split(':')[0]}:{st}{extra}"

    def go(name, cases, rule, exhaustive=False):
        for c in cases:
            dist[f"enc={c['enc']}"] += 1
            dist[f"comp={c['comp']}"] += 1
            dist[f"exec=save{c['save_exec']}load{c['load_exec']}"] += 1
        outs, mouts = ctx.correspond(name, cases, impl, to_op, oracle, nontrivial=nontriv, rule=rule, exhaustive=exhaustive, branch=branch,
                                     in_hyp=lambda c, o: bool(_SIDE[case_key(c)].get("law") and _SIDE[case_key(c)].get("stor")))
        for c in cases:  # keep the side table small
            _SIDE.pop(case_key(c), None)
        return outs

    # 1. random law-abiding streams
    cases = []
    for _ in range(ctx.pick(1500, 14000)):
        sup = rng.random() < 0.2
        chunks = valid_stream(rng, superrun=sup)
        cases.append(base_case(rng, chunks, run_id="_sup" if sup else "r", hdr_target=chunks[0]["target"] if rng.random() < 0.8 else rng.randint(1, 9),
                               expect="valid"))
    # a few long ones (more than 500 rows in one chunk: the constructor only looks at the last 500; many chunks)
    for _ in range(ctx.pick(6, 40)):
        rows = gen.gen_rows(rng, rng.randint(520, 700), mode="disjoint", big_gap_p=0.02)
        s, e = gen.run_of(rng, rows)
        parts = gen.random_chunking(rng, rows, s, e, p_cut=rng.choice([0.002, 0.05]))
        cases.append(base_case(rng, [raw(a, b, rs, 50) for a, b, rs in parts], hdr_target=50, expect="valid"))
    cases.append(base_case(rng, [], expect="valid"))  # empty source: no chunks at all
    go("saveload/valid", cases,
       "random law-abiding streams (0..14 rows; disjoint/touching/overlapping/long rows; gaps > 1000 ns with p in {0,.1,.3,.6}; random cuts incl. "
       "duplicated cuts = zero-duration chunks and empty chunks; 15% super-run chunks with subruns) x 4 dtypes x 4 compressors x rechunk on/off "
       "(targets 1..6 rows) x serial/thread-pool saver x serial/thread-pool loader; plus runs of 520..700 rows; non-trivial = >= 2 chunks and >= 2 rows")

    # 2. exhaustive chunkings of tiny runs
    max_rows = ctx.pick(3, 4)
    ex = exhaustive_cases(max_rows)
    n_all = len(ex)
    cases = []
    for j, (parts, rechunk, target) in enumerate(ex):
        cases.append(dict(enc=ENCS[j % 4], comp=COMPRESSORS[(j // 4) % 4], rechunk=rechunk, save_exec=int(j % 7 == 0), load_exec=int(j % 5 == 0),
                          order_keys=[3, 1, 2, 0] if j % 7 == 0 else [],
                          run_id="r", data_type="d", kind="k", hdr_target=target, tamper="none", expect="valid",
                          chunks=[raw(a, b, rs, target) for a, b, rs in parts]))
    go("saveload/exhaustive", cases,
       f"every run of 1..{max_rows} positive-duration rows on a stretched 0..3 grid (2000 ns steps, 700 ns rows) x every chunking with <= 3 admissible interior cuts "
       f"+ duplicated cuts x (rechunk off | rechunk on with target 1, 2) = {n_all} cases",
       exhaustive=True)

    # 3. tampered directories (rejecting branches of the loader)
    cases = []
    for _ in range(ctx.pick(500, 5000)):
        chunks = valid_stream(rng, n_rows=rng.randint(1, 10))
        t = rng.choice(TAMPERS).format(j=rng.randint(0, 5), k=rng.randint(0, 5))
        cases.append(base_case(rng, chunks, tamper=t, hdr_target=chunks[0]["target"]))
    go("saveload/tampered", cases,
       "valid streams saved by the real saver, then the directory is tampered with (n +-1, file removed, filename dropped, run_id None / super-run id / "
       "other, filenames swapped, start/end shifted, chunk list emptied) before loading: loader verdict compared with the model")

    # 4. malformed streams
    cases = []
    for _ in range(ctx.pick(500, 5000)):
        chunks, why, kw = malformed_stream(rng)
        cases.append(base_case(rng, chunks, why=why, **kw))
    go("saveload/malformed", cases,
       "streams breaking one law or convention (gap, out of order, mixed data types / run ids, target 0, zero-length subrun, subruns on a plain run, "
       "super-run id without subruns, negative start, header target != chunk target, row outside its chunk): verdicts and what is left on disk "
       "compared with the model; plain round trip still demanded whenever every chunk is a valid chunk")

    # 4b. epoch-scale replicas: the same streams with every time + T0 (absolute ns timestamps as real data has them)
    pool_cases = [base_case(rng, (lambda ch: ch)(valid_stream(rng, superrun=rng.random() < 0.2)), expect="valid") for _ in range(ctx.pick(220, 2200))]
    for c in pool_cases:
        c["run_id"] = c["chunks"][0]["run_id"]
        c["hdr_target"] = c["chunks"][0]["target"]
    ex_sub = exhaustive_cases(3)
    ex_sub = ex_sub[:: max(1, len(ex_sub) // ctx.pick(150, 1500))]
    for j, (parts, rechunk, target) in enumerate(ex_sub):
        pool_cases.append(dict(enc=ENCS[j % 4], comp=COMPRESSORS[(j // 4) % 4], rechunk=rechunk, save_exec=int(j % 3 == 0), load_exec=int(j % 2 == 0),
                               order_keys=[2, 0, 1] if j % 3 == 0 else [], run_id="r", data_type="d", kind="k", hdr_target=target, tamper="none",
                               expect="valid", chunks=[raw(a, b, rs, target) for a, b, rs in parts]))
    tam = [base_case(rng, ch, tamper=rng.choice(TAMPERS).format(j=rng.randint(0, 5), k=rng.randint(0, 5)), hdr_target=ch[0]["target"])
           for ch in (valid_stream(rng, n_rows=rng.randint(1, 10)) for _ in range(ctx.pick(60, 600)))]
    go("saveload/epoch", [shift_case(c) for c in pool_cases + tam],
       f"replicas with every time shifted by T0 = {T0} ns (epoch scale): random law-abiding streams incl. super-runs, a slice of the "
       "exhaustive chunkings, tampered directories — same comparison and oracle as the unshifted components")

    # 5. zero-duration chunks inside super-runs (regression corpus of the fixed finding C03-zero-length-subrun, D31)
    cases = zero_subrun_cases(rng, ctx.pick(120, 1200))
    go("saveload/zero-length-subrun", cases,
       "super-run streams in which one sub-run contributes a zero-duration chunk followed by a chunk of another sub-run starting at the same "
       "time (optionally after an earlier sub-run; rechunk on/off; or one chunk carrying both spans), ids in either alphabetical order: the round trip is "
       "demanded for ALL of them (before the D31 fix it failed when both spans ended up in one stored chunk and the zero-length span's "
       "id sorted after the other's)")

    ctx.note("input distribution: " + ", ".join(f"{k}:{v}" for k, v in sorted(dist.items())))


def search(ctx):
    rng = ctx.rng
    cases = []
    for _ in range(3000):
        chunks = valid_stream(rng)
        cases.append(base_case(rng, chunks, hdr_target=chunks[0]["target"], expect="valid"))
    ctx.check_oracle("search/saveload", cases, impl, oracle)


def replay(ctx, body):
    if body.get("case") is None:
        return f"obligation {body['component']} has no input to replay (no-failing-input-found); re-run the check"
    case = body["case"]["case"]
    out = impl(case)
    print("implementation output:", out)
    return oracle(case, out)
