"""C11 — only what is missing is computed, and only what policy allows is saved.

Model: lean/StraxModel/Model/Components.lean (get_components / check_cache / _add_saver / _we_take / _get_plugins);
theorems: Props/C11.lean (27: totality `getComponents_ok_iff` / `errors_iff`, partial correctness `computed_iff` …,
combined `request_succeeds_and_is_correct`); lemmas: Lemmas/Components.lean.
Tie: (1) translator: Generated/ShouldSave.lean is regenerated from the AST of Context._target_should_be_saved, of the
SaveWhen enum and of two patterns in check_cache (whole `_target_should_be_saved` calls, the `"*"` test);
`gen_eq_model` re-proves it equal to the model's table; if the source is untranslatable those two theorems are marked
`stale` and the exhaustive differential run over the finite domain decides; (2) differential correspondence of the real
Context.get_components against the compiled driver on random DAGs of tiny real plugins x stored subsets prepared on
disk (twin context) x targets / save= / modifiers / forbid_creation_of / 1-2 frontends, all stored subsets of small
DAGs, four directed cyclic graphs, malformed requests; (3) real get_array / make runs (single-thread processor, 20 %
threaded_mailbox) whose per-plugin compute-call counters (exactly once per chunk) and directory changes are compared
with the driver's prediction and with the property wording.  The hypotheses of the totality theorems are evaluated on
every generated graph by the driver op `c11.topo`.
"""
from __future__ import annotations

import ast
import glob
import io
import itertools
import json
import contextlib
import logging
import os
import shutil
import tempfile

from lib import straxlib as sl          # must be the first strax import (private numba cache)
from lib.straxlib import strax
from lib.engine import LEAN, REPO

import numpy as np
from immutabledict import immutabledict

ID = "C11"
LEAN_MODULES = ["StraxModel.Props.C11", "StraxModel.Props.C11Gates"]
TRUSTED = [
    "translator (checks/props/c11.py:regen): AST of Context._target_should_be_saved, of class SaveWhen and of the two _temp_ patterns of "
    "check_cache -> Generated/ShouldSave.lean (untranslatable source: gen_eq_model / gen_values_eq_model reported `stale`, the exhaustive "
    "16 + 4 case differential run decides)",
    "modelled not verified: lineage hashing / DataDirectory.find reduced to three visibility lists per frontend (complete, *_temp, other-lineage); "
    "the harness prepares exactly those states on disk",
]
ASSUMPTIONS = [
    "superruns, combining and chunk_number requests are outside the model (C14)",
    "fuzzy matching combined with allow_incomplete is not generated (DataDirectory raises NotImplementedError)",
    "processor wiring of the returned components belongs to C01 (D13 was found there and is fixed)",
    "make(_skip_if_built=True) returns before get_iter when every target is stored: mirrored in the op line (no temporary merge plugin)",
    "ok-path theorems need no hypothesis on the graph; getComponents_ok_iff / errors_iff need topological order + unique providers, evaluated "
    "per generated graph by the driver op c11.topo (in_hypothesis); cyclic graphs: 4 directed cases (components/cyclic), not random ones",
    "'exactly once from exactly one origin' is a theorem about the returned components only; that the processors honour it is checked by the run "
    "stage (compute called exactly once per chunk per running plugin; single-thread processor, 20 % threaded_mailbox) and otherwise belongs to C01",
]

SW = strax.SaveWhen
POL_CODE = {SW.NEVER: "N", SW.EXPLICIT: "E", SW.TARGET: "T", SW.ALWAYS: "A"}
POL_OF = {v: k for k, v in POL_CODE.items()}
POL_LEAN = {"NEVER": "never", "EXPLICIT": "explicit", "TARGET": "target", "ALWAYS": "always"}


# ----------------------------------------------------------------------------- step 0: translator
class Untranslatable(Exception):
    pass


def _is_save_when_of_target(node):
    """target_plugin.save_when[target]"""
    return (isinstance(node, ast.Subscript) and isinstance(node.value, ast.Attribute) and node.value.attr == "save_when"
            and isinstance(node.value.value, ast.Name) and node.value.value.id == "target_plugin"
            and isinstance(node.slice, ast.Name) and node.slice.id == "target")


def _enum_member(node):
    """strax.SaveWhen.X / SaveWhen.X -> lean constructor"""
    if isinstance(node, ast.Attribute) and node.attr in POL_LEAN:
        v = node.value
        if (isinstance(v, ast.Attribute) and v.attr == "SaveWhen") or (isinstance(v, ast.Name) and v.id == "SaveWhen"):
            return "SaveWhen." + POL_LEAN[node.attr]
    return None


def _tr_expr(node):
    """boolean expression -> Lean Bool term"""
    if isinstance(node, ast.Constant) and isinstance(node.value, bool):
        return "true" if node.value else "false"
    if isinstance(node, ast.UnaryOp) and isinstance(node.op, ast.Not):
        return f"(!{_tr_expr(node.operand)})"
    if isinstance(node, ast.BoolOp):
        op = " && " if isinstance(node.op, ast.And) else " || "
        return "(" + op.join(_tr_expr(v) for v in node.values) + ")"
    if isinstance(node, ast.Compare) and len(node.ops) == 1:
        l, op, r = node.left, node.ops[0], node.comparators[0]
        if isinstance(op, (ast.In, ast.NotIn)) and isinstance(l, ast.Name) and l.id == "target" and isinstance(r, ast.Name) \
                and r.id in ("save", "targets"):
            v = "inSave" if r.id == "save" else "inTargets"
            return v if isinstance(op, ast.In) else f"(!{v})"

        def side(n):
            if _is_save_when_of_target(n):
                return "pol"
            return _enum_member(n)
        a, b = side(l), side(r)
        if a and b:
            sym = {ast.Eq: "==", ast.NotEq: "!=", ast.Lt: "<", ast.LtE: "<=", ast.Gt: ">", ast.GtE: ">="}.get(type(op))
            if sym in ("==", "!="):
                return f"({a} {sym} {b})"
            if sym:
                return f"(decide (saveWhenValue {a} {sym} saveWhenValue {b}))"
    raise Untranslatable(ast.dump(node)[:120])


def _tr_block(stmts):
    """statement list -> Lean term of type Except Err Bool (fall-through handled by continuation duplication)"""
    if not stmts:
        raise Untranslatable("function can fall off its end (returns None)")
    s, rest = stmts[0], stmts[1:]
    if isinstance(s, ast.Expr) and isinstance(s.value, ast.Constant) and isinstance(s.value.value, str):
        return _tr_block(rest)                      # docstring
    if isinstance(s, ast.Return):
        if isinstance(s.value, ast.Constant) and isinstance(s.value.value, bool):
            return ".ok " + ("true" if s.value.value else "false")
        return f".ok {_tr_expr(s.value)}"
    if isinstance(s, ast.Raise):
        exc = s.exc.func if isinstance(s.exc, ast.Call) else s.exc
        name = exc.id if isinstance(exc, ast.Name) else getattr(exc, "attr", None)
        kinds = {"ValueError": "valueError", "DataNotAvailable": "dataNotAvailable", "RuntimeError": "runtimeError",
                 "KeyError": "keyError"}
        if name not in kinds:
            raise Untranslatable(f"raise {name}")
        return f".error .{kinds[name]}"
    if isinstance(s, ast.If):
        return f"(if {_tr_expr(s.test)} then {_tr_block(list(s.body) + rest)} else {_tr_block(list(s.orelse) + rest)})"
    if isinstance(s, ast.Pass):
        return _tr_block(rest)
    raise Untranslatable(type(s).__name__)


def translate_should_save():
    src = (REPO / "strax" / "context.py").read_text()
    fn = next((n for n in ast.walk(ast.parse(src)) if isinstance(n, ast.FunctionDef) and n.name == "_target_should_be_saved"), None)
    if fn is None:
        raise Untranslatable("_target_should_be_saved not found")
    if [a.arg for a in fn.args.args] != ["target_plugin", "target", "targets", "save"]:
        raise Untranslatable("unexpected signature")
    body = _tr_block(list(fn.body))
    psrc = (REPO / "strax" / "plugins" / "plugin.py").read_text()
    cls = next((n for n in ast.walk(ast.parse(psrc)) if isinstance(n, ast.ClassDef) and n.name == "SaveWhen"), None)
    if cls is None:
        raise Untranslatable("class SaveWhen not found")
    vals = {}
    for st in cls.body:
        if isinstance(st, ast.Assign) and len(st.targets) == 1 and isinstance(st.targets[0], ast.Name):
            v = ast.literal_eval(st.value)
            if not isinstance(v, int) or v < 0:
                raise Untranslatable("SaveWhen member is not a natural number")
            vals[st.targets[0].id] = v
    if set(vals) != set(POL_LEAN):
        raise Untranslatable(f"SaveWhen members {sorted(vals)}")
    return body, vals


def _same_ast(node, expected_src, mode="eval"):
    """formatting-insensitive comparison of an AST node with the expected source text"""
    exp = ast.parse(expected_src, mode=mode)
    exp = exp.body if mode == "eval" else exp.body[0]
    return node is not None and ast.dump(node) == ast.dump(exp)


def translate_rules():
    """Two details of get_components around the temporary merge plugin, read off the AST of check_cache: what is handed to
    _target_should_be_saved (the WHOLE call is checked: plugin, data type, targets, save), and whether the `"*"` test skips
    `_temp_` types.  Comparisons are on AST dumps, so re-wrapping / re-formatting the source does not matter."""
    src = (REPO / "strax" / "context.py").read_text()
    gc = next((n for n in ast.walk(ast.parse(src)) if isinstance(n, ast.FunctionDef) and n.name == "get_components"), None)
    cc = next((n for n in ast.walk(gc) if isinstance(n, ast.FunctionDef) and n.name == "check_cache"), None) if gc else None
    if cc is None:
        raise Untranslatable("check_cache not found")
    calls = sorted((n for n in ast.walk(cc) if isinstance(n, ast.Call) and isinstance(n.func, ast.Attribute)
                    and n.func.attr == "_target_should_be_saved"), key=lambda n: (n.lineno, n.col_offset))
    if len(calls) != 2:
        raise Untranslatable(f"{len(calls)} calls of _target_should_be_saved in check_cache (expected 2)")
    variants = {}
    for tg in ("targets", "final_targets"):
        variants[tg] = [f"self._target_should_be_saved(target_plugin, target_i, {tg}, save)",
                        f"self._target_should_be_saved(target_plugin, d_to_save, {tg}, save)"]
    which = [tg for tg, exp in variants.items() if all(_same_ast(c, e) for c, e in zip(calls, exp))]
    if len(which) != 1:
        raise Untranslatable("calls of _target_should_be_saved are not (target_plugin, target_i|d_to_save, [final_]targets, save)")
    if which[0] == "targets":
        temp_deps = False
    else:
        assign = next((n for n in ast.walk(gc) if isinstance(n, ast.Assign) and len(n.targets) == 1
                       and isinstance(n.targets[0], ast.Name) and n.targets[0].id == "final_targets"), None)
        if assign is None or not _same_ast(assign.value, "tuple(d for t in targets for d in (plugins[t].depends_on "
                                                         "if t.startswith(TEMP_DATA_TYPE_PREFIX) else (t,)))"):
            raise Untranslatable("final_targets is not `targets with every _temp_ target replaced by its depends_on`")
        # ... and it must not be re-assigned anywhere else
        if sum(1 for n in ast.walk(gc) if isinstance(n, ast.Name) and n.id == "final_targets" and isinstance(n.ctx, ast.Store)) != 1:
            raise Untranslatable("final_targets assigned more than once")
        temp_deps = True
    star = None
    for n in ast.walk(cc):
        if isinstance(n, ast.If):
            if _same_ast(n.test, '"*" in self.context_config["forbid_creation_of"]'):
                star = False if star is None else "twice"
            elif _same_ast(n.test, '"*" in self.context_config["forbid_creation_of"] and not target_i.startswith(TEMP_DATA_TYPE_PREFIX)'):
                star = True if star is None else "twice"
    if star is None or star == "twice":
        raise Untranslatable('test `"*" in forbid_creation_of` not recognised')
    return temp_deps, star


STALE = {}   # generated definition name -> reason, when the current source could not be translated


# ---- round 5: the scalar decisions ("gates") of check_cache, StorageFrontend.find / _we_take / _support_superruns, _add_saver
ERR_KINDS = {"ValueError": "valueError", "DataNotAvailable": "dataNotAvailable", "RuntimeError": "runtimeError", "KeyError": "keyError",
             "NotImplementedError": "notImplemented"}
SW_SUBJECT = "target_plugin.save_when[target_i]"


def _gate_expr(node, atoms, local):
    """boolean expression over a fixed vocabulary of atoms (source text -> Lean variable) -> Lean Bool term"""
    for src, lean in atoms.items():
        if _same_ast(node, src):
            return lean
    if isinstance(node, ast.Name) and node.id in local:
        return local[node.id]
    if isinstance(node, ast.Constant) and isinstance(node.value, bool):
        return "true" if node.value else "false"
    if isinstance(node, ast.UnaryOp) and isinstance(node.op, ast.Not):
        return f"(!{_gate_expr(node.operand, atoms, local)})"
    if isinstance(node, ast.BoolOp):
        op = " && " if isinstance(node.op, ast.And) else " || "
        return "(" + op.join(_gate_expr(v, atoms, local) for v in node.values) + ")"
    if isinstance(node, ast.Compare) and len(node.ops) == 1:
        def side(n):
            return "pol" if _same_ast(n, SW_SUBJECT) else _enum_member(n)
        a, b = side(node.left), side(node.comparators[0])
        sym = {ast.Eq: "==", ast.NotEq: "!=", ast.Lt: "<", ast.LtE: "<=", ast.Gt: ">", ast.GtE: ">="}.get(type(node.ops[0]))
        if a and b and sym in ("==", "!="):
            return f"({a} {sym} {b})"
        if a and b and sym:
            return f"(decide (saveWhenValue {a} {sym} saveWhenValue {b}))"
    raise Untranslatable("expression " + ast.unparse(node)[:100])


def _gate_block(stmts, atoms, *, ret=None, cont=None, stop=None, skip=None, end=None, local=None):
    """statement list -> Lean term.  `ret(stmt)`: term of a Return; `cont`: term of a Continue; `stop(stmt)`: term when the statement
    ends the translated region (None = not an end marker); `skip(stmt)`: statement without influence on the decision; `end`: term when
    the list runs out.  Fall-through of an `if` is handled by continuation duplication."""
    local = dict(local or {})
    if not stmts:
        if end is None:
            raise Untranslatable("region ends without a decision")
        return end
    s, rest = stmts[0], stmts[1:]
    kw = dict(ret=ret, cont=cont, stop=stop, skip=skip, end=end)
    if stop is not None:
        t = stop(s)
        if t is not None:
            return t
    if isinstance(s, ast.Expr) and isinstance(s.value, ast.Constant) and isinstance(s.value.value, str):
        return _gate_block(rest, atoms, local=local, **kw)
    if isinstance(s, ast.Pass) or (skip is not None and skip(s)):
        return _gate_block(rest, atoms, local=local, **kw)
    if isinstance(s, ast.Return):
        if ret is None:
            raise Untranslatable("return")
        return ret(s, local)
    if isinstance(s, ast.Continue):
        if cont is None:
            raise Untranslatable("continue")
        return cont
    if isinstance(s, ast.Raise):
        exc = s.exc.func if isinstance(s.exc, ast.Call) else s.exc
        name = exc.id if isinstance(exc, ast.Name) else getattr(exc, "attr", None)
        if name not in ERR_KINDS:
            raise Untranslatable(f"raise {name}")
        return f".error .{ERR_KINDS[name]}"
    if isinstance(s, ast.Assign) and len(s.targets) == 1 and isinstance(s.targets[0], ast.Name):
        local[s.targets[0].id] = _gate_expr(s.value, atoms, local)      # a local boolean: substituted
        return _gate_block(rest, atoms, local=local, **kw)
    if isinstance(s, ast.If):
        return (f"(if {_gate_expr(s.test, atoms, local)} then {_gate_block(list(s.body) + rest, atoms, local=local, **kw)} "
                f"else {_gate_block(list(s.orelse) + rest, atoms, local=local, **kw)})")
    raise Untranslatable("statement " + ast.unparse(s)[:80])


def _func(tree, name, inside=None):
    root = tree if inside is None else inside
    fns = [n for n in ast.walk(root) if isinstance(n, ast.FunctionDef) and n.name == name]
    if len(fns) != 1:
        raise Untranslatable(f"{len(fns)} definitions of {name}")
    return fns[0]


def _message_only(s):
    """statements that only build an error / log message"""
    if isinstance(s, (ast.Assign, ast.AugAssign)):
        tg = s.targets[0] if isinstance(s, ast.Assign) else s.target
        return isinstance(tg, ast.Name) and tg.id in ("error_message", "message")
    if isinstance(s, ast.If) and not s.orelse:
        return all(_message_only(b) for b in s.body)
    if isinstance(s, ast.Expr) and isinstance(s.value, ast.Call):
        return ast.unparse(s.value.func) in ("self.log.warning", "self.log.debug", "self.log.info", "self._check_forbidden")
    return False


def translate_gates():
    """-> dict name -> Lean body, for the definitions of Generated/CheckCache.lean"""
    ctree = ast.parse((REPO / "strax" / "context.py").read_text())
    stree = ast.parse((REPO / "strax" / "storage" / "common.py").read_text())
    front = next((n for n in ast.walk(stree) if isinstance(n, ast.ClassDef) and n.name == "StorageFrontend"), None)
    if front is None:
        raise Untranslatable("class StorageFrontend not found")
    out = {}
    ret_bool = lambda atoms: (lambda s, local: _gate_expr(s.value, atoms, local))  # noqa: E731

    # StorageFrontend._we_take(data_type)
    fn = _func(stree, "_we_take", front)
    atoms = {"data_type in self.exclude": "inExclude", "data_type not in self.exclude": "(!inExclude)", "self.take_only": "takeOnlyGiven",
             "data_type in self.take_only": "inTakeOnly", "data_type not in self.take_only": "(!inTakeOnly)"}
    out["weTake"] = _gate_block(list(fn.body), atoms, ret=ret_bool(atoms))

    # StorageFrontend._support_superruns(run_id)
    fn = _func(stree, "_support_superruns", front)
    atoms = {'run_id.startswith("_")': "isSuperrun", "self.provide_superruns": "provideSuperruns"}
    out["supportSuperruns"] = _gate_block(list(fn.body), atoms, ret=ret_bool(atoms))

    # StorageFrontend.find: everything before the first `try` (the lookup itself)
    fn = _func(stree, "find", front)
    atoms = {"self._we_take(key.data_type)": "weTake", "self._support_superruns(key.run_id)": "supportSuper", "write": "write",
             "self.readonly": "readonly"}
    out["findGate"] = _gate_block(list(fn.body), atoms, skip=_message_only,
                                  stop=lambda s: ".ok ()" if isinstance(s, ast.Try) else None)

    # Context._add_saver: the body of `for sf in self._sorted_storage`
    fn = _func(ctree, "_add_saver")
    loops = [n for n in ast.walk(fn) if isinstance(n, ast.For)]
    if len(loops) != 1 or not _same_ast(loops[0].iter, "self._sorted_storage") or not (isinstance(loops[0].target, ast.Name) and loops[0].target.id == "sf") or loops[0].orelse:
        raise Untranslatable("_add_saver is not one loop `for sf in self._sorted_storage`")

    def saver_try(s):
        if not isinstance(s, ast.Try):
            return None
        first = s.body[0] if s.body else None
        call = first.value if isinstance(first, ast.Assign) else None
        if not (isinstance(call, ast.Call) and _same_ast(call.func, "sf.saver") and call.args and _same_ast(call.args[0], "key")):
            raise Untranslatable("try block of _add_saver does not start with `saver = sf.saver(key, ...)`")
        if s.orelse or s.finalbody or len(s.handlers) != 1 or not _same_ast(s.handlers[0].type, "strax.DataNotAvailable") \
                or not all(isinstance(b, ast.Pass) for b in s.handlers[0].body):
            raise Untranslatable("handler of the try block of _add_saver is not `except strax.DataNotAvailable: pass`")
        # sf.saver(key, ...) = find(key, write=True) first; DataNotAvailable means "this frontend does not save"
        return ("(match findGate weTake supportSuper true readonly with | .ok _ => .ok true | .error .dataNotAvailable => .ok false "
                "| .error e => .error e)")
    out["addSaverTakes"] = _gate_block(list(loops[0].body), {"sf.readonly": "readonly"}, cont=".ok false", stop=saver_try)

    # check_cache: three regions around `if loader:`
    cc = _func(ctree, "check_cache", _func(ctree, "get_components"))
    idx = [i for i, s in enumerate(cc.body) if isinstance(s, ast.If) and _same_ast(s.test, "loader") and s.orelse]
    if len(idx) != 1 or idx[0] == 0:
        raise Untranslatable("check_cache has no unique top-level `if loader: ... else: ...`")
    i = idx[0]
    stored = cc.body[i]
    if not (stored.body and _same_ast(stored.body[0], "loaders[target_i] = loader", "exec")
            and not any(isinstance(n, (ast.Raise, ast.Return, ast.Call)) for b in stored.body for n in ast.walk(b))):
        raise Untranslatable("the `if loader:` branch of check_cache does more than record the loader")
    flags = {"loader": "loaded", "is_superrun": "isSuperrun", "allow_superrun": "allowSuperrun", "combining": "combining",
             "target_i.startswith(TEMP_DATA_TYPE_PREFIX)": "isTemp", "time_range is not None": "timeRange"}
    # (a) the sub-run collection branch just before it
    sub = cc.body[i - 1]
    if not (isinstance(sub, ast.If) and not sub.orelse and any(_same_ast(n, "self.make", "eval") for n in ast.walk(sub) if isinstance(n, ast.Attribute))):
        raise Untranslatable("statement before `if loader:` is not the sub-run collection branch")
    out["subrunBranch"] = _gate_expr(sub.test, flags, {})
    # (b) nothing stored: may it be created?
    atoms = dict(flags, **{'"*" in self.context_config["forbid_creation_of"]': "starIn",
                           'target_i in self.context_config["forbid_creation_of"]': "nameIn"})
    out["createGate"] = _gate_block(list(stored.orelse), atoms, skip=_message_only,
                                    stop=lambda s: ".ok ()" if _same_ast(s, "to_compute[target_i] = target_plugin", "exec") else None)
    # (c) after the recursion: is the saver loop reached?
    atoms = dict(flags, **{'self.context_config["write_superruns"]': "writeSuperruns",
                           "self._target_should_be_saved(target_plugin, target_i, final_targets, save)": "should",
                           "self._target_should_be_saved(target_plugin, target_i, targets, save)": "should",
                           "target_plugin.multi_output": "multiOutput", "selection is not None": "selection",
                           "keep_columns is not None": "keepColumns", "drop_columns is not None": "dropColumns",
                           'any([len(v) > 0 for k, v in self._find_options.items() if "fuzzy" in k])': "fuzzy",
                           'self.context_config["allow_incomplete"]': "allowIncomplete"})

    def skip_c(s):
        if isinstance(s, ast.Assign) and len(s.targets) == 1 and isinstance(s.targets[0], ast.Name) and s.targets[0].id == "current_plugin_to_savers":
            return True
        return _message_only(s)

    def ret_c(s, local):
        if s.value is not None:
            raise Untranslatable("check_cache returns a value")
        return "false"
    out["saveGate"] = _gate_block(list(cc.body[i + 1:]), atoms, ret=ret_c, skip=skip_c,
                                  stop=lambda s: "true" if isinstance(s, ast.If) and _same_ast(s.test, "not combining") else None)
    return out


GATE_SIGS = [
    ("weTake", "(inExclude takeOnlyGiven inTakeOnly : Bool) : Bool", "StorageFrontend._we_take"),
    ("supportSuperruns", "(isSuperrun provideSuperruns : Bool) : Bool", "StorageFrontend._support_superruns"),
    ("findGate", "(weTake supportSuper write readonly : Bool) : Except Err Unit",
     "StorageFrontend.find up to the lookup (`.ok ()` = goes on to look the key up)"),
    ("addSaverTakes", "(readonly weTake supportSuper : Bool) : Except Err Bool",
     "one round of the loop of Context._add_saver: does this frontend get a saver"),
    ("subrunBranch", "(loaded isSuperrun allowSuperrun combining isTemp : Bool) : Bool",
     "check_cache: condition of the sub-run collection branch"),
    ("createGate", "(timeRange : Bool) (pol : SaveWhen) (starIn isTemp nameIn : Bool) : Except Err Unit",
     "check_cache, nothing stored: the checks before the type is scheduled for computation"),
    ("saveGate", "(isTemp loaded isSuperrun writeSuperruns should multiOutput timeRange selection keepColumns dropColumns fuzzy "
                 "allowIncomplete : Bool) : Bool",
     "check_cache after the recursion: is the saver loop reached (`should` = result of the first _target_should_be_saved call, "
     "which is evaluated only when isTemp, loaded and the superrun test let it)"),
]


def regen_gates(ctx):
    out = LEAN / "StraxModel" / "Generated" / "CheckCache.lean"
    try:
        bodies = translate_gates()
    except (Untranslatable, SyntaxError, OSError) as e:
        ctx.translator["check_cache.gates"] = f"untranslatable: {e}"
        STALE["gates"] = str(e)
        ctx.note(f"translator could not handle the gates of check_cache / find / _add_saver ({e}); Generated/CheckCache.lean is the PREVIOUS translation")
        ctx.violation("translator:check_cache_gates", "translator", None, {"reason": str(e)},
                      "translator regenerates Generated/CheckCache.lean (weTake, supportSuperruns, findGate, addSaverTakes, subrunBranch, "
                      "createGate, saveGate) from the source of check_cache, StorageFrontend.find / _we_take / _support_superruns, _add_saver", False)
        return
    ctx.translator["check_cache.gates"] = "ok"
    text = ("-- GENERATED by checks/props/c11.py:regen from /repo/strax/context.py (check_cache, Context._add_saver) and\n"
            "-- /repo/strax/storage/common.py (StorageFrontend.find, _we_take, _support_superruns). Do not edit.\n"
            "import StraxModel.Generated.ShouldSave\n"
            "namespace Strax.Generated\n"
            "open Strax Strax.Components\n\n"
            + "".join(f"/-- {doc} -/\ndef {name} {sig} :=\n  {bodies[name]}\n\n" for name, sig, doc in GATE_SIGS)
            + "end Strax.Generated\n")
    if not out.exists() or out.read_text() != text:
        out.write_text(text)


def regen(ctx):
    regen_gates(ctx)
    _regen_should_save(ctx)


def _regen_should_save(ctx):
    out = LEAN / "StraxModel" / "Generated" / "ShouldSave.lean"
    try:
        temp_deps, star = translate_rules()
        ctx.translator["check_cache.rules"] = dict(tempDepsAreTargets=temp_deps, starSkipsTemp=star)
    except Untranslatable as e:
        ctx.translator["check_cache.rules"] = f"untranslatable: {e}"
        STALE["rules"] = str(e)
        ctx.note(f"translator could not read the _temp_ rules of check_cache ({e}): Generated.rules keeps its previous value; no theorem "
                 "depends on that value (all hold for both), the components/* differential runs decide whether it still matches")
        prev = out.read_text() if out.exists() else ""
        temp_deps, star = "tempDepsAreTargets := true" in prev, "starSkipsTemp := true" in prev
    prev = out.read_text() if out.exists() else ""
    try:
        body, vals = translate_should_save()
        ctx.translator["_target_should_be_saved"] = "ok"
        ctx.translator["SaveWhen"] = vals
        section = ("def saveWhenValue : SaveWhen → Nat\n"
                   + "".join(f"  | .{POL_LEAN[k]} => {vals[k]}\n" for k in ("NEVER", "EXPLICIT", "TARGET", "ALWAYS"))
                   + "\ndef shouldSave (pol : SaveWhen) (inTargets inSave : Bool) : Except Err Bool :=\n"
                   f"  {body}\n\n")
    except Untranslatable as e:
        ctx.translator["_target_should_be_saved"] = f"untranslatable: {e}"
        STALE["shouldSave"] = str(e)
        # the previous translation stays in place (so the library still builds); `gen_eq_model` is then NOT about the current
        # source: _run marks it `stale` and lets the exhaustive differential run over the finite domain decide (DESIGN §2.2)
        ctx.note(f"translator could not handle _target_should_be_saved ({e}); Generated.shouldSave is the PREVIOUS translation")
        a, b = prev.find("def saveWhenValue"), prev.find("/-- how check_cache")
        if a < 0 or b < 0:
            return
        section = prev[a:b]
    text = ("-- GENERATED by checks/props/c11.py:regen from /repo/strax/context.py (Context._target_should_be_saved,\n"
            "-- check_cache) and /repo/strax/plugins/plugin.py (class SaveWhen). Do not edit.\n"
            "import StraxModel.Model.Components\n"
            "namespace Strax.Generated\n"
            "open Strax Strax.Components\n\n"
            + section +
            "/-- how check_cache treats the temporary merge plugin (see `Components.Rules`) -/\n"
            f"def rules : Rules := {{ tempDepsAreTargets := {str(temp_deps).lower()}, starSkipsTemp := {str(star).lower()} }}\n\n"
            "end Strax.Generated\n")
    if not out.exists() or out.read_text() != text:
        out.write_text(text)


# ----------------------------------------------------------------------------- real plugin classes, worlds on disk
logging.getLogger("strax").setLevel(logging.CRITICAL)
RUN = "0"
COUNTS: dict = {}
_BASE = None


def base_dir():
    global _BASE
    if _BASE is None or not os.path.isdir(_BASE):
        _BASE = tempfile.mkdtemp(prefix="c11_")
        import atexit
        atexit.register(lambda p=_BASE, pid=os.getpid(): shutil.rmtree(p, ignore_errors=True) if os.getpid() == pid else None)
    return _BASE


def dtype_of(t):
    return strax.time_fields + [((f"Value of {t}", f"v_{t}"), np.int64)]


def mk_class(idx, outs, deps, always=False):
    """one tiny REAL strax plugin class; `always` gives the twin (same name, version, options -> same lineage)"""
    name = f"P{idx}"
    provides = tuple(o for o, _ in outs)
    multi = len(provides) > 1
    pol = {o: (SW.ALWAYS if always else POL_OF[c]) for o, c in outs}
    attrs = dict(provides=provides, depends_on=tuple(deps), __version__="1", rechunk_on_save=False,
                 save_when=immutabledict(pol) if multi else pol[provides[0]],
                 dtype={o: dtype_of(o) for o in provides} if multi else dtype_of(provides[0]),
                 data_kind={o: "k" for o in provides} if multi else "k")
    if not deps:
        def is_ready(self, chunk_i):
            return chunk_i < 2

        def source_finished(self):
            return True

        def compute(self, chunk_i):
            COUNTS[name] = COUNTS.get(name, 0) + 1
            res = {}
            for o in self.provides:
                r = np.zeros(2, self.dtype_for(o))
                r["time"] = chunk_i * 10 + np.arange(2) * 3
                r["endtime"] = r["time"] + 2
                r[f"v_{o}"] = chunk_i
                res[o] = self.chunk(start=chunk_i * 10, end=chunk_i * 10 + 10, data=r, data_type=o)
            return res if self.multi_output else res[self.provides[0]]
        attrs.update(is_ready=is_ready, source_finished=source_finished, compute=compute)
    else:
        def compute(self, k):
            COUNTS[name] = COUNTS.get(name, 0) + 1
            res = {}
            for o in self.provides:
                r = np.zeros(len(k), self.dtype_for(o))
                r["time"] = k["time"]
                r["endtime"] = k["endtime"]
                res[o] = r
            return res if self.multi_output else res[self.provides[0]]
        attrs.update(compute=compute)
    cls = type(name, (strax.Plugin,), attrs)
    return strax.takes_config(strax.Option("ver", default=0, track=True, type=int))(cls)


def mk_temp_class(name, deps):
    return type(name, (strax.MergeOnlyPlugin,), dict(depends_on=tuple(deps)))


class ZzDummy(strax.Plugin):
    """isolated type used as `fuzzy_for` value: switches fuzzy matching on without making any other lineage match"""
    provides = "zz_dummy"
    depends_on = ()
    dtype = strax.time_fields
    __version__ = "1"

    def compute(self, chunk_i):
        raise RuntimeError("never computed")


def register_all(st, plugins, always=False):
    st.register(ZzDummy)
    for i, p in enumerate(plugins):
        if p["outs"][0][0].startswith("_temp_"):
            st.register(mk_temp_class(p["outs"][0][0], p["deps"]))
        else:
            st.register(mk_class(i, p["outs"], p["deps"], always))


def new_context(storage, **kw):
    return strax.Context(storage=storage, **kw)


class World:
    """classes of one graph + two pools of stored data (exact lineage / other lineage) made by the twin context"""

    def __init__(self, plugins, nopool=False):
        self.plugins = plugins
        self.dir = tempfile.mkdtemp(prefix="w_", dir=base_dir())
        self.types = [o for p in plugins for o, _ in p["outs"] if not o.startswith("_temp_")]
        self.pool = {}
        for kind, ver in (() if nopool else (("exact", 0), ("stale", 1))):
            d = os.path.join(self.dir, "pool_" + kind)
            twin = new_context([strax.DataDirectory(d)], config=dict(ver=ver))
            register_all(twin, [p for p in plugins if not p["outs"][0][0].startswith("_temp_")], always=True)
            for t in self.types:
                twin.make(RUN, t)
            self.pool[kind] = {}
            for path in glob.glob(os.path.join(d, RUN + "-*-*")):
                self.pool[kind][os.path.basename(path).split("-")[1]] = path
            missing = set(self.types) - set(self.pool[kind])
            assert not missing, f"twin context did not store {missing}"
        self.state_key = None
        self.st = None
        self.front_dirs = []
        self.expected = []

    def close(self):
        shutil.rmtree(self.dir, ignore_errors=True)

    # -- a storage state: the frontends' directories hold exactly the requested subsets
    def set_state(self, fronts):
        key = repr(fronts)
        if key != self.state_key:
            for d in self.front_dirs:
                shutil.rmtree(d, ignore_errors=True)
            self.front_dirs = [tempfile.mkdtemp(prefix=f"f{i}_", dir=self.dir) for i in range(len(fronts))]
            self.expected = []
            for f in fronts:
                exp = {}
                for t in f["complete"]:
                    exp[os.path.basename(self.pool["exact"][t])] = self.pool["exact"][t]
                for t in f["incomplete"]:
                    if t not in f["complete"]:
                        exp[os.path.basename(self.pool["exact"][t]) + "_temp"] = self.pool["exact"][t]
                for t in f["stale"]:
                    exp[os.path.basename(self.pool["stale"][t])] = self.pool["stale"][t]
                self.expected.append(exp)
            sfs = []
            for f, d in zip(fronts, self.front_dirs):
                sf = strax.DataDirectory(d, readonly=bool(f["ro"]), take_only=tuple(f["take"]), exclude=tuple(f["excl"]))
                sf.storage_type = strax.StorageType(f["st"])
                sfs.append(sf)
            self.st = new_context(sfs)
            register_all(self.st, self.plugins)
            self.state_key = key
        self.restore()
        return self.st

    def restore(self):
        for d, exp in zip(self.front_dirs, self.expected):
            have = set(os.listdir(d))
            for name in have - set(exp):
                shutil.rmtree(os.path.join(d, name), ignore_errors=True)
            for name in set(exp) - have:
                dst = os.path.join(d, name)
                shutil.copytree(exp[name], dst)
                if name.endswith("_temp"):
                    # what an interrupted saver leaves behind: all chunks so far, metadata without `writing_ended`
                    for mdp in glob.glob(os.path.join(dst, "*-metadata.json")):
                        md = json.loads(open(mdp).read())
                        md.pop("writing_ended", None)
                        open(mdp, "w").write(json.dumps(md))

    def listing(self):
        return [set(os.listdir(d)) for d in self.front_dirs]


_WORLD = {"key": None, "world": None}


def world_for(case):
    key = repr((case["plugins"], case.get("nopool")))
    if _WORLD["key"] != key:
        if _WORLD["world"] is not None:
            _WORLD["world"].close()
        _WORLD["world"] = World(case["plugins"], nopool=bool(case.get("nopool")))
        _WORLD["key"] = key
    return _WORLD["world"]


def close_world():
    if _WORLD["world"] is not None:
        _WORLD["world"].close()
    _WORLD["world"] = None
    _WORLD["key"] = None


def request_kwargs(case):
    kw = {}
    m = case["mods"]
    if m["tr"]:
        kw["time_range"] = (0, 20)
    if m["sel"]:
        kw["selection"] = "time >= 0"
    if m["col"] == "keep":
        kw["keep_columns"] = ("time", "endtime")
    elif m["col"] == "drop":
        kw["drop_columns"] = ("endtime",)
    return kw


def configure(st, case):
    fuzzy = case["fuzzy"]
    st.set_context_config(dict(
        forbid_creation_of=tuple(case["forbid"]),
        fuzzy_for=("zz_dummy",) if fuzzy == "for" else tuple(),
        fuzzy_for_options=("ver",) if fuzzy == "opts" else tuple(),
        allow_incomplete=bool(case["inc"]), timeout=60))


def frontend_index(world, path):
    path = os.path.realpath(path)
    for i, d in enumerate(world.front_dirs):
        if path.startswith(os.path.realpath(d) + os.sep):
            return i
    raise AssertionError(f"path {path} outside the prepared frontends")


def join(xs, sep=","):
    xs = list(xs)
    return sep.join(xs) if xs else "-"


# ----------------------------------------------------------------------------- adapters: get_components
def quiet(f):
    def g(case):
        with contextlib.redirect_stdout(io.StringIO()):
            return f(case)
    g.__name__ = f.__name__
    return g


@quiet
def impl_comp(case):
    world = world_for(case)
    st = world.set_state(case["fronts"])
    configure(st, case)
    try:
        try:
            c = st.get_components(RUN, targets=tuple(case["targets"]), save=tuple(case["save"]), **request_kwargs(case))
        except Exception as e:  # noqa: BLE001
            return "err " + sl.err_name(e)
        loaders = sorted(f"{t}@{st.storage.index(l.func.__self__)}" for t, l in c.loaders.items())
        for t, p in c.plugins.items():
            assert t in p.provides, "plugins[t] does not provide t"
        assert set(c.loader_plugins) == set(c.loaders)
        savers = sorted(t + "@" + "+".join(str(frontend_index(world, s.dirname)) for s in ss) for t, ss in c.savers.items() if ss)
        targets = tuple(case["targets"])
        if len(targets) > 1:
            # Python subscribes an arbitrary element of this set; print the set (the oracle checks the choice)
            cands = sorted((set(targets) & set(st._get_end_targets(c.plugins))) - set(c.loaders))
            chosen = "" if tuple(c.targets) in {(x,) for x in cands} or (not cands and c.targets == ()) else "!bad-final=" + join(c.targets)
            final = join(cands, "|") + chosen
        else:
            final = join(c.targets, "|")
        return f"ok L={join(loaders)} P={join(sorted(c.plugins))} S={join(savers)} T={final}"
    finally:
        world.restore()


def show_plugin(p):
    return ",".join(f"{o}:{c}" for o, c in p["outs"]) + "/" + join(p["deps"])


def show_front(f, fuzzy=None):
    # `stale` = stored under a lineage that matches only through the fuzzy options of the request: data made with another value
    # of option `ver` matches under fuzzy_for_options=("ver",) but not under fuzzy_for=("zz_dummy",)
    stale = [] if fuzzy == "for" else f["stale"]
    return "|".join([str(int(f["ro"])), str(f["st"]), join(f["take"]), join(f["excl"]), join(f["complete"]),
                     join(f["incomplete"]), join(stale)])


def op_args(case, plugins=None, targets=None):
    m = case["mods"]
    mods = f"{int(m['tr'])}{int(m['sel'])}{int(m['col'] is not None)}"
    opts = f"{int(case['fuzzy'] is not None)}{int(case['inc'])}"
    return " ".join([join((show_plugin(p) for p in (plugins or case["plugins"])), ";"), join((show_front(f, case["fuzzy"]) for f in case["fronts"]), ";"),
                     join(targets or case["targets"]), join(case["save"]), mods, opts, join(case["forbid"])])


def op_comp(case):
    return "c11.comp " + op_args(case)


# -- the property's own wording, evaluated without the model
def visible(case, f, t):
    takes = not (t in f["excl"] or (f["take"] and t not in f["take"]))
    return takes and (t in f["complete"] or (case["inc"] and t in f["incomplete"]) or (case["fuzzy"] == "opts" and t in f["stale"]))


def sorted_fronts(case):
    return sorted(range(len(case["fronts"])), key=lambda i: case["fronts"][i]["st"])


def origin(case, t):
    for i in sorted_fronts(case):
        if visible(case, case["fronts"][i], t):
            return i
    return None


def wording(case, targets):
    """what the property says must happen for this request; returns dict(needed, load, compute, ran, must_err, may_err, save)"""
    prov = {}
    for i, p in enumerate(case["plugins"]):
        for o, c in p["outs"]:
            prov.setdefault(o, i)
    pol = {o: c for p in case["plugins"] for o, c in p["outs"]}
    # what the user asked for: a temporary merge plugin stands for the data types it merges
    user_targets = [d for t in targets for d in (case["plugins"][prov[t]]["deps"] if t.startswith("_temp_") and t in prov else [t])]
    needed, todo = [], list(targets)
    while todo:
        t = todo.pop()
        if t in needed:
            continue
        needed.append(t)
        if origin(case, t) is None:
            todo += case["plugins"][prov[t]]["deps"]
    load = {t: origin(case, t) for t in needed if origin(case, t) is not None}
    compute = sorted(t for t in needed if t not in load)
    ran = sorted({prov[t] for t in compute})
    partial = bool(case["mods"]["tr"] or case["mods"]["sel"] or case["mods"]["col"] or case["fuzzy"] or case["inc"])
    must = [t for t in compute if ("*" in case["forbid"] and not t.startswith("_temp_")) or t in case["forbid"]]
    must += [t for t in compute if case["mods"]["tr"] and pol[t] in "TA"]
    must += [t for t in compute if pol[t] == "N" and t in case["save"] and not t.startswith("_temp_")]
    produced = sorted({o for i in ran for o, _ in case["plugins"][i]["outs"] if origin(case, o) is None})
    may = [o for o in produced if pol[o] == "N" and o in case["save"]]
    save = {}
    if not partial:
        for o in produced:
            if o.startswith("_temp_"):
                continue
            want = pol[o] == "A" or (pol[o] == "T" and o in user_targets) or (pol[o] == "E" and o in case["save"])
            where = [i for i in sorted_fronts(case) if not case["fronts"][i]["ro"] and
                     not (o in case["fronts"][i]["excl"] or (case["fronts"][i]["take"] and o not in case["fronts"][i]["take"]))]
            if want and where:
                save[o] = where
    return dict(needed=needed, load=load, compute=compute, ran=ran, must=must, may=may, save=save, partial=partial, user_targets=user_targets)


def parse_comp(out):
    f = dict(x.split("=", 1) for x in out.split(" ")[1:])
    lst = lambda s, sep=",": [] if s == "-" else s.split(sep)  # noqa: E731
    return dict(L=dict(x.split("@") for x in lst(f["L"])), P=lst(f["P"]),
                S={x.split("@")[0]: [int(i) for i in x.split("@")[1].split("+")] for x in lst(f["S"])}, T=f["T"])


def oracle_comp(case, out):
    if case.get("malformed"):
        return None if out.startswith("err") else f"malformed request ({case['malformed']}) accepted"
    if case.get("cyclic") == "reachable":
        return None if out.startswith("err") else "a request whose dependency closure contains a cycle was accepted"
    w = wording(case, case["targets"])
    if out.startswith("err"):
        if w["must"] or w["may"]:
            if out not in ("err DataNotAvailable", "err ValueError"):
                return f"wrong error kind {out}"
            return None
        return d23(case, out, w) or f"request failed with {out} although every needed type is stored or creatable"
    if "!bad-final" in out:
        return "final target is not one of the requested computed end points"
    if w["must"]:
        return f"no error although {w['must']} is needed, not stored and may not be created / saved"
    c = parse_comp(out)
    if sorted(c["P"]) != w["compute"]:
        return f"computed {sorted(c['P'])} but needed-and-not-stored is {w['compute']}"
    if {t: int(i) for t, i in c["L"].items()} != w["load"]:
        return f"loaded {c['L']} but needed-and-stored (fastest frontend first) is {w['load']}"
    if set(c["P"]) & set(c["L"]):
        return "a type has two origins"
    if w["partial"] and c["S"]:
        return f"savers {c['S']} for a partial / fuzzy / incomplete request"
    if c["S"] != w["save"]:
        return d22(case, c["S"], w) or f"savers {c['S']} but policy dictates {w['save']}"
    return None


def d22(case, got, w):
    """the one known shape: TARGET-policy types requested together (through the temporary merge plugin) are not saved"""
    missing = {t: v for t, v in w["save"].items() if t not in got}
    rest = {t: v for t, v in w["save"].items() if t in got}
    pol = {o: c for p in case["plugins"] for o, c in p["outs"]}
    merged = len(case["targets"]) > 1 if "api" in case else any(t.startswith("_temp_") for t in case["targets"])
    if merged and missing and rest == got and all(pol[t] == "T" and t in w["user_targets"] and t not in
                                                   ([] if "api" in case else case["targets"]) for t in missing):
        return f"D22 multi-target request: TARGET-policy targets {sorted(missing)} were computed but not saved"
    return None


def d23(case, out, w):
    merged = len(case["targets"]) > 1 if "api" in case else any(t.startswith("_temp_") for t in case["targets"])
    if out == "err DataNotAvailable" and merged and "*" in case["forbid"] and not w["must"] and not w["may"]:
        return "D23 multi-target request with forbid_creation_of='*': DataNotAvailable for the temporary merge plugin although every needed type is stored"
    return None


# ----------------------------------------------------------------------------- adapters: real runs (get_array / make)
def temp_name(targets):
    return "_temp_" + strax.deterministic_hash(tuple(targets))


@quiet
def impl_run(case):
    """run the public API and report which plugin classes computed and which data appeared on disk"""
    world = world_for(case)
    st = world.set_state(case["fronts"])
    configure(st, case)
    COUNTS.clear()
    before = world.listing()
    targets = tuple(case["targets"])
    arg = targets if len(targets) > 1 else targets[0]
    try:
        try:
            kw = request_kwargs(case)
            if case.get("proc"):
                kw.update(processor=case["proc"], max_workers=2)
            if case["api"] == "make":
                st.make(RUN, arg, save=tuple(case["save"]), **kw)
            else:
                st.get_array(RUN, arg, save=tuple(case["save"]), progress_bar=False, **kw)
        except Exception as e:  # noqa: BLE001
            leftovers = [sorted(a - b) for a, b in zip(world.listing(), before)]
            if any(n for l in leftovers for n in l if not n.endswith("_temp")):
                return "err " + sl.err_name(e) + " !data-appeared-despite-error"
            return "err " + sl.err_name(e)
        after = world.listing()
        new = {}
        for i, (a, b) in enumerate(zip(after, before)):
            for name in sorted(a - b):
                t = name.split("-")[1]
                new.setdefault(t + ("!temp" if name.endswith("_temp") else ""), []).append(i)
        order = sorted_fronts(case)
        savers = sorted(t + "@" + "+".join(str(i) for i in order if i in idx) for t, idx in new.items())
        lost = [n for a, b in zip(after, before) for n in b - a if not (n.endswith("_temp") and n[:-5] in a)]
        ran = sorted(int(k[1:]) for k, v in COUNTS.items() if v > 0)
        # every source makes two chunks and nothing is rechunked: a plugin that runs is called exactly once per chunk
        twice = [f"{k}x{v}" for k, v in COUNTS.items() if v != 2]
        return (f"ok ran={join(map(str, ran))} new={join(savers)}" + (" !lost=" + join(sorted(lost)) if lost else "")
                + (" !miscount=" + join(sorted(twice)) if twice else ""))
    finally:
        for k in list(st._plugin_class_registry):
            if k.startswith("_temp"):
                del st._plugin_class_registry[k]
        world.restore()


def run_graph(case):
    """the graph get_iter hands to get_components: several same-kind targets are merged by a temporary plugin"""
    targets = list(case["targets"])
    if len(targets) > 1:
        tn = temp_name(targets)
        return case["plugins"] + [dict(outs=[[tn, "E"]], deps=targets)], [tn]
    return case["plugins"], targets


def op_run(case):
    plugins, targets = run_graph(case)
    if case["api"] == "make" and all(origin(case, t) is not None for t in case["targets"]):
        # `make(_skip_if_built=True)` returns before get_iter when every target is stored: no temporary merge plugin
        plugins, targets = case["plugins"], list(case["targets"])
    return "c11.run " + op_args(case, plugins, targets)


def oracle_run(case, out):
    w = wording(case, case["targets"])
    if out.startswith("err"):
        if "!data-appeared" in out:
            return "data appeared on disk although the request failed"
        if w["must"] or w["may"]:
            return None if out in ("err DataNotAvailable", "err ValueError") else f"wrong error kind {out}"
        return d23(case, out, w) or f"request failed with {out} although every needed type is stored or creatable"
    if "!lost" in out:
        return "stored data disappeared"
    if "!miscount" in out:
        return "a plugin that ran was not called exactly once per chunk (2 chunks): " + out
    if w["must"]:
        return f"no error although {w['must']} is needed, not stored and may not be created / saved"
    f = dict(x.split("=", 1) for x in out.split(" ")[1:])
    ran = [] if f["ran"] == "-" else [int(x) for x in f["ran"].split(",")]
    new = {} if f["new"] == "-" else {x.split("@")[0]: [int(i) for i in x.split("@")[1].split("+")] for x in f["new"].split(",")}
    if ran != w["ran"]:
        return f"plugins {ran} ran but the ones with a needed, not stored output are {w['ran']}"
    if any(k.endswith("!temp") for k in new):
        return f"unfinished data left behind: {sorted(new)}"
    if new != w["save"]:
        return d22(case, new, w) or f"saved {new} but policy dictates {w['save']}"
    return None


# ----------------------------------------------------------------------------- finite tables
def impl_should(case):
    cls = mk_class(0, [["xx", case["pol"]]], [])
    plugin = cls()
    targets = ("xx",) if case["tgt"] else ("yy",)
    save = ("xx",) if case["sv"] else tuple()
    return sl.guarded(lambda: str(int(bool(strax.Context._target_should_be_saved(plugin, "xx", targets, save)))))


def oracle_should(case, out):
    exp = {"A": "ok 1", "T": f"ok {int(case['tgt'])}", "E": f"ok {int(case['sv'])}", "N": "err ValueError" if case["sv"] else "ok 0"}[case["pol"]]
    return None if out == exp else f"policy {case['pol']} x is-target {case['tgt']} x in-save {case['sv']}: expected {exp}"


def impl_swval(case):
    return f"ok {int(POL_OF[case['pol']])}"


def impl_wetake(case):
    sf = strax.DataDirectory(os.path.join(base_dir(), "wetake"), take_only=tuple(case["take"]), exclude=tuple(case["excl"]), readonly=True)
    return f"ok {int(bool(sf._we_take(case['t'])))}"


# ----------------------------------------------------------------------------- generators
def gen_graph(rng, n_types=None, with_temp=False):
    n_types = n_types or rng.randint(2, 7)
    plugins, types = [], []
    i = 0
    while len(types) < n_types:
        k = min(rng.choice([1, 1, 1, 1, 2, 2, 3]), n_types - len(types))
        outs = [[f"p{i}{'abc'[j]}", rng.choice("NETA" if rng.random() < 0.8 else "AAT")] for j in range(k)]
        if not types or rng.random() < 0.08:
            deps = []
        else:
            deps = sorted(rng.sample(types, min(len(types), rng.choice([1, 1, 2, 2, 3]))))
        plugins.append(dict(outs=outs, deps=deps))
        types += [o for o, _ in outs]
        i += 1
    if with_temp and len(types) >= 2:
        plugins.append(dict(outs=[["_temp_mrg", "E"]], deps=sorted(rng.sample(types, rng.randint(2, min(3, len(types)))))))
    return plugins


def user_types(plugins):
    return [o for p in plugins for o, _ in p["outs"] if not o.startswith("_temp_")]


def gen_fronts(rng, types, n=None):
    n = n or rng.choice([1, 1, 1, 2, 2])
    fronts = []
    p_c = rng.choice([0.0, 0.2, 0.4, 0.7, 1.0])
    for _ in range(n):
        sub = lambda p: [t for t in types if rng.random() < p]  # noqa: E731
        fronts.append(dict(ro=int(rng.random() < 0.25), st=rng.choice([1, 1, 1, 0, 2, 3]),
                           take=(sub(0.5) or [types[0]]) if rng.random() < 0.2 else [],
                           excl=sub(0.3) if rng.random() < 0.2 else [],
                           complete=sub(p_c), incomplete=sub(0.12), stale=sub(0.12)))
        # a leftover *_temp folder also matches a fuzzy search and, being found first or not (os.listdir order), shadows
        # other-lineage data of the same type in the same directory: keep the two states apart (see notes/C11.md)
        fronts[-1]["incomplete"] = [t for t in fronts[-1]["incomplete"] if t not in fronts[-1]["stale"]]
    return fronts


def gen_request(rng, plugins, allow_temp=True):
    types = user_types(plugins)
    temp = [o for p in plugins for o, _ in p["outs"] if o.startswith("_temp_")]
    r = rng.random()
    if temp and allow_temp and r < 0.25:
        targets = temp
    elif r < 0.75 or len(types) < 2:
        targets = [rng.choice(types)]
    else:
        targets = rng.sample(types, rng.randint(2, min(3, len(types))))
    save = [t for t in types if rng.random() < 0.2]
    mods = dict(tr=int(rng.random() < 0.15), sel=int(rng.random() < 0.1), col=rng.choice(["keep", "drop"]) if rng.random() < 0.1 else None)
    fuzzy = rng.choice(["for", "opts", "opts"]) if rng.random() < 0.12 else None
    inc = int(fuzzy is None and rng.random() < 0.12)
    r = rng.random()
    forbid = ["*"] if r < 0.03 else ([t for t in types if rng.random() < 0.25] if r < 0.25 else [])
    return dict(targets=targets, save=save, mods=mods, fuzzy=fuzzy, inc=inc, forbid=forbid)


def hypotheses(ctx, cases):
    """evaluate the hypotheses of getComponents_ok_iff (topological order, unique providers) on every generated graph"""
    graphs = {}
    for c in cases:
        graphs.setdefault(repr(c["plugins"]), c["plugins"])
    if not ctx.model_available or not graphs:
        return lambda c, o: False
    res = ctx.driver.run(["c11.topo " + join((show_plugin(p) for p in pl), ";") for pl in graphs.values()])
    table = dict(zip(graphs, (r == "ok 11" for r in res)))
    return lambda c, o: table[repr(c["plugins"])]


def branch_comp(case, out):
    if out.startswith("err"):
        return out
    c = parse_comp(out)
    return f"ok L{min(len(c['L']), 3)} P{min(len(c['P']), 3)} S{min(len(c['S']), 2)}"


def nontrivial_comp(case, out):
    if out.startswith("err"):
        return True
    c = parse_comp(out)
    return bool(c["L"]) and bool(c["P"])


def run(ctx):
    rng = ctx.rng
    try:
        _run(ctx, rng)
    finally:
        close_world()
        if _BASE:
            shutil.rmtree(_BASE, ignore_errors=True)


def _run(ctx, rng):
    # 1. finite tables: exhaustive differential runs (complete equivalence checks for these domains)
    cases = [dict(pol=p, tgt=t, sv=s) for p in "NETA" for t in (0, 1) for s in (0, 1)]
    ctx.correspond("should_save/exhaustive", cases, impl_should, lambda c: f"c11.should {c['pol']} {c['tgt']} {c['sv']}", oracle_should,
                   exhaustive=True, rule="SaveWhen x is-target x in-save (16 cases) against the GENERATED definition",
                   branch=lambda c, o: c["pol"] + ":" + o)
    ctx.correspond("save_when_values/exhaustive", [dict(pol=p) for p in "NETA"], impl_swval, lambda c: f"c11.swval {c['pol']}", None,
                   exhaustive=True, rule="numeric values of the four SaveWhen members")
    if "shouldSave" in STALE:
        comps = [ctx.components.get("should_save/exhaustive"), ctx.components.get("save_when_values/exhaustive")]
        passed = ctx.model_available and all(c is not None and c.disagreements == 0 and c.oracle_failures == 0 for c in comps)
        for t in ctx.theorems:
            if t["name"].endswith(("gen_eq_model", "gen_values_eq_model")):
                t["status"] = "stale"          # not counted as discharged: it is about the previous translation
                t["strength"] = "stale"
        if passed:
            ctx.note("gen_eq_model / gen_values_eq_model are about the PREVIOUS translation (current source untranslatable: "
                     f"{STALE['shouldSave']}); the exhaustive differential run over the whole finite domain (16 + 4 cases) passed, which is a "
                     "complete equivalence check of the current source with the generated definition, hence with the model")
        else:
            ctx.violation("translator:_target_should_be_saved", "translator", None, {"reason": STALE["shouldSave"]},
                          "the translator regenerates Generated.shouldSave from the current source, or the exhaustive differential run "
                          "over its finite domain passes", False)
    subsets = [[], ["aa"], ["bb"], ["aa", "bb"]]
    cases = [dict(excl=e, take=k, t=t) for e in subsets for k in subsets for t in ("aa", "bb", "cc")]
    ctx.correspond("we_take/exhaustive", cases, impl_wetake, lambda c: f"c11.wetake {join(c['excl'])} {join(c['take'])} {c['t']}", None,
                   exhaustive=True, rule="exclude x take_only over subsets of two types x three probe types",
                   branch=lambda c, o: o)

    # 2. get_components: exhaustive stored subsets on small graphs
    cases = []
    n_small = ctx.pick(18, 120)
    for gi in range(n_small):
        plugins = gen_graph(rng, n_types=rng.randint(2, 5), with_temp=False)
        types = user_types(plugins)
        for r in range(len(types) + 1):
            for stored in itertools.combinations(types, r):
                for target in types:
                    req = gen_request(rng, plugins)
                    if rng.random() < 0.6:
                        req.update(mods=dict(tr=0, sel=0, col=None), fuzzy=None, inc=0, forbid=[])
                    req["targets"] = [target]
                    cases.append(dict(plugins=plugins, fronts=[dict(ro=0, st=1, take=[], excl=[], complete=list(stored), incomplete=[], stale=[])], **req))
    ctx.correspond("components/all-stored-subsets", cases, impl_comp, op_comp, oracle_comp, nontrivial=nontrivial_comp, exhaustive=True,
                   rule=f"{n_small} random DAGs of 2..5 data types x ALL stored subsets x every single target (one writable frontend); random save=/modifiers on 40 %",
                   branch=branch_comp, in_hyp=hypotheses(ctx, cases))

    # 3. get_components: random DAGs x storage states x requests
    cases = []
    for gi in range(ctx.pick(160, 1500)):
        plugins = gen_graph(rng, with_temp=rng.random() < 0.35)
        types = user_types(plugins)
        for si in range(ctx.pick(4, 6)):
            fronts = gen_fronts(rng, types)
            for ri in range(ctx.pick(6, 8)):
                cases.append(dict(plugins=plugins, fronts=fronts, **gen_request(rng, plugins)))
    ctx.correspond("components/random", cases, impl_comp, op_comp, oracle_comp, nontrivial=nontrivial_comp,
                   rule="random DAGs (2..7 types, 1..3 outputs per plugin, per-output policies, optional _temp_ merge plugin) x 1..2 frontends "
                        "(readonly / take_only / exclude / storage type; complete, *_temp and other-lineage data) x targets (1..3 or the temp plugin) x save= x "
                        "time_range / selection / keep|drop columns / fuzzy_for[_options] / allow_incomplete x forbid_creation_of; non-trivial = error, or both loaders and plugins",
                   branch=branch_comp, in_hyp=hypotheses(ctx, cases))

    # cyclic graphs (outside the hypotheses of getComponents_ok_iff; the other theorems and the model still apply)
    fr0 = [dict(ro=0, st=1, take=[], excl=[], complete=[], incomplete=[], stale=[])]
    cb = dict(fronts=fr0, save=[], mods=dict(tr=0, sel=0, col=None), fuzzy=None, inc=0, forbid=[], nopool=1)
    cyc3 = [dict(outs=[["p0a", "A"]], deps=[]), dict(outs=[["p1a", "A"]], deps=["p2a"]), dict(outs=[["p2a", "T"]], deps=["p1a", "p0a"])]
    cyc = [dict(cb, plugins=[dict(outs=[["p0a", "A"]], deps=["p0a"])], targets=["p0a"], cyclic="reachable"),
           dict(cb, plugins=[dict(outs=[["p0a", "A"]], deps=["p1a"]), dict(outs=[["p1a", "A"], ["p1b", "E"]], deps=["p0a"])], targets=["p1b"],
                cyclic="reachable"),
           dict(cb, plugins=cyc3, targets=["p2a"], cyclic="reachable"),
           dict(cb, plugins=cyc3, targets=["p0a"], cyclic="unreachable")]
    ctx.correspond("components/cyclic", cyc, impl_comp, op_comp, oracle_comp, exhaustive=False,
                   rule="directed cases: self-dependency, 2-cycle through a multi-output plugin, 2-cycle below a target (the unguarded recursion of "
                        "__get_plugin ends in RecursionError = RuntimeError; the model's fuel gives runtimeError) and a cycle NOT below the target (ok)",
                   branch=lambda c, o: c["cyclic"] + ":" + o.split(" ")[0] + ("" if o.startswith("ok") else " " + o.split(" ")[1]),
                   in_hyp=hypotheses(ctx, cyc))

    # malformed requests
    plugins = gen_graph(rng, n_types=3)
    fr = [dict(ro=0, st=1, take=[], excl=[], complete=[], incomplete=[], stale=[])]
    base = dict(plugins=plugins, fronts=fr, save=[], mods=dict(tr=0, sel=0, col=None), fuzzy=None, inc=0, forbid=[])
    mal = [dict(base, targets=["x"], malformed="one-letter target"), dict(base, targets=["nosuchtype"], malformed="unregistered target"),
           dict(base, targets=[user_types(plugins)[-1], "q"], malformed="one-letter target among several")]
    ctx.correspond("components/malformed", mal, impl_comp, op_comp, oracle_comp, rule="one-letter and unregistered targets",
                   branch=lambda c, o: o)

    # 4. real runs through the public API
    cases = []
    for gi in range(ctx.pick(70, 700)):
        plugins = gen_graph(rng, with_temp=False)
        types = user_types(plugins)
        for si in range(ctx.pick(2, 3)):
            fronts = gen_fronts(rng, types)
            for ri in range(ctx.pick(3, 4)):
                req = gen_request(rng, plugins)
                cases.append(dict(plugins=plugins, fronts=fronts, api=rng.choice(["get_array", "make"]),
                                  proc="threaded_mailbox" if rng.random() < 0.2 else None, **req))
    ctx.correspond("run/random", cases, impl_run, op_run, oracle_run, nontrivial=lambda c, o: o.startswith("err") or "ran=-" not in o,
                   rule="get_array / make (default single-thread processor; 20 % with processor='threaded_mailbox', max_workers=2) on random DAGs x storage states x requests: compute-call counters per plugin class and the directory "
                        "listings before/after against the driver's prediction and against the property wording; non-trivial = something ran or an error",
                   branch=lambda c, o: c["api"] + ("/threaded" if c.get("proc") else "") + ":" + (o if o.startswith("err") else ("ran" if "ran=-" not in o else "idle") + ("+saved" if "new=-" not in o else "")),
                   in_hyp=hypotheses(ctx, cases))


def search(ctx):
    rng = ctx.rng
    try:
        cases = []
        for gi in range(150):
            plugins = gen_graph(rng, with_temp=rng.random() < 0.3)
            for si in range(3):
                fronts = gen_fronts(rng, user_types(plugins))
                for ri in range(6):
                    cases.append(dict(plugins=plugins, fronts=fronts, **gen_request(rng, plugins)))
        ctx.check_oracle("search/components", cases, impl_comp, oracle_comp)
    finally:
        close_world()


def replay(ctx, body):
    comp = body["component"]
    if body.get("case") is None:
        return f"obligation {comp} has no input to replay (no-failing-input-found); re-run the check"
    case = body["case"]["case"]
    try:
        if comp.startswith("should_save"):
            out = impl_should(case)
            print("implementation output:", out)
            return oracle_should(case, out)
        if comp.startswith("run"):
            out = impl_run(case)
            print("implementation output:", out)
            return oracle_run(case, out)
        if "components" in comp:
            out = impl_comp(case)
            print("implementation output:", out)
            return oracle_comp(case, out)
        return f"component {comp} has no oracle; re-run the check"
    finally:
        close_world()
