"""C04 — a crash or I/O failure never leaves wrong data visible as valid.

Model: lean/StraxModel/Model/FS.lean (abstract crashing file system + the FileSaver protocol as a small-step
machine: saver thread, chunk-writer workers, fault actions); theorems: Props/C04.lean.
Tie: every FS operation the real code issues while making a target of a small plugin graph is intercepted by
checks/lib/faultfs.py (module attributes of strax.storage.files / strax.io rebound, nothing in /repo edited);
for EVERY operation index and every fault kind (exception at it, death before it, death after it) the scenario
is run in a fork()ed child, the directory is inspected by a fresh Context, a retry is run, and for every data
key the same attempt sequence is given to the compiled Lean driver (`c04.run`): op list issued, resulting
directory listing, `find` / `load` result, caller's outcome, and the same after the retry must be identical.
Oracle (independent of the model): fresh Context after the fault: is_stored never raises; stored => loads
completely and equals the no-fault result; a retry needs no cleanup, succeeds, and everything the no-fault run
stores is stored and correct afterwards; an exception injected into a write path reaches the caller.
"""
from __future__ import annotations

import copy
import json
import os
import shutil
import tempfile
import time

from lib import faultfs
from lib import straxlib as sl
from lib.straxlib import np, strax

ID = "C04"
LEAN_MODULES = ["StraxModel.Props.C04"]
TRUSTED = [
    "fault-injecting file system checks/lib/faultfs.py (proxies for os / os.path / shutil.rmtree / glob / open bound into strax.storage.files and strax.io; fork()+os._exit for process death)",
    "POSIX semantics assumed by the FS model: rename atomic, open(w) truncates then writes, rmtree = listdir + unlinks in unspecified order + rmdir, rename onto a non-empty directory fails",
    "derivation of the per-key model attempt (fault position, handler extras, abandoned flag) from the observed trace for keys other than the faulted one",
]
ASSUMPTIONS = [
    "one data key is modelled at a time; savers of different keys only interact through the exception handler of the processor",
    "partial writes are modelled at truncate / write / close granularity; no fsync / reordering model; DataDirectory + FileSytemBackend only",
    "thread-pool and forked chunk writes interleave at FS-operation granularity; a write to an already opened file after its directory was renamed is not modelled",
    "default overwrite='if_broken'; chunk lists are non-empty (a run without chunks is stored but unloadable also without any fault)",
]

# tqdm guards its bookkeeping with a class-level lock (a multiprocessing lock by default) and runs a monitor thread
# that takes it periodically: a process fork()ed while that thread holds the lock inherits it locked for ever and
# hangs at the next progress bar (strax builds one even with progress_bar=False).  No monitor thread, a plain
# thread lock, and a fresh lock in every fork()ed child.
try:
    import threading as _threading

    import tqdm as _tqdm

    def _fresh_tqdm_lock():
        for cls in {_tqdm.tqdm, strax.utils.tqdm}:
            cls.monitor_interval = 0
            cls.set_lock(_threading.RLock())

    _fresh_tqdm_lock()
    os.register_at_fork(after_in_child=_fresh_tqdm_lock)
except Exception:  # noqa: BLE001
    pass

# `kill -USR1 <pid>` dumps the Python stacks of a (possibly hanging) check process to stderr
try:
    import faulthandler
    import signal as _signal
    faulthandler.register(_signal.SIGUSR1, all_threads=True)
except Exception:  # noqa: BLE001
    pass

RUN = "0"
DT = sl.DT_END
# all scratch directories live on tmpfs when there is one: thousands of create / truncate / delete cycles on a
# disk-backed /tmp cost seconds each under load, and nothing here needs a real disk
SHM = "/dev/shm" if os.path.isdir("/dev/shm") and os.access("/dev/shm", os.W_OK) else None

# ----------------------------------------------------------------------------- plugin graphs
PLAN3 = [(0, 10, [(1, 3, 0), (4, 6, 1)]), (10, 20, [(12, 14, 2)]), (20, 30, [])]
PLAN2 = [(0, 10, [(1, 3, 0)]), (10, 20, [(12, 14, 1), (15, 16, 2)])]
PLAN1 = [(0, 10, [(2, 5, 0), (6, 7, 1)])]
# rows separated by gaps > 1000 ns so that the rechunker can split; with a target of two rows it emits chunks
# while receiving and keeps a remainder that only leaves at flush time
PLANGAP = [(0, 5000, [(10, 20, 0), (2010, 2020, 1)]), (5000, 10000, [(6000, 6010, 2), (8000, 8010, 3)]),
           (10000, 15000, [(12000, 12010, 4)])]
PLANS = {"plan3": PLAN3, "plan2": PLAN2, "plan1": PLAN1, "gap": PLANGAP}


def mk_classes(rechunk):
    tgt = sl.target_mb(2, DT.itemsize)

    @strax.takes_config(strax.Option("plan", default=None, track=False))
    class C4Src(strax.Plugin):
        provides = "c4src"
        data_kind = "c4k0"
        depends_on = tuple()
        dtype = DT
        rechunk_on_save = rechunk
        chunk_target_size_mb = tgt if rechunk else strax.DEFAULT_CHUNK_SIZE_MB
        parallel = False

        def source_finished(self):
            return True

        def is_ready(self, chunk_i):
            return chunk_i < len(self.config["plan"])

        def compute(self, chunk_i):
            s, e, rows = self.config["plan"][chunk_i]
            return self.chunk(start=s, end=e, data=sl.mk_array(rows, "end"))

    class C4Map(strax.Plugin):
        provides = "c4map"
        data_kind = "c4k1"
        depends_on = ("c4src",)
        dtype = DT
        rechunk_on_save = rechunk
        chunk_target_size_mb = tgt if rechunk else strax.DEFAULT_CHUNK_SIZE_MB

        def compute(self, c4k0):
            r = c4k0.copy()
            r["id"] += 100
            return r

    class C4Map2(strax.Plugin):
        provides = "c4mp2"
        data_kind = "c4k2"
        depends_on = ("c4map",)
        dtype = DT
        rechunk_on_save = rechunk
        chunk_target_size_mb = tgt if rechunk else strax.DEFAULT_CHUNK_SIZE_MB

        def compute(self, c4k1):
            r = c4k1.copy()
            r["id"] += 1000
            return r

    return {"c4src": C4Src, "c4map": C4Map, "c4mp2": C4Map2}


_CLASSES = {}


def classes(rechunk):
    if rechunk not in _CLASSES:
        _CLASSES[rechunk] = mk_classes(rechunk)
    return _CLASSES[rechunk]


# ----------------------------------------------------------------------------- scenarios
# proc: processor; workers: max_workers (None = no executor); variant: which protocol variant of the model
# pre: faults of earlier attempts that prepare the initial directory (address + kind); rm: rmtree order
def S(name, keys, plan, proc="single_thread", workers=None, rechunk=False, pre=(), rm="meta_first", forked=False):
    variant = "frk" if forked else ("exe" if (workers or 0) > 1 else "ser")
    return dict(name=name, keys=list(keys), plan=plan, proc=proc, workers=workers, rechunk=rechunk, pre=list(pre), rm=rm,
                forked=forked, variant=variant, det=(variant != "exe"))


BROKEN = dict(key="c4src", role="W0", j=3, kind="exc")       # first chunk file rename fails -> broken final dir
BROKEN_LATE = dict(key="c4src", role="W1", j=1, kind="exc")
LEFT_TEMP = dict(key="c4src", role="W1", j=1, kind="die_after")   # death mid-way -> stale temp dir

QUICK = [
    S("st-plain", ["c4src", "c4map"], "plan3"),
    S("tp-pool", ["c4src", "c4map"], "plan2", proc="threaded_mailbox", workers=2),
    S("st-broken-rechunk", ["c4src"], "gap", rechunk=True, pre=[BROKEN]),
]
THOROUGH = QUICK + [
    S("tm-plain", ["c4src", "c4map"], "plan3", proc="threaded_mailbox"),
    S("st-chain3", ["c4src", "c4map", "c4mp2"], "plan2"),
    S("st-rechunk", ["c4src", "c4map"], "gap", rechunk=True),
    S("tm-rechunk", ["c4src", "c4map"], "gap", proc="threaded_mailbox", rechunk=True),
    S("tp-rechunk", ["c4src"], "gap", proc="threaded_mailbox", workers=3, rechunk=True),
    S("st-broken-metalast", ["c4src"], "plan2", pre=[BROKEN_LATE], rm="meta_last"),
    S("st-broken-sorted", ["c4src", "c4map"], "plan2", pre=[BROKEN_LATE], rm="sorted"),
    S("tm-broken", ["c4src"], "plan2", proc="threaded_mailbox", pre=[BROKEN]),
    S("st-stale-temp", ["c4src"], "plan2", pre=[LEFT_TEMP]),
    S("tp-stale-temp", ["c4src"], "plan2", proc="threaded_mailbox", workers=2, pre=[LEFT_TEMP]),
    S("forked", ["c4src"], "plan3", forked=True),
    S("forked-broken", ["c4src"], "plan2", forked=True, pre=[BROKEN]),
]
SCEN = {s["name"]: s for s in THOROUGH}


def mk_context(scen, root):
    cl = classes(scen["rechunk"])
    return strax.Context(storage=[strax.DataDirectory(root)], register=[cl[k] for k in ("c4src", "c4map", "c4mp2")],
                         config=dict(plan=PLANS[scen["plan"]]), allow_multiprocess=False, timeout=20)


def do_make(scen, st):
    """the request whose interruption is studied"""
    target = scen["keys"][-1]
    if scen["forked"]:
        return do_make_forked(scen, st)
    kw = dict(processor=scen["proc"], progress_bar=False)
    if scen["workers"]:
        kw["max_workers"] = scen["workers"]
    st.make(RUN, target, **kw)


def do_make_forked(scen, st):
    """In-process rendering of an inlined saver (ParallelSourcePlugin.do_compute / cleanup): every chunk is saved
    by a copy of the saver as a forked worker process would hold it (is_forked = True), the original closes."""
    target = scen["keys"][-1]
    if st.is_stored(RUN, target):
        return
    comps = st.get_components(RUN, targets=(target,))
    saver = comps.savers[target][0]
    saver.is_forked = True
    plugin = comps.plugins[target]
    try:
        i = 0
        while plugin.is_ready(i):
            chunk = plugin.do_compute(chunk_i=i)
            cp = copy.deepcopy(saver)
            cp.save(chunk=chunk, chunk_i=i)
            i += 1
    except BaseException:
        saver.close()               # Plugin.cleanup -> s.close(wait_for) while the exception is being handled
        raise
    saver.close()


# ----------------------------------------------------------------------------- canonical op strings
def content_of(fn, data):
    base = os.path.basename(fn)
    try:
        if base.endswith("-metadata.json"):
            md = json.loads(data)
            return "j%d%s%s" % (len(md.get("chunks", [])), "e" if "writing_ended" in md else "-", "x" if "exception" in md else "-")
        if base.startswith("metadata_"):
            return "i%d" % json.loads(data)["chunk_i"]
        raw = strax.io.COMPRESSORS["blosc"]["decompress"](data)
        a = np.frombuffer(raw, dtype=DT)
        return "r" + ".".join(str(int(x)) for x in a["id"])
    except Exception as e:  # noqa: BLE001
        return "?" + type(e).__name__


def sname(f):
    if f is None:
        return "?"
    if f == "meta":
        return "m"
    kind, _, i = f.partition(":")
    return {"chunk": "c", "tmp": "t", "cmeta": "x"}.get(kind, "o") + i


def canon_op(o):
    d = {"final": "F", "temp": "T"}.get(o["dirkind"], "?")
    n = o["name"]
    if n == "exists":
        return f"exists:{d}"
    if n in ("listdir", "glob", "mkdir", "rmdir"):
        return f"{n}:{d}"
    if n == "open_r":
        return f"read:{d}:{sname(o['fname'])}"
    if n == "open_w":
        return f"open:{d}:{sname(o['fname'])}"
    if n == "write":
        return f"write:{d}:{sname(o['fname'])}:{o['content']}"
    if n == "close_w":
        return f"close:{d}:{sname(o['fname'])}"
    if n == "unlink":
        return f"rm:{d}:{sname(o['fname'])}"
    if n == "rename":
        if o["fname"] is None:
            return f"mvdir:{d}:{ {'final': 'F', 'temp': 'T'}.get(o['fname2'], '?') }".replace(" ", "")
        return f"mv:{d}:{sname(o['fname'])}:{sname(o['fname2'])}"
    return f"{n}:{d}"


def op_role(s):
    """role of a canonical op string: W<i> for operations on chunk file i, else S"""
    parts = s.split(":")
    if len(parts) >= 3 and parts[0] in ("open", "write", "close", "mv") and parts[2][0] in "tc":
        return "W" + parts[2][1:]
    return "S"


def group_roles(ops):
    """interleaving-insensitive form: the saver's operations, then each chunk write's, in their own order"""
    roles = {}
    for s in ops:
        roles.setdefault(op_role(s), []).append(s)
    keys = sorted(roles, key=lambda r: (r != "S", int(r[1:]) if r != "S" else -1))
    return [s for r in keys for s in roles[r]]


# ----------------------------------------------------------------------------- running one attempt
def _child(scen, root, fault, trace_path):
    import logging
    logging.disable(logging.CRITICAL)
    ffs = faultfs.FaultFS(root, fault=fault, trace_path=trace_path, rm_order=scen["rm"], content_of=content_of).install()
    try:
        st = mk_context(scen, root)
        do_make(scen, st)
        outcome = "success"
    except Exception as e:  # noqa: BLE001
        outcome = "raised:" + sl.err_name(e)
    finally:
        ffs.uninstall()
    return outcome, [o.as_dict() for o in ffs.ops]


def run_attempt(scen, root, fault, scratch):
    """one `make` on the directory.  Process death needs a real process to die: those attempts run in a fork()ed
    child (trace streamed to a side file); everything else runs in this process."""
    if fault is None or not fault["kind"].startswith("die"):
        import contextlib
        import io
        with contextlib.redirect_stdout(io.StringIO()), contextlib.redirect_stderr(io.StringIO()):
            return _child(scen, root, fault, None)
    trace_path = os.path.join(scratch, "trace.jsonl")
    if os.path.exists(trace_path):
        os.remove(trace_path)
    status, res = faultfs.run_forked(lambda: _child(scen, root, fault, trace_path)[0], os.path.join(scratch, "result.pkl"), timeout=120)
    trace = faultfs.read_trace(trace_path)
    if status == "ok":
        outcome = res                     # the fault point was never reached
    elif status == "died":
        outcome = "died"
    else:
        raise RuntimeError(f"scenario child failed: {status} {res}")
    return outcome, trace


def key_dirs(root, key):
    fin = tmp = None
    for n in os.listdir(root):
        parts = n[:-5].split("-") if n.endswith("_temp") else n.split("-")
        if len(parts) == 3 and parts[1] == key and os.path.isdir(os.path.join(root, n)):
            if n.endswith("_temp"):
                tmp = os.path.join(root, n)
            else:
                fin = os.path.join(root, n)
    return fin, tmp


def listing(path, key):
    if path is None:
        return "-"
    base = os.path.basename(path)
    base = base[:-5] if base.endswith("_temp") else base
    prefix = base.split("-", 1)[1]
    names = [sname(faultfs.FaultFS.fname(n, prefix)) for n in os.listdir(path)]
    order = {"m": 0, "c": 1, "t": 2, "x": 3, "o": 4}
    names.sort(key=lambda s: (order[s[0]], int(s[1:]) if s[1:].isdigit() else 0))
    return "[" + ",".join(names) + "]"


def inspect(scen, root):
    """fresh Context on the directory: per key is_stored / load result / directory listing"""
    st = mk_context(scen, root)
    sf = st.storage[0]
    out = {}
    for key in scen["keys"]:
        try:
            stored = "ok" if st.is_stored(RUN, key) else "err DataNotAvailable"
        except Exception as e:  # noqa: BLE001
            stored = "err " + sl.err_name(e)
        rows = None
        try:
            chunks = list(sf.loader(st.key_for(RUN, key)))
            load = "ok " + ("/".join(f"{int(c.start)}.{int(c.end)}.{sl.show_ids(sl.rows_of(c.data))}" for c in chunks) or "-")
            rows = [r for c in chunks for r in sl.rows_of(c.data)]
        except Exception as e:  # noqa: BLE001
            load = "err " + sl.err_name(e)
        fin, tmp = key_dirs(root, key)
        has_md = fin is not None and any(n.endswith("-metadata.json") for n in os.listdir(fin))
        out[key] = dict(find=stored, load=load, rows=rows, ls=f"F{listing(fin, key)}T{listing(tmp, key)}",
                        d12=int(fin is not None and not has_md))
    return out


def saver_ops(trace, key):
    """operations of the save protocol on this key that were actually issued (the one a `die_before` fault
    prevented is in the trace only as a marker)"""
    return [o for o in trace if o["key"] == key and o["role"] != "R" and o["res"] not in ("die_before", "inflight")]


# ----------------------------------------------------------------------------- scenario preparation (cached per process)
_PREP = {}


def prepare(scen_name):
    """baseline facts of a scenario: reference result, prepared initial directory, fault-free trace of the
    attempt under study"""
    if scen_name in _PREP:
        return _PREP[scen_name]
    scen = SCEN[scen_name]
    base = tempfile.mkdtemp(prefix=f"c04_{scen_name}_", dir=SHM)
    scratch = os.path.join(base, "scratch")
    os.makedirs(scratch)
    # reference: clean run
    ref_root = os.path.join(base, "ref")
    os.makedirs(ref_root)
    outcome, _ = run_attempt(scen, ref_root, None, scratch)
    if outcome != "success":
        raise RuntimeError(f"scenario {scen_name}: fault-free run ended in {outcome}")
    ref = inspect(scen, ref_root)
    chunks = {}
    for key in scen["keys"]:
        if not ref[key]["load"].startswith("ok "):
            raise RuntimeError(f"scenario {scen_name}: reference load of {key} gave {ref[key]['load']}")
        chunks[key] = chunk_spec(scen, ref_root, key)
    # initial directory: apply the preparing faults
    init_root = os.path.join(base, "init")
    os.makedirs(init_root)
    pre_traces = []
    for ft in scen["pre"]:
        outcome, tr = run_attempt(scen, init_root, ft, scratch)
        pre_traces.append((ft, outcome, tr))
    work = os.path.join(base, "work")
    shutil.copytree(init_root, work)
    outcome, trace = run_attempt(scen, work, None, scratch)
    shutil.rmtree(work)
    if outcome != "success":
        raise RuntimeError(f"scenario {scen_name}: fault-free attempt from the prepared directory ended in {outcome}")
    p = dict(scen=scen, base=base, init=init_root, ref=ref, chunks=chunks, trace=trace, pre=pre_traces)
    _PREP[scen_name] = p
    return p


def chunk_spec(scen, root, key):
    """the chunk list the saver of `key` received in the fault-free run, in the driver's encoding"""
    st = mk_context(scen, root)
    out = []
    for c in st.storage[0].loader(st.key_for(RUN, key)):
        out.append(f"{int(c.start)};{int(c.end)};{sl.show_rows(sl.rows_of(c.data))}")
    return "/".join(out) or "-"


def cleanup_prepared():
    for p in _PREP.values():
        shutil.rmtree(p["base"], ignore_errors=True)
    _PREP.clear()


# ----------------------------------------------------------------------------- one case on the real code
def fault_points(p, kinds=("exc", "die_before", "die_after")):
    """every FS operation of the fault-free attempt x every fault kind"""
    out = []
    for o in p["trace"]:
        for kind in kinds:
            if kind == "exc" and o["name"] not in faultfs.CAN_RAISE:
                continue
            out.append(dict(scen=p["scen"]["name"], key=o["key"], role=o["role"], j=o["j"], kind=kind, g=o["g"], op=o["name"],
                            dirkind=o["dirkind"], fname=o["fname"]))
    return out


def execute(case):
    """run the case on the real code: faulted attempt (optionally a faulted retry), then a clean retry"""
    p = prepare(case["scen"])
    scen = p["scen"]
    work = tempfile.mkdtemp(prefix="c04w_", dir=SHM)
    scratch = os.path.join(work, "scratch")
    root = os.path.join(work, "root")
    os.makedirs(scratch)
    shutil.copytree(p["init"], root)
    try:
        steps = []
        faults = [dict(key=case["key"], role=case["role"], j=case["j"], kind=case["kind"])]
        if case.get("second"):
            faults.append(case["second"])
        faults.append(None)
        for ft in faults:
            before = inspect(scen, root) if steps else None
            outcome, trace = run_attempt(scen, root, ft, scratch)
            steps.append(dict(fault=ft, outcome=outcome, trace=trace, before=before, after=inspect(scen, root)))
        return dict(steps=steps)
    finally:
        shutil.rmtree(work, ignore_errors=True)


# ----------------------------------------------------------------------------- model attempts derived per key
RM = {"meta_first": "mf", "meta_last": "ml", "sorted": "li"}


def parse_extra(ops):
    """chunk saves found in the handler part of a trace -> (extraStart, chunk specs)"""
    chunks, cur_i, cur_ids, first = [], None, None, None
    for s in ops:
        parts = s.split(":")
        if parts[0] == "write" and parts[2][0] == "t":
            cur_i = int(parts[2][1:])
            cur_ids = [int(x) for x in parts[3][1:].split(".") if x != ""]
        if parts[0] == "close" and parts[2] == "m":
            if first is None:
                first = cur_i if cur_i is not None else 0
            rows = ",".join(f"0:1:{i}" for i in (cur_ids or [])) or "-"
            chunks.append(f"0;0;{rows}")
            cur_i, cur_ids = None, None
    return (first or 0), chunks


def fault_fired(step, ft):
    """did the run reach the addressed operation?"""
    if step["outcome"] == "died":
        return True
    return any(o["res"] == "exc" for o in step["trace"]) if ft["kind"] == "exc" else False


def fault_global_index(trace):
    for o in trace:
        if o["res"] == "exc":
            return o["g"]
    return 10 ** 9


def model_index(model_ops, role, j):
    n = -1
    for i, s in enumerate(model_ops):
        if op_role(s) == role:
            n += 1
            if n == j:
                return i
    return None         # the model's protocol has no such operation: compared as a fault-free attempt


def token(scen, fault="none", es=0, extra=(), abandoned=0, show=""):
    lost = 0        # 1 would be the threaded processor before the D26 fix (an exception of the final close got lost)
    return "|".join([scen["variant"], "1", RM[scen["rm"]], fault, str(es), "/".join(extra) or "-", str(abandoned), str(lost), show])


def attempt_spec(scen, key, step, base_ops_model, faulted_here, show):
    """the attempt token the driver gets for one `make` attempt on one key, or None when the real code did not
    touch this key in that attempt (then only the state is compared).  For the key the fault was injected into,
    the fault position comes from the fault's address; for every other key it is read off the observed trace
    (closed by the handler after n operations / abandoned / died / finished normally)."""
    ft = step["fault"]
    obs = saver_ops(step["trace"], key)
    ops = [canon_op(o) for o in obs]
    before = step["before"]
    if not ops and not faulted_here and (before is None or before[key]["find"] == "err DataNotAvailable"):
        return None
    fault, es, extra, abandoned = "none", 0, [], 0
    if ft is not None and (ops or faulted_here):
        kind = ft["kind"]
        if faulted_here:
            if not scen["det"]:
                k = model_index(base_ops_model, ft["role"], ft["j"]) if fault_fired(step, ft) else None
            elif not fault_fired(step, ft):
                k = None
            elif kind == "die_before":
                k = len(ops)
            elif kind == "die_after":
                k = len(ops) - 1
            else:
                k = next((i for i, o in enumerate(obs) if o["res"] == "exc"), None)
            if k is None:
                # the addressed operation was never issued (the code under test has a different op list):
                # the model is asked for the fault-free attempt and the comparison will show the difference
                fault = "none"
            elif kind == "exc":
                fault = f"exc@{k}"
                if scen["det"]:
                    tail = ops[k + 1:]
                    if not tail:
                        abandoned = 1
                    elif "exists:T" in tail:
                        es, extra = parse_extra(tail[:len(tail) - 1 - tail[::-1].index("exists:T")])
            else:
                fault = ("db@%d" if kind == "die_before" else "da@%d") % k
        elif step["outcome"] == "died":
            fault = f"db@{len(ops)}"
            if any(o["key"] == key and o["role"] != "R" and o["res"] == "inflight" for o in step["trace"]):
                # an operation of this saver was in flight on another thread when the process died: it may or may
                # not have taken effect (both are deaths of the model, one operation apart)
                fault = f"db@{len(ops)}?"
        else:
            # an exception elsewhere: this saver was closed by the handler, abandoned, or had finished already
            last_md = [s for s in ops if s.startswith("write:T:m:")]
            if last_md and last_md[-1].endswith("e-") and ops[-1] == "mvdir:T:F":
                fault = "none"
            elif last_md and last_md[-1].endswith("x"):
                close_start = len(ops) - 1 - ops[::-1].index("exists:T")
                if scen["proc"] == "single_thread":
                    gf = fault_global_index(step["trace"])
                    n_before = sum(1 for o in obs if o["g"] < gf)
                else:
                    n_before = close_start
                es, extra = parse_extra(ops[n_before:close_start])
                fault = f"ab@{n_before}"
            else:
                fault, abandoned = f"ab@{len(ops)}", 1
    return token(scen, fault, es, extra, abandoned, show)


def real_result(step, key):
    oc = step["outcome"]
    before = step["before"]
    if before is not None and before[key]["find"] == "ok":
        return "stored"
    if before is not None and before[key]["find"] != "err DataNotAvailable":
        return "corrupted" if oc.startswith("raised") else oc
    return oc.split(":")[0]


def impl_line(scen, key, steps, shows, took):
    parts = []
    for step, show, tk in zip(steps, shows, took):
        if not tk:
            continue
        a = step["after"][key]
        ops = [canon_op(o) for o in saver_ops(step["trace"], key)]
        r = real_result(step, key) if "r" in show else "*"
        o = (",".join(ops) or "-") if "o" in show else "*"
        ls = a["ls"] if "l" in show else "*"
        parts.append(f"{r} find={a['find']} load={a['load']} d12={a['d12']} ls={ls} ops={o}")
    return " ; ".join(parts)


_BASE_OPS = {}


def model_base_ops(driver, p, key, prior_tokens):
    """the model's op list of a fault-free attempt after the given earlier attempts (thread-pool scenarios: the
    address of a fault is translated into an index of the model's eager schedule)"""
    line = "c04.run " + p["chunks"][key] + " " + " ".join(prior_tokens + [token(p["scen"], show="o")])
    if line not in _BASE_OPS:
        out = driver.run([line])[0]
        ops = out.split(" ; ")[-1].split(" ops=")[1]
        _BASE_OPS[line] = [] if ops in ("-", "*") else ops.split(",")
    return _BASE_OPS[line]


def build_rows(case, res, driver):
    """one comparison row per data key: canonical implementation line + driver op line (attempts of the
    preparation, then the faulted attempt(s), then the clean retry)"""
    p = prepare(case["scen"])
    scen = p["scen"]
    steps = res["steps"]
    rows = []
    for key in scen["keys"]:
        pre_tokens = []
        for ft, outcome, tr in p["pre"]:
            st0 = dict(fault=ft, outcome=outcome, trace=tr, before=None)
            here0 = ft["key"] == key and ft["role"] != "R"
            base0 = model_base_ops(driver, p, key, pre_tokens) if (here0 and not scen["det"]) else None
            tok = attempt_spec(scen, key, st0, base0, here0, "")
            if tok is not None:
                pre_tokens.append(tok)
        tokens, shows, took = [], [], []
        for step in steps:
            ft = step["fault"]
            here = ft is not None and ft["key"] == key and ft["role"] != "R"
            if ft is None:
                show = "rlo" if scen["det"] else "r"
            else:
                show = ("r" if here else "") + ("ol" if scen["det"] else "")
            base_model = model_base_ops(driver, p, key, pre_tokens + tokens) if (here and not scen["det"]) else None
            tok = attempt_spec(scen, key, step, base_model, here, show)
            took.append(tok is not None)
            shows.append(show)
            if tok is not None:
                tokens.append(tok)
        impl = impl_line(scen, key, steps, shows, took)
        op = ("c04.run " + p["chunks"][key] + " " + " ".join(pre_tokens + tokens)) if tokens else None
        if op is not None and "?|" in op:
            # undecided in-flight operation: the model is asked for the death before it and after it
            import re as _re
            m = _re.search(r"db@(\d+)\?", op)
            n0 = int(m.group(1))
            cands = [op.replace(m.group(0), f"db@{n0}"), op.replace(m.group(0), f"db@{n0 + 1}")]
            outs = driver.run(cands)
            n_pre = len(pre_tokens)
            pick = next((c for c, o in zip(cands, outs) if " ; ".join(o.split(" ; ")[n_pre:]) == impl), cands[0])
            op = pick
        rows.append(dict(key=key, impl=impl, op=op, n_pre=len(pre_tokens)))
    return rows


# ----------------------------------------------------------------------------- oracle (independent of the model)
D12_TAG = "[D12-state: final directory exists, metadata file absent, reached by a fault inside rmtree of the broken final directory]"
D26_TAG = "[D26-state: threaded processor, exception inside the final Saver.close() of save_from, data left in _temp and reported unavailable]"


def fault_op(step):
    ft = step["fault"]
    if ft is None:
        return None
    for o in step["trace"]:
        if (o["key"], o["role"], o["j"]) == (ft["key"], ft["role"], ft["j"]):
            return o
    return None


def reached_by_rmtree_of_broken(steps, key):
    """was some fault so far injected into FileSaver.__init__'s rmtree of this key's final directory?"""
    for st in steps:
        o = fault_op(st)
        if o is not None and o["key"] == key and o["func"] == "FileSaver.__init__" and o["dirkind"] == "final" \
                and o["name"] in ("listdir", "unlink", "rmdir"):
            return True
    return False


def in_final_close(step):
    """the injected exception hit an operation of FileSaver._close reached on the normal path (no exception
    had occurred before it in this attempt)"""
    o = fault_op(step)
    if o is None or step["fault"]["kind"] != "exc":
        return False
    first_exc = next((x for x in step["trace"] if x["res"] == "exc"), None)
    if first_exc is None or first_exc["g"] != o["g"]:
        return False
    return any(x["key"] == o["key"] and x["func"] == "FileSaver._close" and x["g"] < o["g"] and x["role"] != "R"
               for x in step["trace"]) or o["func"] == "FileSaver._close"


def oracle_case(case, res):
    """the property's own wording on what the real code did.  Returns None or a message; messages that describe
    one of the two known defect states carry a tag the known-findings file is keyed on, and they are only
    reported on their own (any other failure in the same case takes precedence and is reported untagged)."""
    p = prepare(case["scen"])
    scen = p["scen"]
    ref = p["ref"]
    steps = res["steps"]
    target = scen["keys"][-1]
    plain, tagged = [], []
    for si, step in enumerate(steps):
        ft = step["fault"]
        tag = f"after attempt {si} ({'fault ' + ft['kind'] if ft else 'clean retry'})"
        corrupted = any(step["after"][k]["find"] not in ("ok", "err DataNotAvailable") for k in scen["keys"])
        for key in scen["keys"]:
            a = step["after"][key]
            if a["find"] not in ("ok", "err DataNotAvailable"):
                msg = f"{tag}: is_stored({key}) raised {a['find'][4:]} instead of reporting the data unavailable"
                if a["d12"] and a["find"] == "err DataCorrupted" and reached_by_rmtree_of_broken(steps[:si + 1], key):
                    tagged.append(msg + " " + D12_TAG)
                else:
                    plain.append(msg + f" [state: listing {a['ls']}]")
                continue
            if a["find"] == "ok":
                if not a["load"].startswith("ok "):
                    plain.append(f"{tag}: {key} is reported stored but loading fails with {a['load']}")
                elif a["rows"] != ref[key]["rows"]:
                    plain.append(f"{tag}: {key} is reported stored but its rows differ from the fault-free result")
            elif ft is None and not corrupted and (key == target or saver_ops(step["trace"], key)):
                # the request was for the last key of the graph; an intermediate type only has to be there if this
                # attempt set out to save it.  (When some key is in the corrupted state the whole request fails
                # at once; that is reported above, not once more per key.)
                plain.append(f"{tag}: {key} is still unavailable (find={a['find']})")
        if ft is None:
            if step["outcome"] != "success" and not corrupted:
                plain.append(f"{tag}: the retry did not succeed ({step['outcome']})")
        elif ft["kind"] == "exc" and ft["role"] != "R" and step["outcome"] == "success" and any(o["res"] == "exc" for o in step["trace"]):
            o = fault_op(step)
            msg = (f"{tag}: an I/O error on a write path ({ft['key']} {ft['role']}{ft['j']}: {o['name']} in {o['func']}) was reported "
                   "to the caller as success")
            if scen["proc"] == "threaded_mailbox" and in_final_close(step) and step["after"][ft["key"]]["find"] == "err DataNotAvailable":
                tagged.append(msg + " " + D26_TAG)
            else:
                plain.append(msg)
    if plain:
        return "; ".join(plain)
    return "; ".join(tagged) if tagged else None


# ----------------------------------------------------------------------------- driver of the whole check
class CaseTimeout(Exception):
    pass


def _exec_safe(case, limit_s=300):
    """run one case; a case that hangs (never seen on the unchanged tree, seen once under load with a mutant) is
    interrupted by an alarm, its stacks are dumped to stderr, and it is tried once more"""
    import signal
    import traceback

    def on_alarm(signum, frame):
        raise CaseTimeout(f"case did not finish within {limit_s}s")

    last = None
    for _ in range(2):
        old = signal.signal(signal.SIGALRM, on_alarm)
        signal.alarm(limit_s)
        try:
            return execute(case)
        except CaseTimeout as e:
            try:
                import faulthandler
                faulthandler.dump_traceback(all_threads=True)
            except Exception:  # noqa: BLE001
                pass
            last = f"{type(e).__name__}: {e}"
        except Exception as e:  # noqa: BLE001
            return dict(error=f"{type(e).__name__}: {e}\n{traceback.format_exc()}")
        finally:
            signal.alarm(0)
            signal.signal(signal.SIGALRM, old)
    return dict(error=last)


def run_cases(cases, jobs, deadline_s=2400):
    """execute the cases on the real code in `jobs` fork()ed worker processes (no multiprocessing machinery:
    a worker that dies or hangs must not be able to block the check).  Every worker takes a slice of the cases and
    leaves one result file per case; what is missing afterwards is executed in this process."""
    import pickle
    n = len(cases)
    if n == 0:
        return []
    jobs = max(1, min(jobs, n))
    tmp = tempfile.mkdtemp(prefix="c04r_", dir=SHM)
    pids = []
    try:
        import sys
        sys.stdout.flush()
        sys.stderr.flush()
        for j in range(jobs):
            pid = os.fork()
            if pid == 0:
                try:
                    for i in range(j, n, jobs):
                        r = _exec_safe(cases[i])
                        with open(os.path.join(tmp, f"{i}.part"), "wb") as f:
                            pickle.dump(r, f)
                        os.rename(os.path.join(tmp, f"{i}.part"), os.path.join(tmp, f"{i}.pkl"))
                finally:
                    os._exit(0)
            pids.append(pid)
        t_end = time.time() + deadline_s
        live = set(pids)
        while live:
            for pid in list(live):
                wpid, _ = os.waitpid(pid, os.WNOHANG)
                if wpid == pid:
                    live.discard(pid)
            if live:
                if time.time() > t_end:
                    for pid in live:
                        try:
                            os.kill(pid, 9)
                            os.waitpid(pid, 0)
                        except OSError:
                            pass
                    raise RuntimeError(f"fault runs did not finish within {deadline_s}s")
                time.sleep(0.05)
        out = []
        for i, c in enumerate(cases):
            path = os.path.join(tmp, f"{i}.pkl")
            if os.path.exists(path):
                with open(path, "rb") as f:
                    r = pickle.load(f)
            else:
                r = _exec_safe(c)
            if "error" in r:
                raise RuntimeError(f"case {c} could not be executed: {r['error']}")
            out.append(r)
        return out
    finally:
        shutil.rmtree(tmp, ignore_errors=True)


def case_id(c):
    return json.dumps([c["scen"], c["key"], c["role"], c["j"], c["kind"], c.get("second")], sort_keys=True)


def strip_pre(n_pre):
    def f(mo):
        return " ; ".join(mo.split(" ; ")[n_pre:])
    return f


def correspond_scenario(ctx, name, cases):
    p = prepare(name)
    scen = p["scen"]
    jobs = int(os.environ.get("C04_JOBS", "0")) or min(12, os.cpu_count() or 4)
    t0 = time.time()
    results = run_cases(cases, jobs)
    t1 = time.time()
    rows, verdict = [], {}
    for case, res in zip(cases, results):
        verdict[case_id(case)] = oracle_case(case, res)
        for i, r in enumerate(build_rows(case, res, ctx.driver)):
            rows.append(dict(case, datakey=r["key"], impl=r["impl"], model_op=r["op"], n_pre=r["n_pre"], first=(i == 0)))
    n_pre = {r["n_pre"] for r in rows if r["model_op"]}
    if len(n_pre) > 1:
        raise RuntimeError(f"scenario {name}: keys have different numbers of preparing attempts: {n_pre}")

    def oracle(row, out):
        return verdict[case_id(row)] if row["first"] else None      # one verdict per fault run, attached to its first row

    ctx.correspond(
        f"fault/{name}", rows, lambda row: row["impl"], lambda row: row["model_op"], oracle,
        nontrivial=lambda row, out: row["model_op"] is not None and row["role"] != "R",
        model_post=strip_pre(n_pre.pop() if n_pre else 0),
        exhaustive=True,
        rule=(f"scenario {name}: graph {'->'.join(scen['keys'])}, processor {scen['proc']}, max_workers {scen['workers']}, rechunk {scen['rechunk']}, "
              f"forked savers {scen['forked']}, model variant {scen['variant']}, directory prepared by {len(scen['pre'])} faulted attempt(s), rmtree order "
              f"{scen['rm']}; EVERY FS operation of the attempt x {{exception at, death before, death after}}; one row per (fault, data key): "
              "operations issued, directory listing, find, load, caller's outcome, then the same after a clean retry; non-trivial = the fault "
              "hit an operation of the save protocol"),
        branch=lambda row, out: f"{row['kind']}:{'probe' if row['role'] == 'R' else row['op']}",
    )
    ctx.note(f"{name}: {len(cases)} fault runs ({t1 - t0:.0f}s on the real code), {len(rows)} rows compared")


DOUBLE = ("st-plain", "st-broken-rechunk", "tm-broken", "st-stale-temp", "forked")


def scenario_cases(ctx, p):
    cases = fault_points(p)
    if ctx.thorough and p["scen"]["name"] in DOUBLE:
        # double faults: a sample of first faults, each followed by a fault somewhere in the retry
        firsts = [c for c in cases if c["role"] != "R"]
        ctx.rng.shuffle(firsts)
        pool = [c for c in cases if c["role"] != "R"]
        for c in firsts[:60]:
            s2 = ctx.rng.choice(pool)
            cases.append(dict(c, second=dict(key=s2["key"], role=s2["role"], j=s2["j"], kind=s2["kind"])))
    return cases


def run(ctx):
    try:
        for scen in ctx.pick(QUICK, THOROUGH):
            p = prepare(scen["name"])
            correspond_scenario(ctx, scen["name"], scenario_cases(ctx, p))
    finally:
        cleanup_prepared()


def search(ctx):
    """an obligation broke without a failing input: sweep the remaining scenarios with the oracle"""
    try:
        for scen in THOROUGH:
            if f"fault/{scen['name']}" in ctx.components:
                continue
            p = prepare(scen["name"])
            correspond_scenario(ctx, scen["name"], fault_points(p))
    finally:
        cleanup_prepared()


def replay(ctx, body):
    case = body["case"]["case"]
    try:
        res = execute(case)
        for i, st in enumerate(res["steps"]):
            print(f"attempt {i}: fault={st['fault']} outcome={st['outcome']} state="
                  + json.dumps({k: {x: v[x] for x in ("find", "load", "ls")} for k, v in st["after"].items()}))
        return oracle_case(case, res)
    finally:
        cleanup_prepared()
