"""C04 — a crash or I/O failure never leaves wrong data visible as valid.

Model: lean/StraxModel/Model/FS.lean (abstract crashing file system + the FileSaver protocol as a small-step
machine: saver thread, chunk-writer workers, writes the handler does not wait for, fault actions); theorems:
Props/C04.lean (universal statements over all three variants: serial, executor and forked — savers inlined into a
ParallelSourcePlugin, modelled as coded since the D35 fix 8cfc614, tied here at operation level; the unfixed cleanup is
refuted by `decide` witnesses).  The decision logic "which data counts as broken / may be replaced" (`_can_overwrite`,
the check_broken block of `find`, `_find(write=True)`) is regenerated from the Python AST (`regen`, Generated/StorePolicy.lean),
proved equal to Model/StorePolicy.lean and tied exhaustively by the component `policy`.
Tie: every FS operation the real code issues while making a target of a small plugin graph is intercepted by
checks/lib/faultfs.py (module attributes of strax.storage.files / strax.io rebound, nothing in /repo edited).
For every operation of the fault-free attempt an exception is injected at it, and the process is killed (fork +
os._exit) in every distinct disk state (thorough: just before and just after every operation); for selected first
exceptions every operation of the exception handling gets a second fault of the same attempt (exception or death
while the handler closes the savers).  After the fault the directory is inspected by a fresh Context, a clean retry
is run, and for every data key the same attempt sequence is given to the compiled Lean driver (`c04.run`):
operations issued, resulting directory listing, `find` / `load` result, caller's outcome, and the same after the
retry must be identical.  Inlined savers run on strax's REAL path (threaded_mailbox processor, allow_multiprocess,
parallel="process" plugins, ParallelSourcePlugin.do_compute / cleanup); only the pool class is replaced by
faultfs.InProcessPool (pickles the task like a process pool, runs it in this process so that its operations are seen).
Oracle (independent of the model), the property's wording: fresh Context after the fault: is_stored never raises;
stored => loads completely and equals the no-fault result; a retry needs no cleanup, succeeds, and everything the
no-fault run stores is stored and correct afterwards; an exception injected into an operation of the save protocol
never ends in a `make` that returns normally, and a `make` that returns normally has stored its target.
The one exemption, strax's rule "a storage frontend that cannot take the data is skipped": `FileSytemBackend._saver`
probes the parent directory (os.makedirs + os.access) BEFORE any saver exists and turns an OSError into
DataNotAvailable, which Context._add_saver catches; with a single frontend `make` then computes, stores nothing and
returns.  Exactly these probe operations are exempt from "reported as success" (nothing wrong becomes visible, the
retry recomputes); the clause "a save that failed is never reported as a success" is therefore NOT covered for a
failing directory creation of the storage root's parent probe — every operation from FileSaver.__init__ on is.
"""
from __future__ import annotations

import json
import os
import shutil
import tempfile
import time

from lib import faultfs
from lib import straxlib as sl
from lib.straxlib import np, strax

ID = "C04"
LEAN_MODULES = ["StraxModel.Props.C04"]
TRUSTED = [
    "fault-injecting file system checks/lib/faultfs.py (proxies for os / os.path / shutil.rmtree / glob / open bound into strax.storage.files and strax.io; fork()+os._exit for process death)",
    "faultfs.InProcessPool standing in for concurrent.futures.ProcessPoolExecutor (task and result pickled as a process pool does; task run inside submit / on worker threads of THIS process; death = death of all pool processes together)",
    "POSIX semantics assumed by the FS model: rename atomic, open(w) truncates then writes, rmtree = listdir + unlinks in unspecified order + rmdir, rename onto a non-empty directory fails",
    "model inputs read off the observed trace: the position at which an exception from elsewhere reaches a saver, the chunks a rechunking SaverSpy flushes from inside the handler, whether ParallelSourcePlugin.cleanup ran in an exception context (a race); predict_handler's rendering of the processors' rules (which savers the exception handling closes)",
    "in a deterministic run, death before operation k+1 = death after operation k (quick tier kills once per distinct disk state)",
]
ASSUMPTIONS = [
    "one data key is modelled at a time; savers of different keys only interact through the exception handling of the processor / of the inlining plugin",
    "partial writes are modelled at truncate / write / close granularity; no fsync / reordering model; DataDirectory + FileSytemBackend only",
    "thread-pool and forked chunk writes interleave at FS-operation granularity; a write to an already opened file after its directory was renamed is not modelled",
    "default overwrite='if_broken'; chunk lists are non-empty (a run without chunks is stored but unloadable also without any fault)",
    "the parent-directory probe of FileSytemBackend._saver (makedirs + access before a saver exists) is outside 'a save that failed': strax skips a frontend that cannot take the data",
    "plugin exceptions are not injected as such: an exception thrown into a saver from elsewhere is exercised through faults of another key's saver and through the mailbox kill of inlined savers",
]

# tqdm guards its bookkeeping with a class-level lock (a multiprocessing lock by default) and runs a monitor thread
# that takes it periodically: a process fork()ed while that thread holds the lock inherits it locked for ever and
# hangs at the next progress bar (strax builds one even with progress_bar=False).  No monitor thread, a plain
# thread lock, and a fresh lock in every fork()ed child.
try:
    import threading as _threading

    import tqdm as _tqdm

    def _fresh_tqdm_lock():
        for cls in {_tqdm.tqdm, strax.utils.tqdm}:
            cls.monitor_interval = 0
            cls.set_lock(_threading.RLock())

    _fresh_tqdm_lock()
    os.register_at_fork(after_in_child=_fresh_tqdm_lock)
except Exception:  # noqa: BLE001
    pass

# `kill -USR1 <pid>` dumps the Python stacks of a (possibly hanging) check process to stderr
try:
    import faulthandler
    import signal as _signal
    faulthandler.register(_signal.SIGUSR1, all_threads=True)
except Exception:  # noqa: BLE001
    pass

RUN = "0"
DT = sl.DT_END
# all scratch directories live on tmpfs when there is one: thousands of create / truncate / delete cycles on a
# disk-backed /tmp cost seconds each under load, and nothing here needs a real disk
SHM = "/dev/shm" if os.path.isdir("/dev/shm") and os.access("/dev/shm", os.W_OK) else None

# ----------------------------------------------------------------------------- plugin graphs
PLAN3 = [(0, 10, [(1, 3, 0), (4, 6, 1)]), (10, 20, [(12, 14, 2)]), (20, 30, [])]
PLAN2 = [(0, 10, [(1, 3, 0)]), (10, 20, [(12, 14, 1), (15, 16, 2)])]
PLAN1 = [(0, 10, [(2, 5, 0), (6, 7, 1)])]
# rows separated by gaps > 1000 ns so that the rechunker can split; with a target of two rows it emits chunks
# while receiving and keeps a remainder that only leaves at flush time
PLANGAP = [(0, 5000, [(10, 20, 0), (2010, 2020, 1)]), (5000, 10000, [(6000, 6010, 2), (8000, 8010, 3)]),
           (10000, 15000, [(12000, 12010, 4)])]
PLANS = {"plan3": PLAN3, "plan2": PLAN2, "plan1": PLAN1, "gap": PLANGAP}


def mk_classes(rechunk):
    tgt = sl.target_mb(2, DT.itemsize)

    @strax.takes_config(strax.Option("plan", default=None, track=False))
    class C4Src(strax.Plugin):
        provides = "c4src"
        data_kind = "c4k0"
        depends_on = tuple()
        dtype = DT
        rechunk_on_save = rechunk
        chunk_target_size_mb = tgt if rechunk else strax.DEFAULT_CHUNK_SIZE_MB
        parallel = False

        def source_finished(self):
            return True

        def is_ready(self, chunk_i):
            return chunk_i < len(self.config["plan"])

        def compute(self, chunk_i):
            s, e, rows = self.config["plan"][chunk_i]
            return self.chunk(start=s, end=e, data=sl.mk_array(rows, "end"))

    class C4Map(strax.Plugin):
        provides = "c4map"
        data_kind = "c4k1"
        depends_on = ("c4src",)
        dtype = DT
        rechunk_on_save = rechunk
        chunk_target_size_mb = tgt if rechunk else strax.DEFAULT_CHUNK_SIZE_MB

        def compute(self, c4k0):
            r = c4k0.copy()
            r["id"] += 100
            return r

    class C4Map2(strax.Plugin):
        provides = "c4mp2"
        data_kind = "c4k2"
        depends_on = ("c4map",)
        dtype = DT
        rechunk_on_save = rechunk
        chunk_target_size_mb = tgt if rechunk else strax.DEFAULT_CHUNK_SIZE_MB

        def compute(self, c4k1):
            r = c4k1.copy()
            r["id"] += 1000
            return r

    return {"c4src": C4Src, "c4map": C4Map, "c4mp2": C4Map2}


_CLASSES = {}


def classes(rechunk, process=False):
    if rechunk not in _CLASSES:
        _CLASSES[rechunk] = mk_classes(rechunk)
    return _PROCESS if process else _CLASSES[rechunk]


# parallel="process" versions (no rechunking): with allow_multiprocess and max_workers > 1 the threaded processor
# inlines these plugins AND their savers into one ParallelSourcePlugin whose do_compute runs in the process pool.
# Module-level classes, because the pool pickles the plugin (classes by reference).
_NR = mk_classes(False)
_CLASSES[False] = _NR


class C4SrcP(_NR["c4src"]):
    parallel = "process"


class C4MapP(_NR["c4map"]):
    parallel = "process"


class C4Map2P(_NR["c4mp2"]):
    parallel = "process"


_PROCESS = {"c4src": C4SrcP, "c4map": C4MapP, "c4mp2": C4Map2P}


# ----------------------------------------------------------------------------- scenarios
# proc: processor; workers: max_workers (None = no executor); variant: which protocol variant of the model
# pre: faults of earlier attempts that prepare the initial directory (address + kind); rm: rmtree order
# forked: "sync" / "async" = savers inlined into a ParallelSourcePlugin (the REAL path: threaded_mailbox processor,
#   allow_multiprocess, max_workers=2, parallel="process" plugins), the process pool replaced by faultfs.InProcessPool
#   running each task inside submit (deterministic) / on two worker threads
def S(name, keys, plan, proc="single_thread", workers=None, rechunk=False, pre=(), rm="meta_first", forked=False):
    if forked:
        proc, workers, rechunk = "threaded_mailbox", 2, False
    variant = "frk" if forked else ("exe" if (workers or 0) > 1 else "ser")
    return dict(name=name, keys=list(keys), plan=plan, proc=proc, workers=workers, rechunk=rechunk, pre=list(pre), rm=rm,
                forked=forked, variant=variant, det=(variant == "ser" or forked == "sync"))


BROKEN = dict(key="c4src", role="W0", j=3, kind="exc")       # first chunk file rename fails -> broken final dir
BROKEN_LATE = dict(key="c4src", role="W1", j=1, kind="exc")
LEFT_TEMP = dict(key="c4src", role="W1", j=1, kind="die_after")   # death mid-way -> stale temp dir

# Every part of the model is reached in the quick tier: serial (st-plain, two keys, handler extras via the
# rechunking scenario), executor (tp-pool), forked + cmeta / collect / readInfo (forked), the three rmtree orders
# (meta_first, sorted, meta_last), rmtree of broken final data (st-broken-rechunk, tm-broken-metalast) and of a stale
# temp directory (st-stale-sorted), the threaded processor with an op-level comparison (tm-broken-metalast).
QUICK = [
    S("st-plain", ["c4src", "c4map"], "plan3"),
    S("tp-pool", ["c4src"], "plan2", proc="threaded_mailbox", workers=2),
    S("st-broken-rechunk", ["c4src"], "gap", rechunk=True, pre=[BROKEN]),
    S("st-stale-sorted", ["c4src"], "plan2", pre=[LEFT_TEMP], rm="sorted"),
    S("tm-broken-metalast", ["c4src"], "plan2", proc="threaded_mailbox", pre=[BROKEN_LATE], rm="meta_last"),
    S("forked", ["c4src", "c4map"], "plan2", forked="sync"),
]
THOROUGH = QUICK + [
    S("tp-pool2", ["c4src", "c4map"], "plan2", proc="threaded_mailbox", workers=2),
    S("tm-plain", ["c4src", "c4map"], "plan3", proc="threaded_mailbox"),
    S("st-chain3", ["c4src", "c4map", "c4mp2"], "plan2"),
    S("st-rechunk", ["c4src", "c4map"], "gap", rechunk=True),
    S("tm-rechunk", ["c4src", "c4map"], "gap", proc="threaded_mailbox", rechunk=True),
    S("tp-rechunk", ["c4src"], "gap", proc="threaded_mailbox", workers=3, rechunk=True),
    S("st-broken-metalast", ["c4src"], "plan2", pre=[BROKEN_LATE], rm="meta_last"),
    S("st-broken-sorted", ["c4src", "c4map"], "plan2", pre=[BROKEN_LATE], rm="sorted"),
    S("tm-broken", ["c4src"], "plan2", proc="threaded_mailbox", pre=[BROKEN]),
    S("st-stale-temp", ["c4src"], "plan2", pre=[LEFT_TEMP]),
    S("tp-stale-temp", ["c4src"], "plan2", proc="threaded_mailbox", workers=2, pre=[LEFT_TEMP]),
    S("forked-plan3", ["c4src", "c4map"], "plan3", forked="sync"),
    S("forked-broken", ["c4src", "c4map"], "plan2", forked="sync", pre=[dict(key="c4src", role="S", j=9, kind="exc")], rm="sorted"),
    S("forked-async", ["c4src", "c4map"], "plan3", forked="async"),
]
SCEN = {s["name"]: s for s in THOROUGH}


def mk_context(scen, root):
    cl = classes(scen["rechunk"], process=bool(scen["forked"]))
    return strax.Context(storage=[strax.DataDirectory(root)], register=[cl[k] for k in ("c4src", "c4map", "c4mp2")],
                         config=dict(plan=PLANS[scen["plan"]]), allow_multiprocess=bool(scen["forked"]), timeout=20)


def do_make(scen, st):
    """the request whose interruption is studied"""
    target = scen["keys"][-1]
    kw = dict(processor=scen["proc"], progress_bar=False)
    if scen["workers"]:
        kw["max_workers"] = scen["workers"]
    if not scen["forked"]:
        return st.make(RUN, target, **kw)
    # the real inlined-saver path; only the pool class is replaced (same process => same FaultFS, see InProcessPool)
    import strax.processors.threaded_mailbox as TM
    saved = TM.ProcessPoolExecutor
    TM.ProcessPoolExecutor = lambda max_workers=None: faultfs.InProcessPool(max_workers, sync=(scen["forked"] == "sync"))
    try:
        return st.make(RUN, target, **kw)
    finally:
        TM.ProcessPoolExecutor = saved


# ----------------------------------------------------------------------------- canonical op strings
def content_of(fn, data):
    base = os.path.basename(fn)
    try:
        if base.endswith("-metadata.json"):
            md = json.loads(data)
            return "j%d%s%s" % (len(md.get("chunks", [])), "e" if "writing_ended" in md else "-", "x" if "exception" in md else "-")
        if base.startswith("metadata_"):
            return "i%d" % json.loads(data)["chunk_i"]
        raw = strax.io.COMPRESSORS["blosc"]["decompress"](data)
        a = np.frombuffer(raw, dtype=DT)
        return "r" + ".".join(str(int(x)) for x in a["id"])
    except Exception as e:  # noqa: BLE001
        return "?" + type(e).__name__


def sname(f):
    if f is None:
        return "?"
    if f == "meta":
        return "m"
    kind, _, i = f.partition(":")
    return {"chunk": "c", "tmp": "t", "cmeta": "x"}.get(kind, "o") + i


def canon_op(o):
    d = {"final": "F", "temp": "T"}.get(o["dirkind"], "?")
    n = o["name"]
    if n == "exists":
        return f"exists:{d}"
    if n in ("listdir", "glob", "mkdir", "rmdir"):
        return f"{n}:{d}"
    if n == "open_r":
        return f"read:{d}:{sname(o['fname'])}"
    if n == "open_w":
        return f"open:{d}:{sname(o['fname'])}"
    if n == "write":
        return f"write:{d}:{sname(o['fname'])}:{o['content']}"
    if n == "close_w":
        return f"close:{d}:{sname(o['fname'])}"
    if n == "unlink":
        return f"rm:{d}:{sname(o['fname'])}"
    if n == "rename":
        if o["fname"] is None:
            return f"mvdir:{d}:{ {'final': 'F', 'temp': 'T'}.get(o['fname2'], '?') }".replace(" ", "")
        return f"mv:{d}:{sname(o['fname'])}:{sname(o['fname2'])}"
    return f"{n}:{d}"


def roles_of(ops, variant):
    """role of every canonical op string of one key: W<i> for the operations of chunk write i, else S.  In the forked
    variant the pool task also writes `metadata_<chunk>.json` and, for chunk 0, flushes its copy of the metadata."""
    out = []
    for n, s in enumerate(ops):
        parts = s.split(":")
        role = "S"
        if len(parts) >= 3 and parts[0] in ("open", "write", "close", "mv"):
            nm = parts[2]
            if nm[0] in "tc" or (variant == "frk" and nm[0] == "x"):
                role = "W" + nm[1:]
            elif variant == "frk" and nm == "m" and n > 0 and out[n - 1] == "W0" and (
                    ops[n - 1] == "close:T:x0" or ops[n - 1].split(":")[2] == "m"):
                role = "W0"
        out.append(role)
    return out


# ----------------------------------------------------------------------------- running one attempt
def _child(scen, root, fault, trace_path):
    import logging
    logging.disable(logging.CRITICAL)
    ffs = faultfs.FaultFS(root, fault=fault, trace_path=trace_path, rm_order=scen["rm"], content_of=content_of).install()
    try:
        st = mk_context(scen, root)
        do_make(scen, st)
        outcome = "success"
    except Exception as e:  # noqa: BLE001
        outcome = "raised:" + sl.err_name(e)
    finally:
        ffs.uninstall()
    return outcome, [o.as_dict() for o in ffs.ops]


def run_attempt(scen, root, fault, scratch):
    """one `make` on the directory (fault: None, one fault or a list of faults armed together).  Process death needs
    a real process to die: those attempts run in a fork()ed child (trace streamed to a side file); everything else
    runs in this process."""
    fl = [] if fault is None else (list(fault) if isinstance(fault, (list, tuple)) else [fault])
    if not any(f["kind"].startswith("die") for f in fl):
        import contextlib
        import io
        with contextlib.redirect_stdout(io.StringIO()), contextlib.redirect_stderr(io.StringIO()):
            return _child(scen, root, fault, None)
    trace_path = os.path.join(scratch, "trace.jsonl")
    if os.path.exists(trace_path):
        os.remove(trace_path)
    status, res = faultfs.run_forked(lambda: _child(scen, root, fault, trace_path)[0], os.path.join(scratch, "result.pkl"), timeout=120)
    trace = faultfs.read_trace(trace_path)
    if status == "ok":
        outcome = res                     # the fault point was never reached
    elif status == "died":
        outcome = "died"
    else:
        raise RuntimeError(f"scenario child failed: {status} {res}")
    return outcome, trace


def key_dirs(root, key):
    fin = tmp = None
    for n in os.listdir(root):
        parts = n[:-5].split("-") if n.endswith("_temp") else n.split("-")
        if len(parts) == 3 and parts[1] == key and os.path.isdir(os.path.join(root, n)):
            if n.endswith("_temp"):
                tmp = os.path.join(root, n)
            else:
                fin = os.path.join(root, n)
    return fin, tmp


def listing(path, key):
    if path is None:
        return "-"
    base = os.path.basename(path)
    base = base[:-5] if base.endswith("_temp") else base
    prefix = base.split("-", 1)[1]
    names = [sname(faultfs.FaultFS.fname(n, prefix)) for n in os.listdir(path)]
    order = {"m": 0, "c": 1, "t": 2, "x": 3, "o": 4}
    names.sort(key=lambda s: (order[s[0]], int(s[1:]) if s[1:].isdigit() else 0))
    return "[" + ",".join(names) + "]"


def inspect(scen, root):
    """fresh Context on the directory: per key is_stored / load result / directory listing"""
    st = mk_context(scen, root)
    sf = st.storage[0]
    out = {}
    for key in scen["keys"]:
        try:
            stored = "ok" if st.is_stored(RUN, key) else "err DataNotAvailable"
        except Exception as e:  # noqa: BLE001
            stored = "err " + sl.err_name(e)
        rows = None
        try:
            chunks = list(sf.loader(st.key_for(RUN, key)))
            load = "ok " + ("/".join(f"{int(c.start)}.{int(c.end)}.{sl.show_ids(sl.rows_of(c.data))}" for c in chunks) or "-")
            rows = [r for c in chunks for r in sl.rows_of(c.data)]
        except Exception as e:  # noqa: BLE001
            load = "err " + sl.err_name(e)
        fin, tmp = key_dirs(root, key)
        has_md = fin is not None and any(n.endswith("-metadata.json") for n in os.listdir(fin))
        out[key] = dict(find=stored, load=load, rows=rows, ls=f"F{listing(fin, key)}T{listing(tmp, key)}",
                        d12=int(fin is not None and not has_md))
    return out


def saver_ops(trace, key, inflight=False):
    """operations of the save protocol on this key that were actually issued (the one a `die_before` fault
    prevented is in the trace only as a marker; one that another thread had begun when the process died is counted
    only on request: it may or may not have taken effect)"""
    skip = ("die_before",) if inflight else ("die_before", "inflight")
    return [o for o in trace if o["key"] == key and o["role"] != "R" and o["res"] not in skip]


# ----------------------------------------------------------------------------- scenario preparation (cached per process)
_PREP = {}


def prepare(scen_name):
    """baseline facts of a scenario: reference result, prepared initial directory, fault-free trace of the
    attempt under study"""
    if scen_name in _PREP:
        return _PREP[scen_name]
    scen = SCEN[scen_name]
    base = tempfile.mkdtemp(prefix=f"c04_{scen_name}_", dir=SHM)
    scratch = os.path.join(base, "scratch")
    os.makedirs(scratch)
    # reference: clean run
    ref_root = os.path.join(base, "ref")
    os.makedirs(ref_root)
    outcome, _ = run_attempt(scen, ref_root, None, scratch)
    if outcome != "success":
        raise RuntimeError(f"scenario {scen_name}: fault-free run ended in {outcome}")
    ref = inspect(scen, ref_root)
    chunks = {}
    for key in scen["keys"]:
        if not ref[key]["load"].startswith("ok "):
            raise RuntimeError(f"scenario {scen_name}: reference load of {key} gave {ref[key]['load']}")
        chunks[key] = chunk_spec(scen, ref_root, key)
    # initial directory: apply the preparing faults
    init_root = os.path.join(base, "init")
    os.makedirs(init_root)
    pre_traces = []
    for ft in scen["pre"]:
        outcome, tr = run_attempt(scen, init_root, ft, scratch)
        pre_traces.append((ft, outcome, tr))
    work = os.path.join(base, "work")
    shutil.copytree(init_root, work)
    outcome, trace = run_attempt(scen, work, None, scratch)
    shutil.rmtree(work)
    if outcome != "success":
        raise RuntimeError(f"scenario {scen_name}: fault-free attempt from the prepared directory ended in {outcome}")
    p = dict(scen=scen, base=base, init=init_root, ref=ref, chunks=chunks, trace=trace, pre=pre_traces)
    _PREP[scen_name] = p
    return p


def chunk_spec(scen, root, key):
    """the chunk list the saver of `key` received in the fault-free run, in the driver's encoding"""
    st = mk_context(scen, root)
    out = []
    for c in st.storage[0].loader(st.key_for(RUN, key)):
        out.append(f"{int(c.start)};{int(c.end)};{sl.show_rows(sl.rows_of(c.data))}")
    return "/".join(out) or "-"


def cleanup_prepared():
    for p in _PREP.values():
        shutil.rmtree(p["base"], ignore_errors=True)
    _PREP.clear()


# ----------------------------------------------------------------------------- one case on the real code
def fault_points(p, full=True):
    """the fault runs of a scenario.  An exception at every operation that can raise.  Process death:
    full (thorough tier): just before and just after EVERY operation;
    otherwise, deterministic scenarios: once in every distinct disk state — after every mutating operation and before
      the first operation (what is on disk when the process dies only changes through mutating operations, and what
      is in memory dies; death before operation k+1 = death after operation k);
    otherwise, thread pools: before and after every operation of the save protocol (another thread may be in the middle
      of an operation), before every probe."""
    out = []
    det = p["scen"]["det"]
    for n, o in enumerate(p["trace"]):
        for kind in ("exc", "die_before", "die_after"):
            if kind == "exc" and o["name"] not in faultfs.CAN_RAISE:
                continue
            if not full and kind != "exc":
                if det and not ((kind == "die_after" and o["name"] in faultfs.MUTATING) or (kind == "die_before" and n == 0)):
                    continue
                if not det and kind == "die_after" and o["role"] == "R":
                    continue
            out.append(dict(scen=p["scen"]["name"], key=o["key"], role=o["role"], j=o["j"], kind=kind, g=o["g"], op=o["name"],
                            dirkind=o["dirkind"], fname=o["fname"]))
    return out


def execute(case):
    """run the case on the real code: faulted attempt (optionally with a second fault armed for the same attempt:
    `then`; optionally a faulted retry: `second`), then a clean retry"""
    p = prepare(case["scen"])
    scen = p["scen"]
    work = tempfile.mkdtemp(prefix="c04w_", dir=SHM)
    scratch = os.path.join(work, "scratch")
    root = os.path.join(work, "root")
    os.makedirs(scratch)
    shutil.copytree(p["init"], root)
    try:
        steps = []
        first = [dict(key=case["key"], role=case["role"], j=case["j"], kind=case["kind"])]
        if case.get("then"):
            first.append(case["then"])
        attempts = [first]
        if case.get("second"):
            attempts.append([case["second"]])
        attempts.append([])
        for fts in attempts:
            before = inspect(scen, root) if steps else None
            outcome, trace = run_attempt(scen, root, fts or None, scratch)
            steps.append(dict(fault=fts[0] if fts else None, faults=fts, outcome=outcome, trace=trace, before=before,
                              after=inspect(scen, root)))
        return dict(steps=steps)
    finally:
        shutil.rmtree(work, ignore_errors=True)


# ----------------------------------------------------------------------------- model attempts derived per key
RM = {"meta_first": "mf", "meta_last": "ml", "sorted": "li"}
# functions of strax.storage.files / strax.io whose FS operations belong to the processing of data (as opposed to
# the creation of the savers in get_components)
PROCESSING = {"save_file", "_save_file", "FileSaver._save_chunk", "FileSaver._save_chunk_metadata", "FileSaver._close"}


def parse_extra(ops):
    """chunk saves found in the handler part of a trace -> (extraStart, chunk specs)"""
    chunks, cur_i, cur_ids, first = [], None, None, None
    for s in ops:
        parts = s.split(":")
        if parts[0] == "write" and parts[2][0] == "t":
            cur_i = int(parts[2][1:])
            cur_ids = [int(x) for x in parts[3][1:].split(".") if x != ""]
        if parts[0] == "close" and parts[2] == "m":
            if first is None:
                first = cur_i if cur_i is not None else 0
            rows = ",".join(f"0:1:{i}" for i in (cur_ids or [])) or "-"
            chunks.append(f"0;0;{rows}")
            cur_i, cur_ids = None, None
    return (first or 0), chunks


def fired(step):
    """the faults of this attempt that took effect, in the order they were armed: [(fault, operation record)]"""
    out = []
    for ft in step.get("faults") or ([step["fault"]] if step["fault"] else []):
        o = next((x for x in step["trace"] if (x["key"], x["role"], x["j"]) == (ft["key"], ft["role"], ft["j"])), None)
        if o is None:
            continue
        if ft["kind"] == "exc":
            if o["res"] == "exc":
                out.append((ft, o))
        elif step["outcome"] == "died":
            out.append((ft, o))
    return out


def first_exc(step):
    return next((o for o in step["trace"] if o["res"] == "exc"), None)


def model_index(model_ops, variant, role, j):
    n = -1
    for i, r in enumerate(roles_of(model_ops, variant)):
        if r == role:
            n += 1
            if n == j:
                return i
    return None         # the model's protocol has no such operation: compared as a fault-free attempt


def join_faults(parts):
    """`parts`: list of fault strings (or (sort key, string)) in the order they happened -> the token field.  Faults due
    at the same operation index apply in list order (the model consumes a skip, an exception moves the index on); an
    exception thrown into the saver (`ab@n`) discards the chunks not yet submitted, so later skips are moot."""
    parts = [p if isinstance(p, tuple) else ((10 ** 9, n), p) for n, p in enumerate(parts)]
    parts = [p for _, p in sorted(parts, key=lambda x: x[0])]
    ab = [int(p[3:]) for p in parts if p.startswith("ab@")]
    if ab:
        parts = [p for p in parts if not (p.startswith("sk@") and int(p[3:]) >= min(ab))]
    return "+".join(parts) or "none"


def token(scen, fault="none", es=0, extra=(), abandoned=0, show=""):
    lost = 0        # 1 would be the threaded processor before the D26 fix (an exception of the final close got lost)
    return "|".join([scen["variant"], "1", RM[scen["rm"]], fault, str(es), "/".join(extra) or "-", str(abandoned), str(lost), show])


def observed_class(obs):
    """what happened to a saver, read off its own operation records: done (closed on the normal path), handled
    (closed with the exception recorded; possibly not completely), open (neither)"""
    ops = [canon_op(o) for o in obs]
    last_md = [s for s in ops if s.startswith("write:T:m:")]
    if last_md and last_md[-1].endswith("e-") and ops[-1] == "mvdir:T:F" and obs[-1]["res"] == "ok":
        return "done"
    if last_md and last_md[-1].endswith("x"):
        return "handled"
    return "open"


def saver_order(trace):
    """data keys in the order their savers were created (= order of components.savers, of the single-thread
    processor's spies and of ParallelSourcePlugin.sub_savers)"""
    seen = []
    for o in trace:
        if o["role"] != "R" and o["key"] is not None and o["key"] not in seen:
            seen.append(o["key"])
    return seen


def predict_handler(scen, step):
    """What strax's exception handling does with every saver after the FIRST exception of this attempt, derived from
    what had happened BEFORE that exception and from the processors' rules — not from what the handler was seen
    doing.  -> {key: done | closing | handled | abandoned | racy}
      single_thread: kill_spies closes the spies in creation order; closing one that is already closed raises
        (D7, unfixed), so do exceptions of a close, and every later saver is left as it is;
      threaded_mailbox: every saver runs save_from in its own thread, whose `finally` closes it (`closed`: with the
        exception recorded, or normally if it had all its data before the kill arrived — a race, never left open);
      inlined savers: ParallelSourcePlugin.cleanup closes them in creation order, in an exception context only if the
        generator was thrown into — which depends on whether the mailbox reader saw the failed future before the
        generator ended (racy: taken from the trace); an exception of a close leaves the later ones open;
      an exception while the savers are being created (get_components) leaves the ones already created open."""
    fe = first_exc(step)
    if fe is None or fe["func"] == PROBE_FUNC:      # the probe's OSError never reaches a processor (frontend skipped)
        return {}
    gf = fe["g"]
    tr = step["trace"]
    order = saver_order([o for o in tr if o["g"] <= gf])
    closed = {k: any(o["key"] == k and o["func"] == "FileSaver._close" and o["g"] <= gf for o in tr) for k in order}
    finished = {k: any(o["key"] == k and o["name"] == "rename" and o["fname"] is None and o["fname2"] == "final"
                       and o["func"] == "FileSaver._close" and o["g"] < gf and o["res"] == "ok" for o in tr) for k in order}
    setup = not any(o["g"] <= gf and o["role"] != "R" and o["func"] in PROCESSING for o in tr)
    later_exc = [o["key"] for o in tr if o["res"] == "exc" and o["g"] > gf]
    pred = {}
    if step.get("before") is not None or (scen["proc"] == "single_thread" and len(scen["keys"]) > 2):
        # NOT predicted (validated only for first attempts and graphs of two savers): faulted retries, and the order
        # in which kill_spies visits three or more spies — there the observed treatment is the model's input
        return {k: "racy" for k in order}
    if setup:
        return {k: "abandoned" for k in order}
    if scen["forked"]:
        if fe["role"].startswith("W"):
            return {k: "racy" for k in order}
        aborted = False
        for k in order:
            if finished[k]:
                pred[k] = "done"
            elif aborted:
                pred[k] = "abandoned"
            elif closed[k]:
                pred[k], aborted = "closing", True
            else:
                pred[k] = "racy"
        return pred
    if scen["proc"] == "single_thread":
        aborted = False
        for k in order:
            if aborted:
                pred[k] = "done" if finished[k] else "abandoned"
            elif closed[k]:
                pred[k], aborted = ("done" if finished[k] else "closing"), True
            else:
                pred[k] = "handled"
                aborted = k in later_exc
        return pred
    # threads: a saver that had received all its data may finish normally before the kill reaches it
    return {k: ("done" if finished[k] else "closing" if closed[k] else ("handled" if k == fe["key"] and fe["role"] != "R" else "closed"))
            for k in order}


def handler_mismatch(scen, key, step, pred):
    """observed vs predicted treatment of a saver by the exception handling (only judged when a single exception
    happened and the process survived)"""
    if step["outcome"] == "died" or sum(1 for o in step["trace"] if o["res"] == "exc") != 1:
        return None
    want = pred.get(key)
    if want in (None, "racy", "closing"):
        return None
    got = observed_class(saver_ops(step["trace"], key))
    if want == "closed":
        return None if got in ("done", "handled") else f"saver of {key}: {got} (expected done or handled)"
    want = {"abandoned": "open"}.get(want, want)
    return None if got == want else f"saver of {key}: {got} (expected {want})"


def inlined_facts(scen, step):
    """Inlined savers: what the trace says about ParallelSourcePlugin's generator and its cleanup.
      gen_aborted: cleanup ran although not every chunk had been submitted (the generator was thrown into);
      close_at[k]: index (among the saver's operations) of the first operation of its close, if it began;
      close_failed: first saver in creation order whose close began but did not end in the final rename — cleanup
        stops there, the later savers are never closed."""
    tr = step["trace"]
    order = saver_order(tr)
    tasks = {o["role"] for o in tr if o["role"].startswith("W")}
    close_at, ok = {}, {}
    for k in order:
        obs = saver_ops(tr, k)
        close_at[k] = next((i for i, o in enumerate(obs) if o["func"] == "FileSaver._close"), None)
        ok[k] = bool(obs) and obs[-1]["name"] == "rename" and obs[-1]["fname"] is None and obs[-1]["res"] == "ok"
    failed = next((k for k in order if close_at[k] is not None and not ok[k]), None)
    return dict(order=order, gen_aborted=len(tasks) < len(PLANS[scen["plan"]]) and any(v is not None for v in close_at.values()),
                close_at=close_at, close_failed=failed)


def attempt_spec(scen, key, step, base_ops_model, show, hspec=None):
    """the attempt token the driver gets for one `make` attempt on one key, or None when the real code did not
    touch this key in that attempt (then only the state is compared).
    Fault positions: for the key a fault was injected into, the index of the faulted operation among the saver's
    operations (deterministic scenarios) or the fault's address translated into the model's eager schedule
    (thread pools); an exception elsewhere reaches this saver after the operations it had issued before it
    (single-thread processor) / where its handler was seen starting (threads: a race).  Whether the handler closes
    the saver at all is PREDICTED (`predict_handler`), the chunks a rechunking SaverSpy flushes from inside the
    handler are read off the trace (`hspec`: taken from the run without the second fault)."""
    fl = step.get("faults") or ([step["fault"]] if step["fault"] else [])
    obs = saver_ops(step["trace"], key)
    ops = [canon_op(o) for o in obs]
    before = step["before"]
    here = any(ft["key"] == key and ft["role"] != "R" for ft in fl)
    if not ops and not here and (before is None or before[key]["find"] == "err DataNotAvailable"):
        return None
    if not fl or not (ops or here):
        return token(scen, show=show)
    fr = fired(step)
    died = step["outcome"] == "died"
    fe = first_exc(step)
    if fe is not None and fe["func"] == PROBE_FUNC:
        fe = None
    pred = predict_handler(scen, step)
    parts, es, extra, abandoned = [], 0, [], 0
    gf = fe["g"] if fe is not None else None
    n_before = sum(1 for o in obs if gf is not None and o["g"] < gf)
    cls = observed_class(obs)
    close_start = (len(ops) - 1 - ops[::-1].index("exists:T")) if (cls == "handled" and "exists:T" in ops) else None

    if not scen["det"]:
        # thread pools: only the faulted key gets its fault (address -> model index); other keys: what was seen
        ft0 = fl[0]
        if here:
            k = model_index(base_ops_model(), scen["variant"], ft0["role"], ft0["j"]) if fr else None
            if k is not None:
                parts.append({"exc": "exc@%d", "die_before": "db@%d", "die_after": "da@%d"}[ft0["kind"]] % k)
                if scen["forked"] and ft0["kind"] == "exc" and fe is not None and fe["role"].startswith("W"):
                    inl = inlined_facts(scen, step)
                    if inl["close_at"].get(key) is not None and (cls == "handled" or inl["gen_aborted"]):
                        parts.append(f"ab@{k + 1}")     # cleanup in an exception context (only find / load are compared)
                    elif inl["close_at"].get(key) is None:
                        parts.append(f"ab@{k + 1}")
                        abandoned = 1
        elif died:
            parts.append(f"db@{len(ops)}" + ("?" if any(o["key"] == key and o["role"] != "R" and o["res"] == "inflight"
                                                          for o in step["trace"]) else ""))
        elif fe is not None:
            skipped = (scen["forked"] and fe["role"].startswith("W") and fe["key"] != key
                       and key in saver_order(step["trace"])[saver_order(step["trace"]).index(fe["key"]):])
            if skipped:
                # the pool task failed before it came to this saver: its write of that chunk never started
                k = model_index(base_ops_model(), scen["variant"], fe["role"], 0)
                if k is not None:
                    parts.append(f"sk@{k}")
            if scen["forked"] and pred.get(key) == "racy":
                inl = inlined_facts(scen, step)
                ca = inl["close_at"].get(key)
                if ca is None:
                    parts.append(f"ab@{len(ops)}")      # cleanup stopped at an earlier saver's failing close
                    abandoned = 1
                elif cls == "handled" or inl["gen_aborted"]:
                    parts.append(f"ab@{ca}")
            elif cls == "handled":
                parts.append(f"ab@{close_start}")
            elif cls == "open" and pred.get(key) == "abandoned":
                parts.append(f"ab@{len(ops)}")
                abandoned = 1
        return token(scen, join_faults(parts), es, extra, abandoned, show)

    # deterministic scenarios
    for ft, o in fr:
        if ft["kind"] == "exc" and o["key"] == key and o["role"] != "R":
            parts.append(((o["g"], 0), "exc@%d" % obs.index(o)))
    if fe is not None and scen["forked"] and pred.get(key) != "abandoned" and not all(v == "abandoned" for v in pred.values()):
        # inlined savers after the savers were created: pool tasks fail on their own (the saver is not told), the
        # generator may or may not be thrown into, cleanup closes the savers in creation order and stops at a failing close
        inl = inlined_facts(scen, step)
        order = inl["order"]
        for ft, o in fr:
            if ft["kind"] == "exc" and o["role"].startswith("W") and o["key"] != key and o["key"] in order \
                    and key in order[order.index(o["key"]):]:
                parts.append(((o["g"], 0), "sk@%d" % sum(1 for x in obs if x["g"] < o["g"])))   # the task never came to this saver
        ca = inl["close_at"].get(key)
        if ca is not None:
            if cls == "handled" or inl["gen_aborted"]:
                parts.append(f"ab@{ca}")
        elif not died:
            parts.append(f"ab@{len(ops)}")          # cleanup stopped at an earlier saver's failing close
            abandoned = 1
        fe = None
    if fe is not None:
        want = pred.get(key, "handled")
        mine = fe["key"] == key and fe["role"] != "R"
        if want == "racy":
            want = cls if cls != "open" else ("handled" if died else "open")
        elif want == "closed":
            want = cls if cls != "open" else "handled"
        if scen["forked"] and fe["role"].startswith("W") and not mine:
            order = saver_order(step["trace"])
            if fe["key"] in order and key in order[order.index(fe["key"]):]:
                parts.append(f"sk@{n_before}")          # the pool task never came to this saver's write of that chunk
        if mine:
            k1 = obs.index(fe)
            tail = ops[k1 + 1:]
            if want == "abandoned" or (want == "open" and not tail):
                abandoned = 1
            elif scen["forked"]:
                if close_start is not None and close_start > k1:
                    parts.append(f"ab@{close_start}")
            elif hspec and key in hspec:
                es, extra = hspec[key]
            elif "exists:T" in tail:
                es, extra = parse_extra(tail[:len(tail) - 1 - tail[::-1].index("exists:T")])
        elif want == "done":
            pass
        elif want == "abandoned" or want == "open":
            parts.append(f"ab@{len(ops)}")
            abandoned = 1
        elif want in ("handled", "closing"):
            if scen["proc"] == "single_thread":
                nb = n_before
            else:
                # threads: the kill reaches this saver's thread some time later; if the process died before that the
                # saver was simply still running
                nb = close_start if close_start is not None else (len(ops) + 1 if died else len(ops))
            if len(ops) > nb or not died:
                if hspec and key in hspec:
                    es, extra = hspec[key]
                elif close_start is not None:
                    es, extra = parse_extra(ops[nb:close_start])
                if want == "handled":
                    parts.append(f"ab@{nb}")
    if died:
        dft = next(((ft, o) for ft, o in fr if ft["kind"].startswith("die")), None)
        if dft is not None and dft[1]["key"] == key and dft[1]["role"] != "R":
            parts.append(("db@%d" % len(ops)) if dft[0]["kind"] == "die_before" else ("da@%d" % (len(ops) - 1)))
        else:
            # an operation of this saver was in flight on another thread when the process died (threaded processor):
            # it may or may not have taken effect — both are deaths of the model, one operation apart
            infl = any(o["key"] == key and o["role"] != "R" and o["res"] == "inflight" for o in step["trace"])
            parts.append(f"db@{len(ops)}" + ("?" if infl else ""))
    return token(scen, join_faults(parts), es, extra, abandoned, show)


def handler_spec_of(scen, step):
    """(extraStart, extra chunks) the handler flushed per key in a run with a single exception"""
    fe = first_exc(step)
    out = {}
    if fe is None:
        return out
    for key in scen["keys"]:
        obs = saver_ops(step["trace"], key)
        ops = [canon_op(o) for o in obs]
        if observed_class(obs) != "handled" or "exists:T" not in ops:
            continue
        close_start = len(ops) - 1 - ops[::-1].index("exists:T")
        if fe["key"] == key and fe["role"] != "R":
            start = obs.index(fe) + 1
        elif scen["proc"] == "single_thread":
            start = sum(1 for o in obs if o["g"] < fe["g"])
        else:
            start = close_start
        out[key] = parse_extra(ops[start:close_start])
    return out


def real_result(step, key):
    oc = step["outcome"]
    before = step["before"]
    if before is not None and before[key]["find"] == "ok":
        return "stored"
    if before is not None and before[key]["find"] != "err DataNotAvailable":
        return "corrupted" if oc.startswith("raised") else oc
    return oc.split(":")[0]


def impl_line(scens, key, steps, shows, took, inflight=False):
    parts = []
    for scen, step, show, tk in zip(scens, steps, shows, took):
        if not tk:
            continue
        a = step["after"][key]
        ops = [canon_op(o) for o in saver_ops(step["trace"], key, inflight)]
        r = real_result(step, key) if "r" in show else "*"
        o = (",".join(ops) or "-") if "o" in show else "*"
        ls = a["ls"] if "l" in show else "*"
        txt = f"{r} find={a['find']} load={a['load']} d12={a['d12']} ls={ls} ops={o}"
        mm = handler_mismatch(scen, key, step, predict_handler(scen, step)) if step.get("fault") else None
        if mm:
            txt += f" !handler: {mm}"        # the model never prints this: shows up as a disagreement
        parts.append(txt)
    return " ; ".join(parts)


_BASE_OPS = {}


def eff_scen(scen, step):
    """the protocol variant an attempt really runs: plugins (and their savers) are only inlined when at least two of
    them have to be computed — when the first data type is already stored, the rest is saved by an ordinary
    save_from on the thread pool (executor variant, operations interleave)"""
    if scen["forked"] and step.get("before") is not None and step["before"][scen["keys"][0]]["find"] == "ok":
        return dict(scen, forked=False, variant="exe", det=False)
    return scen


def model_base_ops(driver, p, scen, key, prior_tokens):
    """the model's op list of a fault-free attempt after the given earlier attempts (thread-pool scenarios: the
    address of a fault is translated into an index of the model's eager schedule)"""
    line = "c04.run " + p["chunks"][key] + " " + " ".join(prior_tokens + [token(scen, show="o")])
    if line not in _BASE_OPS:
        out = driver.run([line])[0]
        ops = out.split(" ; ")[-1].split(" ops=")[1]
        _BASE_OPS[line] = [] if ops in ("-", "*") else ops.split(",")
    return _BASE_OPS[line]


def upstream_wrong(p, scen, step, key):
    """before this attempt, a data type this key is computed from counted as stored with rows other than the reference"""
    b = step.get("before")
    if b is None:
        return False
    ks = scen["keys"]
    return any(b[u]["find"] == "ok" and b[u]["rows"] != p["ref"][u]["rows"] for u in ks[:ks.index(key)])


def build_rows(case, res, driver):
    """one comparison row per data key: canonical implementation line + driver op line (attempts of the
    preparation, then the faulted attempt(s), then the clean retry)"""
    p = prepare(case["scen"])
    scen = p["scen"]
    steps = res["steps"]
    rows = []
    for key in scen["keys"]:
        pre_tokens = []
        for ft, outcome, tr in p["pre"]:
            st0 = dict(fault=ft, faults=[ft], outcome=outcome, trace=tr, before=None)
            tok = attempt_spec(scen, key, st0, (lambda pt=list(pre_tokens): model_base_ops(driver, p, scen, key, pt)), "")
            if tok is not None:
                pre_tokens.append(tok)
        tokens, shows, took, escens = [], [], [], []
        for si, step in enumerate(steps):
            ft = step["fault"]
            es = eff_scen(scen, step)
            escens.append(es)
            here = ft is not None and any(f["key"] == key and f["role"] != "R" for f in step["faults"])
            if ft is None:
                show = "rlo" if es["det"] else "r"
            else:
                # the caller's outcome is compared with the model run of the key that produced it: the faulted key, and
                # when the process died the key whose operation it died at
                if step["outcome"] == "died":
                    dk = next((o["key"] for f, o in fired(step) if f["kind"].startswith("die")), None)
                    here = dk == key and here
                show = ("r" if here else "") + ("ol" if es["det"] else "")
            base_model = (lambda pt=pre_tokens + tokens, es=es: model_base_ops(driver, p, es, key, [t.replace("?", "") for t in pt]))
            tok = attempt_spec(es, key, step, base_model, show, hspec=case.get("hspec") if si == 0 else None)
            took.append(tok is not None)
            shows.append(show)
            if tok is not None:
                tokens.append(tok)
        impl = impl_line(escens, key, steps, shows, took)
        op = ("c04.run " + p["chunks"][key] + " " + " ".join(pre_tokens + tokens)) if tokens else None
        if any(upstream_wrong(p, scen, step, key) and tk for step, tk in zip(steps, took)):
            # an attempt computed this key from stored-but-wrong input (only possible after a violation, which the oracle
            # reports): the chunk list the model was given does not apply
            op = None
        if op is not None and "?|" in op:
            # undecided in-flight operation: the model is asked for the death before it and after it
            import re as _re
            m = _re.search(r"db@(\d+)\?", op)
            n0 = int(m.group(1))
            cands = [op.replace(m.group(0), f"db@{n0}"), op.replace(m.group(0), f"db@{n0 + 1}")]
            outs = driver.run(cands)
            n_pre = len(pre_tokens)
            impl2 = impl_line(escens, key, steps, shows, took, inflight=True)     # … with the in-flight operation done
            if " ; ".join(outs[0].split(" ; ")[n_pre:]) == impl:
                op = cands[0]
            elif " ; ".join(outs[1].split(" ; ")[n_pre:]) == impl2:
                op, impl = cands[1], impl2
            else:
                op = cands[0]
        rows.append(dict(key=key, impl=impl, op=op, n_pre=len(pre_tokens)))
    return rows


# ----------------------------------------------------------------------------- oracle (independent of the model)
D35_TAG = ("[D35-shape: forked saver, fault on a worker-side chunk write/rename, caller saw the exception, "
           "is_stored True afterwards]")
D35_TAG_DIED = ("[D35-shape: forked saver, fault on a worker-side chunk write/rename, process died after the savers were closed, "
                "is_stored True afterwards]")
# `FileSytemBackend._saver` probes the parent directory (makedirs + access) BEFORE a saver exists and turns an OSError
# into DataNotAvailable, which `Context._add_saver` (get_components) catches: strax's rule "a storage frontend that
# cannot take the data is skipped".  With a single frontend `make` then computes, stores nothing and returns.
# Nothing wrong becomes visible (the data stays unavailable, a retry recomputes), and no save was started, so the
# clause "a save that failed is never reported as a success" does not apply to exactly these operations.
PROBE_FUNC = "FileSytemBackend._saver"


def oracle_case(case, res):
    """the property's own wording on what the real code did.  Returns None or a message.  A message that describes
    exactly the state of defect D35 (fixed in /repo 8cfc614; the tag would show a regression of that fix by name) and
    nothing else carries the D35 tag."""
    if res.get("hang"):
        return f"the request did not come back: {res['hang']}"
    p = prepare(case["scen"])
    scen = p["scen"]
    ref = p["ref"]
    steps = res["steps"]
    target = scen["keys"][-1]
    plain, d35 = [], []
    shaped = None       # first attempt with the shape of D35: inlined savers, the first exception of the attempt was injected
    #                     into an operation of a pool task, and the attempt ended with that exception (or a later death)
    for si, step in enumerate(steps):
        ft = step["fault"]
        tag = f"after attempt {si} ({'fault ' + '+'.join(f['kind'] for f in step['faults']) if ft else 'clean retry'})"
        corrupted = any(step["after"][k]["find"] not in ("ok", "err DataNotAvailable") for k in scen["keys"])
        fe = first_exc(step)
        if shaped is None and eff_scen(scen, step)["forked"] and fe is not None and fe["role"].startswith("W") \
                and (step["outcome"].startswith("raised") or step["outcome"] == "died"):
            shaped = si
        for key in scen["keys"]:
            a = step["after"][key]
            if a["find"] not in ("ok", "err DataNotAvailable"):
                plain.append(f"{tag}: is_stored({key}) raised {a['find'][4:]} instead of reporting the data unavailable "
                             f"[state: listing {a['ls']}]")
                continue
            if a["find"] == "ok":
                msg = None
                if not a["load"].startswith("ok "):
                    msg = f"{tag}: {key} is reported stored but loading fails with {a['load']}"
                elif a["rows"] != ref[key]["rows"]:
                    msg = f"{tag}: {key} is reported stored but its rows differ from the fault-free result"
                if msg:
                    # from a D35-shaped attempt on, wrong data that counts as stored stays (the retry does nothing) and is
                    # what later attempts compute from
                    (d35 if shaped is not None else plain).append(msg)
            elif ft is None and not corrupted and (key == target or saver_ops(step["trace"], key)):
                # the request was for the last key of the graph; an intermediate type only has to be there if this
                # attempt set out to save it.  (When some key is in the corrupted state the whole request fails
                # at once; that is reported above, not once more per key.)
                plain.append(f"{tag}: {key} is still unavailable (find={a['find']})")
        if ft is None:
            if step["outcome"] != "success" and not corrupted:
                plain.append(f"{tag}: the retry did not succeed ({step['outcome']})")
        elif step["outcome"] == "success":
            excs = [(f2, o) for f2, o in fired(step) if f2["kind"] == "exc"]
            for f2, o in excs:
                if o["role"] != "R":
                    plain.append(f"{tag}: an I/O error on a write path ({f2['key']} {f2['role']}{f2['j']}: {o['name']} in "
                                 f"{o['func']}) was reported to the caller as success")
            if step["after"][target]["find"] != "ok" and not corrupted and not any(o["func"] == PROBE_FUNC for _, o in excs) \
                    and not any(o["role"] != "R" for _, o in excs):
                plain.append(f"{tag}: make returned normally but {target} is not stored (find={step['after'][target]['find']})")
    if plain:
        return "; ".join(plain + d35)
    return ("; ".join(d35) + " " + (D35_TAG_DIED if steps[shaped]["outcome"] == "died" else D35_TAG)) if d35 else None


# ----------------------------------------------------------------------------- driver of the whole check
class CaseTimeout(Exception):
    pass


def _exec_safe(case, limit_s=300):
    """run one case; a request that does not come back within the limit is a finding of its own (`hang`, judged by
    the oracle, stacks dumped to stderr) — it is not retried"""
    import signal
    import traceback

    def on_alarm(signum, frame):
        raise CaseTimeout(f"case did not finish within {limit_s}s")

    old = signal.signal(signal.SIGALRM, on_alarm)
    signal.alarm(limit_s)
    try:
        return execute(case)
    except CaseTimeout as e:
        try:
            import faulthandler
            faulthandler.dump_traceback(all_threads=True)
        except Exception:  # noqa: BLE001
            pass
        return dict(hang=f"{type(e).__name__}: {e}")
    except Exception as e:  # noqa: BLE001
        return dict(error=f"{type(e).__name__}: {e}\n{traceback.format_exc()}")
    finally:
        signal.alarm(0)
        signal.signal(signal.SIGALRM, old)


def run_cases(cases, jobs, deadline_s=2400):
    """execute the cases on the real code in `jobs` fork()ed worker processes (no multiprocessing machinery:
    a worker that dies or hangs must not be able to block the check).  Every worker takes a slice of the cases and
    leaves one result file per case; what is missing afterwards is executed in this process."""
    import pickle
    n = len(cases)
    if n == 0:
        return []
    jobs = max(1, min(jobs, n))
    tmp = tempfile.mkdtemp(prefix="c04r_", dir=SHM)
    pids = []
    try:
        import sys
        sys.stdout.flush()
        sys.stderr.flush()
        for j in range(jobs):
            pid = os.fork()
            if pid == 0:
                try:
                    import gc
                    gc.freeze()         # fewer copy-on-write faults in the children fork()ed for the death runs
                    for i in range(j, n, jobs):
                        r = _exec_safe(cases[i])
                        with open(os.path.join(tmp, f"{i}.part"), "wb") as f:
                            pickle.dump(r, f)
                        os.rename(os.path.join(tmp, f"{i}.part"), os.path.join(tmp, f"{i}.pkl"))
                finally:
                    os._exit(0)
            pids.append(pid)
        t_end = time.time() + deadline_s
        live = set(pids)
        while live:
            for pid in list(live):
                wpid, _ = os.waitpid(pid, os.WNOHANG)
                if wpid == pid:
                    live.discard(pid)
            if live:
                if time.time() > t_end:
                    for pid in live:
                        try:
                            os.kill(pid, 9)
                            os.waitpid(pid, 0)
                        except OSError:
                            pass
                    raise RuntimeError(f"fault runs did not finish within {deadline_s}s")
                time.sleep(0.05)
        out = []
        for i, c in enumerate(cases):
            path = os.path.join(tmp, f"{i}.pkl")
            if os.path.exists(path):
                with open(path, "rb") as f:
                    r = pickle.load(f)
            else:
                r = _exec_safe(c)
            if "error" in r:
                raise RuntimeError(f"case {c} could not be executed: {r['error']}")
            out.append(r)
        return out
    finally:
        shutil.rmtree(tmp, ignore_errors=True)


def case_id(c):
    return json.dumps([c["scen"], c["key"], c["role"], c["j"], c["kind"], c.get("then"), c.get("second")], sort_keys=True)


def strip_pre(n_pre):
    def f(mo):
        return " ; ".join(mo.split(" ; ")[n_pre:])
    return f


# first faults after which every operation of the exception handling gets a second fault in the SAME attempt
# (exception, death before, death after): (key, role, j) of an exception fault per scenario
THEN_QUICK = {"st-plain": [("c4map", "W1", 1), ("c4src", "S", 11)], "st-broken-rechunk": [("c4src", "W1", 2)]}
THEN_THOROUGH = 3           # per scenario: that many more first faults, drawn at random


def then_cases(ctx, p, cases, results):
    """second faults while the handler closes the savers: for the chosen first faults (kind exc), every operation the
    run issued after the exception gets the three fault kinds, armed together with the first fault"""
    name = p["scen"]["name"]
    if not p["scen"]["det"] or (p["scen"]["proc"] == "threaded_mailbox" and not p["scen"]["forked"]) or len(p["scen"]["keys"]) > 2:
        # the address of a handler operation must mean the same in the second run: not under the threaded processor,
        # where the moment the kill reaches a saver's thread varies; graphs of three savers: handler treatment not predicted
        return []
    chosen = [i for i, c in enumerate(cases) if c["kind"] == "exc" and not c.get("second") and (c["key"], c["role"], c["j"]) in THEN_QUICK.get(name, [])]
    if ctx.thorough:
        rest = [i for i, c in enumerate(cases) if c["kind"] == "exc" and c["role"] != "R" and not c.get("second") and i not in chosen]
        ctx.rng.shuffle(rest)
        chosen += rest[:THEN_THOROUGH]
    out = []
    for i in chosen:
        res = results[i]
        if res.get("hang"):
            continue
        step = res["steps"][0]
        fe = first_exc(step)
        if fe is None:
            continue
        hspec = handler_spec_of(p["scen"], step)
        for o in step["trace"]:
            if o["g"] <= fe["g"] or o["role"] == "R":
                continue
            for kind in ("exc", "die_before", "die_after"):
                if kind == "exc" and o["name"] not in faultfs.CAN_RAISE:
                    continue
                if not ctx.thorough and kind != "exc" and not (kind == "die_after" and o["name"] in faultfs.MUTATING):
                    continue        # one death per distinct disk state, see fault_points
                out.append(dict(cases[i], then=dict(key=o["key"], role=o["role"], j=o["j"], kind=kind), hspec=hspec,
                                then_op=o["name"]))
    return out


def correspond_scenario(ctx, name, cases, with_then=True):
    p = prepare(name)
    scen = p["scen"]
    jobs = int(os.environ.get("C04_JOBS", "0")) or min(12, os.cpu_count() or 4)
    t0 = time.time()
    results = run_cases(cases, jobs)
    n_first = len(cases)
    if with_then:
        more = then_cases(ctx, p, cases, results)
        cases = cases + more
        results = results + run_cases(more, jobs)
    t1 = time.time()
    rows, verdict = [], {}
    hangs = 0
    for case, res in zip(cases, results):
        verdict[case_id(case)] = oracle_case(case, res)
        if res.get("hang"):
            hangs += 1
            rows.append(dict(case, datakey=None, impl="hang", model_op=None, n_pre=0, first=True))
            continue
        for i, r in enumerate(build_rows(case, res, ctx.driver)):
            rows.append(dict({k: v for k, v in case.items() if k != "hspec"}, datakey=r["key"], impl=r["impl"], model_op=r["op"],
                             n_pre=r["n_pre"], first=(i == 0)))
    n_pre = {r["n_pre"] for r in rows if r["model_op"]}
    if len(n_pre) > 1:
        raise RuntimeError(f"scenario {name}: keys have different numbers of preparing attempts: {n_pre}")

    def oracle(row, out):
        return verdict[case_id(row)] if row["first"] else None      # one verdict per fault run, attached to its first row

    def nontrivial(row, out):
        # a row counts when the model had to reproduce more than "nothing happened to this key": the fault hit the
        # save protocol AND operations / listing are compared (deterministic scenarios), or it is the faulted key
        if row["model_op"] is None or row["role"] == "R":
            return False
        return scen["det"] or row["datakey"] == row["key"]

    ctx.correspond(
        f"fault/{name}", rows, lambda row: row["impl"], lambda row: row["model_op"], oracle,
        nontrivial=nontrivial,
        model_post=strip_pre(n_pre.pop() if n_pre else 0),
        exhaustive=True,
        rule=(f"scenario {name}: graph {'->'.join(scen['keys'])}, processor {scen['proc']}, max_workers {scen['workers']}, rechunk {scen['rechunk']}, "
              f"inlined savers {scen['forked']}, model variant {scen['variant']}, directory prepared by {len(scen['pre'])} faulted attempt(s), rmtree order "
              f"{scen['rm']}; an exception at EVERY FS operation of the fault-free attempt that can raise; process death "
              + ("just before and just after EVERY operation" if ctx.thorough else
                 ("in every distinct disk state (after every mutating operation, before the first operation; thorough: before and after every "
                  "operation)" if scen["det"] else "before and after every operation of the save protocol and before every probe"))
              + ("; for selected first exceptions additionally EVERY operation of the exception handling x the three kinds as a second "
                 "fault of the same attempt" if scen["det"] else "")
              + "; one row per (fault, data key): "
              + ("operations issued, directory listing, " if scen["det"] else "(thread pool: no operation-level comparison) ")
              + "find, load, caller's outcome, then the same after a clean retry.  Model inputs read off the real trace: position at "
              "which an exception from elsewhere reaches a saver, chunks a rechunking SaverSpy flushes inside the handler, and for inlined "
              "savers whether cleanup ran in an exception context (a race); whether the handler closes a saver at all is predicted from the "
              "processors' rules and a deviation is shown as `!handler`.  Faults in the retry: thorough tier, a sample.  non-trivial = the "
              "fault hit an operation of the save protocol and operations are compared, or the row is the faulted key's"),
        branch=lambda row, out: (f"{row['kind']}:{'probe' if row['role'] == 'R' else row['op']}"
                                 + (f"+{row['then']['kind']}:{row.get('then_op')}" if row.get("then") else "")),
    )
    ctx.note(f"{name}: {len(cases)} fault runs ({n_first} single + {len(cases) - n_first} with a second fault in the same attempt; "
             f"{t1 - t0:.0f}s on the real code), {len(rows)} rows compared, {hangs} hangs")


DOUBLE = ("st-plain", "st-broken-rechunk", "tm-broken", "st-stale-temp", "forked")


def scenario_cases(ctx, p):
    cases = fault_points(p, full=ctx.thorough)
    if ctx.thorough and p["scen"]["name"] in DOUBLE:
        # double faults: a sample of first faults, each followed by a fault somewhere in the retry
        firsts = [c for c in cases if c["role"] != "R"]
        ctx.rng.shuffle(firsts)
        pool = [c for c in cases if c["role"] != "R"]
        for c in firsts[:60]:
            s2 = ctx.rng.choice(pool)
            cases.append(dict(c, second=dict(key=s2["key"], role=s2["role"], j=s2["j"], kind=s2["kind"])))
    return cases


# ============================================================================================ translator + policy tie
# The decision logic around the save protocol — which existing data counts as broken and may be replaced — is scalar:
# `StorageFrontend._can_overwrite`, the check_broken block at the end of `StorageFrontend.find` and the write branch of
# `DataDirectory._find`.  `regen` re-derives Lean definitions from the Python AST of /repo's current source on every run
# (Generated/StorePolicy.lean); Props/C04.lean proves them equal to Model/StorePolicy.lean and proves the property's
# clauses ("broken data never blocks a retry", "valid data is never replaced under the default policy") of them.

class Untranslatable(Exception):
    pass


_META_KEYS = {"writing_ended": "has_writing_ended", "exception": "has_exception"}
_BOOL_NAMES = {"allow_incomplete": "allow_incomplete", "exists": "dir_exists"}


def _tr_bool(e, meta_names):
    import ast
    if isinstance(e, ast.Constant) and isinstance(e.value, bool):
        return "true" if e.value else "false"
    if isinstance(e, ast.UnaryOp) and isinstance(e.op, ast.Not):
        return f"(!{_tr_bool(e.operand, meta_names)})"
    if isinstance(e, ast.BoolOp):
        op = " && " if isinstance(e.op, ast.And) else " || "
        return "(" + op.join(_tr_bool(v, meta_names) for v in e.values) + ")"
    if isinstance(e, ast.Name) and e.id in _BOOL_NAMES:
        return _BOOL_NAMES[e.id]
    if isinstance(e, ast.Call) and isinstance(e.func, ast.Attribute) and e.func.attr == "_can_overwrite" \
            and isinstance(e.func.value, ast.Name) and e.func.value.id == "self":
        return "can_overwrite"
    if isinstance(e, ast.Compare) and len(e.ops) == 1:
        l, op, r = e.left, e.ops[0], e.comparators[0]
        if isinstance(l, ast.Constant) and isinstance(l.value, str) and isinstance(r, ast.Name) and r.id in meta_names \
                and isinstance(op, (ast.In, ast.NotIn)):
            if l.value not in _META_KEYS:
                raise Untranslatable(f"metadata key {l.value!r}")
            v = _META_KEYS[l.value]
            return v if isinstance(op, ast.In) else f"(!{v})"
        if isinstance(l, ast.Attribute) and l.attr == "overwrite" and isinstance(l.value, ast.Name) and l.value.id == "self" \
                and isinstance(r, ast.Constant) and isinstance(r.value, str) and isinstance(op, (ast.Eq, ast.NotEq)):
            t = f'(overwrite == "{r.value}")'
            return t if isinstance(op, ast.Eq) else f"(!{t})"
    raise Untranslatable(f"expression {type(e).__name__}")


def _is_meta_fetch(st):
    """`<name> = <…>.get_metadata(…)`: binds the metadata variable"""
    import ast
    return (isinstance(st, ast.Assign) and len(st.targets) == 1 and isinstance(st.targets[0], ast.Name)
            and isinstance(st.value, ast.Call) and isinstance(st.value.func, ast.Attribute)
            and st.value.func.attr == "get_metadata")


def _raises(st, name):
    import ast
    if not isinstance(st, ast.Raise) or st.exc is None:
        return False
    f = st.exc.func if isinstance(st.exc, ast.Call) else st.exc
    return (isinstance(f, ast.Name) and f.id == name) or (isinstance(f, ast.Attribute) and f.attr == name)


def _tr_ret_block(stmts, meta_names):
    """statements of a function returning a bool"""
    import ast
    if not stmts:
        raise Untranslatable("function may fall off its end")
    st, rest = stmts[0], stmts[1:]
    if _is_meta_fetch(st):
        return _tr_ret_block(rest, meta_names | {st.targets[0].id})
    if isinstance(st, ast.Return) and st.value is not None:
        return _tr_bool(st.value, meta_names)
    if isinstance(st, ast.If):
        if not isinstance(st.body[-1], ast.Return):
            raise Untranslatable("if-body that falls through")
        test = _tr_bool(st.test, meta_names)
        return f"(if {test} then {_tr_ret_block(st.body, meta_names)} else {_tr_ret_block(st.orelse + rest, meta_names)})"
    raise Untranslatable(f"statement {type(st).__name__}")


def _tr_raise_block(stmts, meta_names):
    """statements that either raise DataNotAvailable or fall through"""
    import ast
    if not stmts:
        return ".ok ()"
    st, rest = stmts[0], stmts[1:]
    if _is_meta_fetch(st):
        return _tr_raise_block(rest, meta_names | {st.targets[0].id})
    if isinstance(st, ast.If) and not st.orelse:
        body = [b for b in st.body if not (isinstance(b, ast.Assign) and isinstance(b.value, ast.Subscript))]
        if len(body) != 1 or not _raises(body[0], "DataNotAvailable"):
            raise Untranslatable("if-body other than `raise DataNotAvailable`")
        return f"(if {_tr_bool(st.test, meta_names)} then .error .dataNotAvailable else {_tr_raise_block(rest, meta_names)})"
    raise Untranslatable(f"statement {type(st).__name__}")


def _method(tree, cls, name):
    import ast
    c = next(n for n in ast.walk(tree) if isinstance(n, ast.ClassDef) and n.name == cls)
    return next(n for n in c.body if isinstance(n, ast.FunctionDef) and n.name == name)


def _translate_policy():
    import ast
    from lib.engine import REPO
    common = ast.parse((REPO / "strax" / "storage" / "common.py").read_text())
    files = ast.parse((REPO / "strax" / "storage" / "files.py").read_text())
    out = {}
    fn = _method(common, "StorageFrontend", "_can_overwrite")
    out["_can_overwrite"] = lambda: _tr_ret_block(fn.body, set())
    find = _method(common, "StorageFrontend", "find")

    def broken():
        blocks = [st for st in find.body if isinstance(st, ast.If) and isinstance(st.test, ast.BoolOp)
                  and isinstance(st.test.op, ast.And) and len(st.test.values) == 2
                  and isinstance(st.test.values[0], ast.UnaryOp) and isinstance(st.test.values[0].op, ast.Not)
                  and isinstance(st.test.values[0].operand, ast.Name) and st.test.values[0].operand.id == "write"
                  and isinstance(st.test.values[1], ast.Name) and st.test.values[1].id == "check_broken"]
        if len(blocks) != 1 or blocks[0].orelse:
            raise Untranslatable("`if not write and check_broken:` block not found")
        return _tr_raise_block(blocks[0].body, set())
    out["find.check_broken"] = broken
    dfind = _method(files, "DataDirectory", "_find")

    def refused():
        blocks = [st for st in dfind.body if isinstance(st, ast.If) and isinstance(st.test, ast.Name) and st.test.id == "write"]
        if len(blocks) != 1 or blocks[0].orelse or len(blocks[0].body) != 2:
            raise Untranslatable("`if write:` block not found")
        inner, ret = blocks[0].body
        if not (isinstance(inner, ast.If) and not inner.orelse and len(inner.body) == 1 and _raises(inner.body[0], "DataExistsError")
                and isinstance(ret, ast.Return)):
            raise Untranslatable("`if write:` block has another shape")
        return _tr_bool(inner.test, set())
    out["DataDirectory._find.write"] = refused
    return out


def regen(ctx):
    """Regenerate Generated/StorePolicy.lean from the current source of strax/storage/common.py and files.py."""
    from lib.engine import LEAN
    out = LEAN / "StraxModel" / "Generated" / "StorePolicy.lean"
    # an untranslatable piece keeps a definition that cannot be proved equal to the model (the proof obligation breaks)
    fallback = {"_can_overwrite": "false && overwrite.isEmpty", "find.check_broken": ".error .other",
                "DataDirectory._find.write": "true && dir_exists && can_overwrite"}
    bodies = {}
    try:
        parts = _translate_policy()
    except Exception as e:                                        # source file / class / method gone
        parts = {k: (lambda e=e: (_ for _ in ()).throw(Untranslatable(f"{type(e).__name__}: {e}"))) for k in fallback}
    for name, thunk in parts.items():
        try:
            bodies[name] = thunk()
            ctx.translator[name] = "translated"
        except (Untranslatable, StopIteration, SyntaxError, AttributeError, IndexError) as e:
            bodies[name] = fallback[name]
            ctx.translator[name] = f"untranslatable: {e}"
            ctx.violation(f"translator:{name}", "translator", None, {"reason": str(e)},
                          f"translator regenerates the Lean definition of {name} from its source", False)
    text = ("-- GENERATED by checks/props/c04.py:regen from /repo/strax/storage/common.py (StorageFrontend._can_overwrite, the\n"
            "-- check_broken block of StorageFrontend.find) and /repo/strax/storage/files.py (DataDirectory._find, write branch).\n"
            "-- Do not edit.\n"
            "import StraxModel.Model.Basic\n"
            "namespace Strax.Generated\n\n"
            "def canOverwrite (overwrite : String) (has_writing_ended has_exception : Bool) : Bool :=\n"
            f"  {bodies['_can_overwrite']}\n\n"
            "def brokenCheck (allow_incomplete has_writing_ended has_exception : Bool) : Except Strax.Err Unit :=\n"
            f"  {bodies['find.check_broken']}\n\n"
            "def writeRefused (dir_exists can_overwrite : Bool) : Bool :=\n"
            f"  {bodies['DataDirectory._find.write']}\n\n"
            "end Strax.Generated\n")
    if not out.exists() or out.read_text() != text:
        out.write_text(text)


def _policy_key():
    return strax.DataKey("0", "recs", {"recs": ("P", "0", {})})


def _policy_dir(root, exists, ended, exc, policy="if_broken"):
    """a real DataDirectory whose data directory for the key exists or not, with a real metadata file"""
    fe = strax.DataDirectory(root, overwrite=policy)
    key = _policy_key()
    dn = os.path.join(root, str(key))
    if exists:
        os.makedirs(dn)
        md = {"chunks": []}
        if ended:
            md["writing_ended"] = 1.0
        if exc:
            md["exception"] = "boom"
        with open(os.path.join(dn, strax.RUN_METADATA_PATTERN % strax.dirname_to_prefix(dn)), "w") as f:
            json.dump(md, f)
    return fe, key


def _policy_guard(f):
    try:
        r = f()
        return "ok" if r is None else f"ok {r}"
    except (strax.DataExistsError, strax.DataNotAvailable, strax.DataCorrupted) as e:
        return "err " + type(e).__name__
    except Exception as e:  # noqa: BLE001
        return "err " + sl.err_name(e)


def policy_impl(case):
    root = tempfile.mkdtemp(prefix="c04pol_")
    try:
        k = case["kind"]
        if k == "ow":
            fe, key = _policy_dir(root, True, case["ended"], case["exc"], case["policy"])
            return _policy_guard(lambda: "true" if fe._can_overwrite(key) else "false")
        if k == "broken":
            fe, key = _policy_dir(root, True, case["ended"], case["exc"])
            return _policy_guard(lambda: (fe.find(key, allow_incomplete=bool(case["allow"])), None)[1])
        fe, key = _policy_dir(root, bool(case["exists"]), case["ended"], case["exc"], case["policy"])
        return _policy_guard(lambda: (fe._find(key, write=True, allow_incomplete=False, fuzzy_for=(), fuzzy_for_options=()), None)[1])
    finally:
        shutil.rmtree(root, ignore_errors=True)


def policy_op(case):
    k = case["kind"]
    if k == "ow":
        return f"c04.policy ow {case['policy']} {case['ended']} {case['exc']}"
    if k == "broken":
        return f"c04.policy broken {case['allow']} {case['ended']} {case['exc']}"
    return f"c04.policy wfind {case['exists']} {case['policy']} {case['ended']} {case['exc']}"


def policy_oracle(case, out):
    """the wording of StorageFrontend's docstring (`overwrite`: never / if_broken = only incomplete or broken data /
    always; `check_broken`: DataNotAvailable if not completely written or written with an exception), and the property:
    data reported unavailable must be replaceable under the default policy, valid data must not be"""
    complete = bool(case["ended"]) and not case["exc"]
    k = case["kind"]
    if k == "ow":
        want = {"never": False, "always": True, "if_broken": not complete}[case["policy"]]
        return None if out == ("ok true" if want else "ok false") else f"_can_overwrite({case['policy']}) gave {out} for complete={complete}"
    if k == "broken":
        avail = (not case["exc"]) and (bool(case["ended"]) or bool(case["allow"]))
        want = "ok" if avail else "err DataNotAvailable"
        return None if out == want else f"find gave {out}, expected {want}"
    refused = bool(case["exists"]) and {"never": True, "always": False, "if_broken": complete}[case["policy"]]
    want = "err DataExistsError" if refused else "ok"
    return None if out == want else f"_find(write=True) gave {out}, expected {want}"


def correspond_policy(ctx):
    cases = [dict(kind="ow", policy=p, ended=e, exc=x) for p in ("never", "if_broken", "always") for e in (0, 1) for x in (0, 1)]
    cases += [dict(kind="broken", allow=a, ended=e, exc=x) for a in (0, 1) for e in (0, 1) for x in (0, 1)]
    cases += [dict(kind="wfind", exists=d, policy=p, ended=e, exc=x) for d in (0, 1) for p in ("never", "if_broken", "always")
              for e in (0, 1) for x in (0, 1)]
    ctx.correspond(
        "policy", cases, policy_impl, policy_op, policy_oracle,
        nontrivial=lambda c, out: c["kind"] != "wfind" or bool(c["exists"]),
        exhaustive=True,
        branch=lambda c, out: f"{c['kind']}:{out}",
        rule=("StorageFrontend._can_overwrite, the check_broken block of StorageFrontend.find and DataDirectory._find(write=True) "
              "on a real DataDirectory with a real metadata file: every overwrite policy x writing_ended x exception "
              "x allow_incomplete x directory exists (44 cases, exhaustive)"))


def run(ctx):
    try:
        only = os.environ.get("C04_ONLY")           # development: a comma-separated subset of the scenarios
        if not only or "policy" in only.split(","):
            correspond_policy(ctx)
        for scen in ctx.pick(QUICK, THOROUGH):
            if only and scen["name"] not in only.split(","):
                continue
            p = prepare(scen["name"])
            correspond_scenario(ctx, scen["name"], scenario_cases(ctx, p))
    finally:
        cleanup_prepared()


def search(ctx):
    """an obligation broke without a failing input: sweep the remaining scenarios with the oracle"""
    try:
        for scen in THOROUGH:
            if f"fault/{scen['name']}" in ctx.components:
                continue
            p = prepare(scen["name"])
            correspond_scenario(ctx, scen["name"], fault_points(p), with_then=False)
    finally:
        cleanup_prepared()


def replay(ctx, body):
    case = body["case"]["case"]
    try:
        res = execute(case)
        for i, st in enumerate(res.get("steps", [])):
            print(f"attempt {i}: fault={st['faults']} outcome={st['outcome']} state="
                  + json.dumps({k: {x: v[x] for x in ("find", "load", "ls")} for k, v in st["after"].items()}))
        return oracle_case(case, res)
    finally:
        cleanup_prepared()
