"""C09 — overlap-window plugins give chunking-independent results at chunk boundaries.

Model: lean/StraxModel/Model/Overlap.lean (OverlapWindowPlugin.do_compute / cache_beyond / iter / _get_window_size, and
Plugin.iter for one dependency); theorems: Props/C09.lean (20: `overlap_whole` for per-row and group-forming
computations, contiguity, multi-output alignment / content / contiguity, ten-trial counterexample, pipeline interface).
Tie: REAL `strax.OverlapWindowPlugin` subclasses (ident, count-neighbours-within-window, sum-of-neighbour-ids,
gap grouping, id-parity pairing, a batch-revealing computation, a two-kind cross count; single- and multi-output;
every form get_window_size() may return) are driven
  (a) directly through `plugin.iter` with plain iterators of real chunks (small grid exhaustive, random, malformed,
      epoch-scale times, window forms),
  (b) through `Context.get_iter` with a tiny source plugin that emits a chosen chunking (both processors),
  (c) call by call through `do_compute` with aligned inputs of two data kinds,
and every yielded chunk ([start, end) + rows) is diffed with the compiled Lean driver.
Oracle (independent of the model), on law-abiding chunkings of disjoint rows and computations local within the DECLARED
window (per-row; grouping / pairing with gap <= min(look-back, look-ahead)): concatenated output == one `compute` over
the whole run; output chunks tile the run; the chunks of one multi-output result share one [start, end); no error.
Known finding probed on every run: C09-ten-trials (component iter/ten-trials).
Round 5: step 0 translator (`regen`): Generated/OverlapWindow.lean is regenerated from the AST of overlap_window_plugin.py
(_get_window_size, the invalid_beyond / cache_inputs_beyond formulas, max_trials, initial sent_until) and Props/C09 proves every
generated definition equal to the model's (`generated_*_eq_model`); `window/get-window-size` (exhaustive) and `iter/boundaries`
(the prev_split arguments of cache_beyond, call by call) tie the same scalars to the running code.
"""
from __future__ import annotations

import contextlib
import io
import logging

from immutabledict import immutabledict

from lib import gen
from lib import straxlib as sl
from lib.straxlib import strax

np = sl.np

ID = "C09"
LEAN_MODULES = ["StraxModel.Props.C09"]
TRUSTED = [
    "translator (checks/props/c09.py:regen): AST of OverlapWindowPlugin._get_window_size (if isinstance(_, (int, float)) / elif isinstance(_, (list, tuple)) and len(_) == 2 / else; if, return, raise ValueError, <, or/and, subscripts 0/1), of the `invalid_beyond = int(..)` / `cache_inputs_beyond = int(..)` assignments of do_compute (+, -, *, integer literals, end, self.sent_until, window_size[i]; `int(..)` of an integer is the identity), of `max_trials` and of `self.sent_until = 0` -> Generated/OverlapWindow.lean; reading the three isinstance classes as the constructors of `WindowDecl` is tied by `window/get-window-size`",
    "the harness plugins' `compute` bodies (Python) and the driver's built-in computations (Lean) are tied by the `whole` correspondence; the generator's validity predicate and Lean `streamB` by `hypothesis`",
    "several dependencies: the aligned calls are taken as given (property C08 / Strax.Align); do_compute is driven call by call (`calls/two-kinds`), no theorem covers `runCalls`",
    "epoch-scale times (1.7e18 ns) are tied by re-running a sample of the small-grid cases shifted (`iter/epoch`, `context/epoch`); the theorems hold for all Int times",
]
ASSUMPTIONS = [
    "rows are identified by an opaque id; the output id encodes what the computation saw (count / sum / group size / batch)",
    "window declarations: number (int or integral float), tuple or list of two integers, and the illegal forms np.int64 / 3-tuple; non-integral float windows are not generated",
    "ordinary runs only (no superruns); save_when = ALWAYS only (the leftover check of Plugin.iter cannot fire with one dependency); process-pool execution not exercised (OverlapWindowPlugin.parallel = False)",
    "oracle domain = computations local within the declared window; wider gaps (incl. (min(wl,wr), 2*wr], proved to work by Lean `overlap_whole_gap`) are compared with the model only",
]

DT = sl.DT_END


# ----------------------------------------------------------------------------- step 0: translator
# The scalar decisions of OverlapWindowPlugin are regenerated from the AST of /repo's current source into
# lean/StraxModel/Generated/OverlapWindow.lean: `_get_window_size` (number -> (w, w); list / tuple of two -> sign check;
# anything else -> ValueError), the two boundary formulas of `do_compute` (`invalid_beyond`, `cache_inputs_beyond`), the
# class constant `max_trials` and the initial `sent_until`.  Props/C09.lean proves each equal to what Model/Overlap.lean
# uses (`generated_*_eq_model`) and re-states the step invariant and the whole-run theorem over the generated definitions.

class Untranslatable(Exception):
    pass


_GEN_HEADER = ("-- GENERATED by checks/props/c09.py:regen from /repo/strax/plugins/overlap_window_plugin.py "
               "(_get_window_size, do_compute, max_trials, __init__). Do not edit.\n")


def _tr_int(e, env):
    """integer expression over the names of `env` -> Lean term of type Int"""
    import ast
    if isinstance(e, ast.Constant) and isinstance(e.value, int) and not isinstance(e.value, bool):
        return str(e.value) if e.value >= 0 else f"({e.value})"
    if isinstance(e, ast.Name) and isinstance(env.get(e.id), str):
        return env[e.id]
    if (isinstance(e, ast.Attribute) and isinstance(e.value, ast.Name) and e.value.id == "self"
            and isinstance(env.get("self." + e.attr), str)):
        return env["self." + e.attr]
    if (isinstance(e, ast.Subscript) and isinstance(e.value, ast.Name) and isinstance(env.get(e.value.id), tuple)
            and isinstance(e.slice, ast.Constant) and isinstance(e.slice.value, int) and not isinstance(e.slice.value, bool)
            and 0 <= e.slice.value < len(env[e.value.id])):
        return env[e.value.id][e.slice.value]
    if isinstance(e, ast.UnaryOp) and isinstance(e.op, ast.USub):
        return f"(-{_tr_int(e.operand, env)})"
    if isinstance(e, ast.BinOp) and isinstance(e.op, (ast.Add, ast.Sub, ast.Mult)):
        sym = {ast.Add: "+", ast.Sub: "-", ast.Mult: "*"}[type(e.op)]
        return f"({_tr_int(e.left, env)} {sym} {_tr_int(e.right, env)})"
    raise Untranslatable(ast.dump(e)[:80])


def _tr_pair(e, env):
    """what `_get_window_size` returns -> Lean term of type Int × Int"""
    import ast
    if isinstance(e, ast.Tuple) and len(e.elts) == 2:
        return f"({_tr_int(e.elts[0], env)}, {_tr_int(e.elts[1], env)})"
    if isinstance(e, ast.Name) and isinstance(env.get(e.id), tuple) and len(env[e.id]) == 2:
        return f"({env[e.id][0]}, {env[e.id][1]})"
    raise Untranslatable("return of " + ast.dump(e)[:60])


def _tr_test(e, env):
    import ast
    if isinstance(e, ast.BoolOp):
        op = " ∨ " if isinstance(e.op, ast.Or) else " ∧ "
        return "(" + op.join(_tr_test(v, env) for v in e.values) + ")"
    if isinstance(e, ast.Compare) and len(e.ops) == 1:
        sym = {ast.Lt: "<", ast.LtE: "≤", ast.Gt: ">", ast.GtE: "≥", ast.Eq: "="}.get(type(e.ops[0]))
        if sym:
            return f"({_tr_int(e.left, env)} {sym} {_tr_int(e.comparators[0], env)})"
    raise Untranslatable(ast.dump(e)[:80])


def _tr_branch(stmts, env):
    """body of one isinstance-branch of `_get_window_size` -> Lean term of type Except Err (Int × Int)"""
    import ast
    if not stmts:
        raise Untranslatable("branch may fall off its end")
    st, rest = stmts[0], stmts[1:]
    if isinstance(st, ast.Return) and st.value is not None:
        return f"pure {_tr_pair(st.value, env)}"
    if isinstance(st, ast.Raise) and st.exc is not None:
        exc = st.exc.func if isinstance(st.exc, ast.Call) else st.exc
        if isinstance(exc, ast.Name) and exc.id == "ValueError":
            return "throw Strax.Err.valueError"
        raise Untranslatable("raise of something else than ValueError")
    if isinstance(st, ast.If):
        if not isinstance(st.body[-1], (ast.Return, ast.Raise)):
            raise Untranslatable("if-body that falls through")
        return f"if {_tr_test(st.test, env)} then ({_tr_branch(st.body, env)}) else ({_tr_branch(st.orelse + rest, env)})"
    raise Untranslatable(type(st).__name__)


def _isinstance_of(e, var):
    """`isinstance(var, (T1, T2, ...))` -> sorted type names, else None"""
    import ast
    if (isinstance(e, ast.Call) and isinstance(e.func, ast.Name) and e.func.id == "isinstance" and len(e.args) == 2
            and not e.keywords and isinstance(e.args[0], ast.Name) and e.args[0].id == var):
        t = e.args[1]
        elts = t.elts if isinstance(t, ast.Tuple) else [t]
        if all(isinstance(x, ast.Name) for x in elts):
            return sorted(x.id for x in elts)
    return None


def _tr_get_window_size(fn):
    """`_get_window_size`: the three-way classification of what `get_window_size()` returned is the constructor of
    `WindowDecl` (number / list or tuple of two / anything else); the tests must be literally these"""
    import ast
    body = [s for s in fn.body if not (isinstance(s, ast.Expr) and isinstance(s.value, ast.Constant))]
    if len(body) != 2 or not (isinstance(body[0], ast.Assign) and len(body[0].targets) == 1
                              and isinstance(body[0].targets[0], ast.Name)):
        raise Untranslatable("_get_window_size: expected `x = self.get_window_size()` followed by one if-chain")
    var = body[0].targets[0].id
    call = body[0].value
    if not (isinstance(call, ast.Call) and isinstance(call.func, ast.Attribute) and call.func.attr == "get_window_size"
            and isinstance(call.func.value, ast.Name) and call.func.value.id == "self" and not call.args and not call.keywords):
        raise Untranslatable("_get_window_size: first statement is not `self.get_window_size()`")
    top = body[1]
    if not (isinstance(top, ast.If) and len(top.orelse) == 1 and isinstance(top.orelse[0], ast.If) and top.orelse[0].orelse):
        raise Untranslatable("_get_window_size: expected if / elif / else")
    mid = top.orelse[0]
    if _isinstance_of(top.test, var) != ["float", "int"]:
        raise Untranslatable("_get_window_size: first test is not isinstance(_, (int, float))")
    t = mid.test
    ok = (isinstance(t, ast.BoolOp) and isinstance(t.op, ast.And) and len(t.values) == 2
          and _isinstance_of(t.values[0], var) == ["list", "tuple"]
          and isinstance(t.values[1], ast.Compare) and len(t.values[1].ops) == 1 and isinstance(t.values[1].ops[0], ast.Eq)
          and isinstance(t.values[1].left, ast.Call) and isinstance(t.values[1].left.func, ast.Name)
          and t.values[1].left.func.id == "len" and len(t.values[1].left.args) == 1
          and isinstance(t.values[1].left.args[0], ast.Name) and t.values[1].left.args[0].id == var
          and isinstance(t.values[1].comparators[0], ast.Constant) and t.values[1].comparators[0].value == 2)
    if not ok:
        raise Untranslatable("_get_window_size: second test is not isinstance(_, (list, tuple)) and len(_) == 2")
    scalar = _tr_branch(top.body, {var: "w"})
    pair = _tr_branch(mid.body, {var: ("w0", "w1")})
    other = _tr_branch(mid.orelse, {})
    return (f"def getWindowSize (window_size : Strax.Overlap.WindowDecl) : Except Strax.Err (Int × Int) :=\n"
            f"  match window_size with\n"
            f"  | .scalar w => {scalar}\n"
            f"  | .pair w0 w1 => {pair}\n"
            f"  | .other => {other}\n")


def _assigned_int(fn, target, env):
    """the unique `target = int(<expr>)` of a function body -> Lean Int term"""
    import ast
    hits = [n for n in ast.walk(fn) if isinstance(n, ast.Assign) and len(n.targets) == 1
            and isinstance(n.targets[0], ast.Name) and n.targets[0].id == target]
    if len(hits) != 1:
        raise Untranslatable(f"{len(hits)} assignments to {target}")
    v = hits[0].value
    if not (isinstance(v, ast.Call) and isinstance(v.func, ast.Name) and v.func.id == "int" and len(v.args) == 1 and not v.keywords):
        raise Untranslatable(f"{target} is not int(<expr>)")
    return _tr_int(v.args[0], env)


def _translate_overlap_window(src):
    import ast
    tree = ast.parse(src)
    cls = next(n for n in tree.body if isinstance(n, ast.ClassDef) and n.name == "OverlapWindowPlugin")
    fns = {n.name: n for n in cls.body if isinstance(n, ast.FunctionDef)}
    parts = [_tr_get_window_size(fns["_get_window_size"])]
    dc = fns["do_compute"]
    # `end = ends[0]`: the common end of the (prepended) inputs; `window_size = self._get_window_size()`
    env = {"end": "end_", "window_size": ("w0", "w1"), "self.sent_until": "sent_until"}
    ws = [n for n in ast.walk(dc) if isinstance(n, ast.Assign) and len(n.targets) == 1
          and isinstance(n.targets[0], ast.Name) and n.targets[0].id == "window_size"]
    if not (len(ws) == 1 and isinstance(ws[0].value, ast.Call) and isinstance(ws[0].value.func, ast.Attribute)
            and ws[0].value.func.attr == "_get_window_size" and not ws[0].value.args):
        raise Untranslatable("do_compute: window_size is not self._get_window_size()")
    parts.append("def invalidBeyond (end_ w0 w1 : Int) : Int :=\n  "
                 + _assigned_int(dc, "invalid_beyond", {k: v for k, v in env.items() if k != "self.sent_until"}) + "\n")
    parts.append("def cacheInputsBeyond (sent_until w0 w1 : Int) : Int :=\n  "
                 + _assigned_int(dc, "cache_inputs_beyond", {k: v for k, v in env.items() if k != "end"}) + "\n")
    mt = [n for n in cls.body if isinstance(n, ast.Assign) and len(n.targets) == 1
          and isinstance(n.targets[0], ast.Name) and n.targets[0].id == "max_trials"]
    if not (len(mt) == 1 and isinstance(mt[0].value, ast.Constant) and isinstance(mt[0].value.value, int)
            and not isinstance(mt[0].value.value, bool) and mt[0].value.value >= 0):
        raise Untranslatable("max_trials is not a literal natural number")
    parts.append(f"def maxTrials : Nat := {mt[0].value.value}\n")
    su = [n for n in ast.walk(fns["__init__"]) if isinstance(n, ast.Assign) and len(n.targets) == 1
          and isinstance(n.targets[0], ast.Attribute) and n.targets[0].attr == "sent_until"]
    if len(su) != 1:
        raise Untranslatable("__init__: sent_until is not assigned exactly once")
    parts.append(f"def sentUntilInit : Int := {_tr_int(su[0].value, {})}\n")
    return (_GEN_HEADER + "import StraxModel.Model.Overlap\nset_option linter.unusedVariables false\nnamespace Strax.Generated.OverlapWindow\n"
            + "".join(parts) + "end Strax.Generated.OverlapWindow\n")


def regen(ctx):
    """Regenerate Generated/OverlapWindow.lean from the current source of strax/plugins/overlap_window_plugin.py."""
    from lib.engine import LEAN, REPO
    out = LEAN / "StraxModel" / "Generated" / "OverlapWindow.lean"
    try:
        text = _translate_overlap_window((REPO / "strax" / "plugins" / "overlap_window_plugin.py").read_text())
    except (Untranslatable, StopIteration, SyntaxError, KeyError, OSError) as e:
        ctx.translator["overlap_window"] = f"untranslatable: {e}"
        ctx.violation("translator:overlap_window", "translator", None, {"reason": str(e)},
                      "translator regenerates Generated.OverlapWindow (getWindowSize, invalidBeyond, cacheInputsBeyond, "
                      "maxTrials, sentUntilInit) from the source of OverlapWindowPlugin", False)
        return
    ctx.translator["overlap_window"] = "translated"
    if not out.exists() or out.read_text() != text:
        out.write_text(text)



# ----------------------------------------------------------------------------- computations (Python side)
def near(wl, wr, r, n):
    return n[1] > r[0] - wl and n[0] < r[1] + wr


def f_ident(rows, wl, wr):
    return list(rows)


def f_count(rows, wl, wr):
    return [(a, b, i * 1000 + sum(1 for n in rows if near(wl, wr, (a, b, i), n))) for a, b, i in rows]


def f_sum(rows, wl, wr):
    return [(a, b, i * 1000 + sum(n[2] for n in rows if near(wl, wr, (a, b, i), n))) for a, b, i in rows]


def f_gap(g):
    """gap grouping as in Lean `gapGroups` / `summarize`: a row joins the group of its predecessor iff it starts at most
    g after the predecessor ENDS; the output row spans the group (first start, latest end)"""
    def f(rows, wl, wr):
        out = []
        cur = None          # [start, latest end, first id, members, end of the last member]
        for a, b, i in rows:
            if cur is not None and a - cur[4] <= g:
                cur = [cur[0], max(cur[1], b), cur[2], cur[3] + 1, b]
            else:
                if cur is not None:
                    out.append((cur[0], cur[1], cur[2] * 100 + cur[3]))
                cur = [a, b, i, 1, b]
        if cur is not None:
            out.append((cur[0], cur[1], cur[2] * 100 + cur[3]))
        return out
    return f


def f_pair(par, g):
    def f(rows, wl, wr):
        out = []
        k = 0
        while k < len(rows):
            a, b, i = rows[k]
            if k + 1 < len(rows) and i % 2 == par and rows[k + 1][0] - b <= g:
                out.append((a, max(b, rows[k + 1][1]), i * 100 + 2))
                k += 2
            else:
                out.append((a, b, i * 100 + 1))
                k += 1
        return out
    return f


def f_batch(rows, wl, wr):
    """NOT window-local on purpose: tells which batch compute was called with (first id, length)"""
    first = rows[0][2] if rows else 0
    return [(a, b, i * 1000000 + first * 1000 + len(rows)) for a, b, i in rows]


def f_cross(rows, other, wl, wr):
    return [(a, b, i * 1000 + sum(1 for n in other if near(wl, wr, (a, b, i), n))) for a, b, i in rows]


def comp_fn(name):
    """name -> f(list of row lists by kind, wl, wr) -> rows"""
    parts = name.split(":")
    if parts[0] == "cross":
        return lambda kinds, wl, wr: f_cross(kinds[0], kinds[1], wl, wr) if len(kinds) == 2 else []
    base = {"ident": f_ident, "count": f_count, "sum": f_sum, "batch": f_batch}.get(parts[0])
    if parts[0] == "gap":
        base = f_gap(int(parts[1]))
    elif parts[0] in ("pair0", "pair1"):
        base = f_pair(int(parts[0][-1]), int(parts[1]))
    return lambda kinds, wl, wr: base(kinds[0], wl, wr)


def local_within(name, wl, wr):
    """is the named computation local within the declared window (the property's premise)?"""
    parts = name.split(":")
    if parts[0] in ("gap", "pair0", "pair1"):
        # "local within that window": whether a row belongs to a group is decided by the rows up to g before it and
        # up to g after it, so g must fit into the look-back AND the look-ahead. (Lean `overlap_whole_gap` proves more -
        # every g <= 2 * look-ahead works with today's safety margin - but that is the implementation's slack, not the
        # property; gaps beyond min(wl, wr) are compared with the model only.)
        return int(parts[1]) <= min(wl, wr)
    return parts[0] != "batch"


# ----------------------------------------------------------------------------- real plugins
class FakeDep:
    def __init__(self, kind):
        self.kind = kind

    def data_kind_for(self, d):
        return self.kind


def declared_window(decl, wl, wr):
    """what get_window_size() returns for a declaration form; default: the tuple (wl, wr)"""
    if decl is None:
        return (wl, wr)
    form = decl[0]
    if form == "s":
        return int(decl[1])
    if form == "f":
        return float(decl[1])
    if form == "p":
        return (int(decl[1]), int(decl[2]))
    if form == "l":
        return [int(decl[1]), int(decl[2])]
    if form == "np":
        return np.int64(decl[1])
    if form == "t3":
        return (1, 2, 3)
    raise ValueError(form)


def decl_token(decl):
    form = decl[0]
    if form in ("s", "f"):
        return f"s:{int(decl[1])}"
    if form in ("p", "l"):
        return f"p:{int(decl[1])}:{int(decl[2])}"
    return "x"


def plugin_class(comps, wl, wr, kinds=("k0",), deps=None, decl=None):
    """a REAL OverlapWindowPlugin subclass computing `comps` (one output each) on its input kinds;
    strax: multi_output <=> more than one provided data type"""
    multi = len(comps) > 1
    fns = [comp_fn(c) for c in comps]
    deps = deps or tuple(f"d{j}" for j in range(len(kinds)))
    args = ", ".join(kinds)
    ns = {"sl": sl, "fns": fns, "wl": wl, "wr": wr, "multi": multi}
    src = (f"def compute(self, {args}):\n"
           f"    kinds = [sl.rows_of(x) for x in ({args},)]\n"
           "    res = [sl.mk_array(f(kinds, wl, wr)) for f in fns]\n"
           "    return {f'o{i}': r for i, r in enumerate(res)} if multi else res[0]\n")
    exec(src, ns)  # noqa: S102 - keyword names of compute must be the data kinds
    body = dict(depends_on=deps, save_when=strax.SaveWhen.ALWAYS, compute=ns["compute"],
                get_window_size=lambda self: declared_window(decl, wl, wr), __version__="0")
    if multi:
        body.update(provides=tuple(f"o{i}" for i in range(len(comps))),
                    data_kind={f"o{i}": f"ok{i}" for i in range(len(comps))},
                    dtype={f"o{i}": DT for i in range(len(comps))},
                    save_when=immutabledict({f"o{i}": strax.SaveWhen.ALWAYS for i in range(len(comps))}))
    else:
        body.update(provides=("o0",), data_kind="ok0", dtype=DT)
    return type("OverlapHarness", (strax.OverlapWindowPlugin,), body)


def standalone(cls, kinds=("k0",)):
    p = cls()
    p.run_id = "0"
    p.deps = {f"d{j}": FakeDep(k) for j, k in enumerate(kinds)}
    p.fix_dtype()
    return p


def real_chunk(c, data_type="d0", kind="k0"):
    return strax.Chunk(start=c[0], end=c[1], data=sl.mk_array(c[2]), data_type=data_type, data_kind=kind, dtype=DT, run_id="0")


def show_chunk(c):
    return f"{int(c.start)}~{int(c.end)}~{sl.show_rows(sl.rows_of(c.data))}"


def show_raw(c):
    return f"{c[0]}~{c[1]}~{sl.show_rows(c[2])}"


def show_result(r):
    if isinstance(r, dict):
        return ";".join(f"{k}={show_chunk(v)}" for k, v in r.items()) if r else "{}"
    return show_chunk(r)


def quiet(f):
    """strax prints from sources / processors; keep the check's stdout for the report lines"""
    def g(*a, **k):
        logging.disable(logging.WARNING)
        try:
            with contextlib.redirect_stdout(io.StringIO()):
                return f(*a, **k)
        finally:
            logging.disable(logging.NOTSET)
    return g


# -- (a) directly through plugin.iter
def impl_iter(case):
    comps, wl, wr = case["comps"], case["wl"], case["wr"]

    def f():
        chunks = [real_chunk(c) for c in case["chunks"]]
        p = standalone(plugin_class(comps, wl, wr, decl=case.get("decl")))
        outs = [show_result(r) for r in p.iter({"d0": iter(chunks)})]
        return " ".join(outs) if outs else "-"
    return quiet(sl.guarded)(f)


def op_iter(case):
    comps, wl, wr = case["comps"], case["wl"], case["wr"]
    cs = " ".join(show_raw(c) for c in case["chunks"])
    if case.get("decl") is not None:
        return f"c09.win {','.join(comps)} {decl_token(case['decl'])} {cs}".rstrip()
    if len(comps) == 1:
        return f"c09.run {comps[0]} {wl} {wr} {cs}".rstrip()
    return f"c09.multi {','.join(comps)} {wl} {wr} {cs}".rstrip()


# -- (d) round 5: `_get_window_size` alone, and the boundary times `do_compute` hands to `cache_beyond`
def impl_getwin(case):
    def f():
        p = standalone(plugin_class(["ident"], 0, 0, decl=case["decl"]))
        a, b = p._get_window_size()
        if a != int(a) or b != int(b):
            raise TypeError("non-integral window")
        return f"{int(a)} {int(b)}"
    return quiet(sl.guarded)(f)


def op_getwin(case):
    return f"c09.getwin {decl_token(case['decl'])}"


def oracle_getwin(case, out):
    """the docstring / error texts of `_get_window_size`: a number means the same window on both sides; two elements are
    (look-back, look-ahead) and must be non-negative; anything else is refused"""
    decl = case["decl"]
    if decl[0] in ("s", "f"):
        want = f"ok {int(decl[1])} {int(decl[1])}"
    elif decl[0] in ("p", "l"):
        want = "err ValueError" if (decl[1] < 0 or decl[2] < 0) else f"ok {decl[1]} {decl[2]}"
    else:
        want = "err ValueError"
    return None if out == want else f"_get_window_size on {decl}: got `{out}`, the documented answer is `{want}`"


def impl_bounds(case):
    """a REAL multi-output plugin whose `cache_beyond` records its `prev_split` argument: per `do_compute` call first
    `invalid_beyond` (results), then `cache_inputs_beyond` (inputs)"""
    comps, wl, wr = case["comps"], case["wl"], case["wr"]

    def f():
        chunks = [real_chunk(c) for c in case["chunks"]]
        base = plugin_class(comps, wl, wr)
        trace = []

        def cache_beyond(self, io, prev_split, cached):
            trace.append(int(prev_split))
            return base.cache_beyond(self, io, prev_split, cached)
        p = standalone(type("OverlapSpy", (base,), {"cache_beyond": cache_beyond}))
        n = sum(1 for _ in p.iter({"d0": iter(chunks)}))
        if len(trace) != 2 * (n - 1):
            raise AssertionError("cache_beyond not called twice per do_compute")
        return " ".join(f"{trace[i]}:{trace[i + 1]}" for i in range(0, len(trace), 2)) or "-"
    return quiet(sl.guarded)(f)


def op_bounds(case):
    cs = " ".join(show_raw(c) for c in case["chunks"])
    return f"c09.bounds {','.join(case['comps'])} {case['wl']} {case['wr']} {cs}".rstrip()


def oracle_bounds(case, out):
    """what the property needs of the two times (not the exact formulas): results are only released up to a time at
    least the look-ahead before the end of the data seen, and inputs are only dropped at least the look-back before
    the latest time results may have been released up to"""
    if not case.get("valid") or out.startswith("err") or out == "ok -":
        return None
    pairs = [tuple(int(x) for x in tok.split(":")) for tok in out[3:].split()]
    ends = [c[1] for c in case["chunks"]]
    s0 = case["chunks"][0][0]
    if len(pairs) != len(ends):
        return f"{len(pairs)} do_compute calls for {len(ends)} chunks"
    for (ib, cb), e in zip(pairs, ends):
        if ib > e - case["wr"]:
            return f"invalid_beyond {ib} is closer than the look-ahead {case['wr']} to the end {e} of the inputs"
        # `sent_until` never exceeds max(invalid_beyond, start of the run): results are split at invalid_beyond or earlier,
        # and a split time before the start of the chunk is clamped to that start
        if cb > max(ib, s0) - case["wl"]:
            return f"cache_inputs_beyond {cb} is closer than the look-back {case['wl']} to what may have been sent (invalid_beyond {ib}, run start {s0})"
    return None


# -- (b) through Context.get_iter
class Source(strax.Plugin):
    provides = "d0"
    depends_on: tuple = ()
    dtype = DT
    data_kind = "k0"
    rechunk_on_save = False
    __version__ = "0"
    CHUNKS: list = []

    def source_finished(self):
        return True

    def is_ready(self, chunk_i):
        return chunk_i < len(self.CHUNKS)

    def compute(self, chunk_i):
        a, b, rows = self.CHUNKS[chunk_i]
        return self.chunk(start=a, end=b, data=sl.mk_array(rows))


def impl_ctx(case):
    comps, wl, wr, proc = case["comps"], case["wl"], case["wr"], case["proc"]

    def f():
        Source.CHUNKS = case["chunks"]
        cls = plugin_class(comps, wl, wr, decl=case.get("decl"))
        per_output = []
        for i in range(len(comps)):
            st = strax.Context(storage=[], register=[Source, cls], allow_lazy=bool(case.get("lazy", True)))
            per_output.append([show_chunk(c) for c in st.get_iter("0", f"o{i}", processor=proc, progress_bar=False)])
        if len(comps) == 1:
            return " ".join(per_output[0]) if per_output[0] else "-"
        if len({len(x) for x in per_output}) != 1:
            return "ragged " + " | ".join(" ".join(x) for x in per_output)
        return " ".join(";".join(f"o{i}={per_output[i][j]}" for i in range(len(comps))) for j in range(len(per_output[0])))
    return quiet(sl.guarded)(f)


# -- (c) do_compute call by call, two data kinds
def impl_calls(case):
    comps, wl, wr = case["comps"], case["wl"], case["wr"]
    kinds = case["kinds"]

    def f():
        calls = [{k: real_chunk(c[k], data_type=f"d_{k}", kind=k) for k in kinds} for c in case["calls"]]
        p = standalone(plugin_class(comps, wl, wr, kinds=tuple(kinds)), kinds=tuple(kinds))
        outs = []
        as_dict = lambda r: r if isinstance(r, dict) else {"o0": r}  # noqa: E731
        for i, kw in enumerate(calls):
            outs.append(show_result(as_dict(p.do_compute(chunk_i=i, **kw))))
        res = p.cached_results
        outs.append("{}" if res is None else show_result(as_dict(res)))
        return " ".join(outs)
    return quiet(sl.guarded)(f)


def op_calls(case):
    calls = " ".join(";".join(f"{k}={show_raw(c[k])}" for k in case["kinds"]) for c in case["calls"])
    return f"c09.calls {int(len(case['comps']) > 1)} {','.join(case['comps'])} {case['wl']} {case['wr']} {calls}".rstrip()


# -- the computations themselves
def impl_whole(case):
    rows = [tuple(r) for r in case["rows"]]
    p = standalone(plugin_class([case["comp"]], case["wl"], case["wr"]))
    return "ok " + sl.show_rows(sl.rows_of(p.compute(sl.mk_array(rows))))


def op_whole(case):
    return f"c09.whole {case['comp']} {case['wl']} {case['wr']} {sl.show_rows(case['rows'])}"


# -- hypotheses
def stream_ok(chunks):
    """Python twin of Lean `streamB`: a law-abiding chunking of disjoint positive rows, >= 1 chunk"""
    if not chunks:
        return False
    if gen.law_abiding([(a, b, [tuple(r) for r in rows]) for a, b, rows in chunks]):
        return False
    if chunks[0][0] < 0:
        return False
    rows = [r for c in chunks for r in c[2]]
    if any(r[0] >= r[1] for r in rows):
        return False
    return all(x[1] <= y[0] for x, y in zip(rows[:-1], rows[1:]))


def impl_hyp(case):
    def f():
        for c in case["chunks"]:
            real_chunk(c)
        return f"stream={int(stream_ok(case['chunks']))}"
    return sl.guarded(f)


def op_hyp(case):
    return ("c09.hyp " + " ".join(show_raw(c) for c in case["chunks"])).rstrip()


# ----------------------------------------------------------------------------- oracle
def parse_rows(s):
    return [] if s == "-" else [tuple(int(x) for x in tok.split(":")) for tok in s.split(",")]


def parse_chunk(s):
    a, b, rows = s.split("~")
    return int(a), int(b), parse_rows(rows)


def parse_results(out, n_outputs, as_dict):
    """-> list over yields of {output name: (start, end, rows)}"""
    body = out[3:]
    res = []
    for tok in body.split(" "):
        if as_dict:
            d = {}
            if tok != "{}":
                for kv in tok.split(";"):
                    k, v = kv.split("=")
                    d[k] = parse_chunk(v)
            res.append(d)
        else:
            res.append({"o0": parse_chunk(tok)})
    return res


def whole_run(case, rows_by_kind):
    """one `compute` of the same plugin class over the whole run"""
    kinds = case.get("kinds", ["k0"])
    cls = plugin_class(case["comps"], case["wl"], case["wr"], kinds=tuple(kinds))
    p = standalone(cls, kinds=tuple(kinds))
    res = p.compute(*[sl.mk_array(rows_by_kind[k]) for k in kinds])
    if not isinstance(res, dict):
        res = {"o0": res}
    return {k: sl.rows_of(v) for k, v in res.items()}


def oracle_run(case, out):
    """the property, evaluated on what the real plugin yielded"""
    if not case.get("valid", True):
        return None
    comps, wl, wr = case["comps"], case["wl"], case["wr"]
    if not all(local_within(c, wl, wr) for c in comps):
        return None
    if "calls" in case:
        kinds = case["kinds"]
        rows_by_kind = {k: [tuple(r) for c in case["calls"] for r in c[k][2]] for k in kinds}
        first_start, last_end = case["calls"][0][kinds[0]][0], case["calls"][-1][kinds[0]][1]
    else:
        rows_by_kind = {"k0": [tuple(r) for c in case["chunks"] for r in c[2]]}
        first_start, last_end = case["chunks"][0][0], case["chunks"][-1][1]
    if out.startswith("err"):
        return f"plugin failed on a law-abiding chunking of disjoint rows: {out}"
    if out.startswith("ragged"):
        return "the outputs of a multi-output plugin came in different numbers of chunks"
    as_dict = "calls" in case or len(comps) > 1
    res = parse_results(out, len(comps), as_dict)
    whole = whole_run(case, rows_by_kind)
    names = [f"o{i}" for i in range(len(comps))]
    for d in res:
        if sorted(d) != names:
            return f"a result lacks outputs: {sorted(d)}"
        if len({(c[0], c[1]) for c in d.values()}) != 1:
            return f"chunks of one multi-output result are not aligned: { {k: c[:2] for k, c in d.items()} }"
    for nm in names:
        cs = [d[nm] for d in res]
        got = [r for c in cs for r in c[2]]
        if got != whole[nm]:
            lost = [r for r in whole[nm] if r not in got]
            extra = [r for r in got if r not in whole[nm]]
            return (f"{nm}: concatenated output differs from one computation over the whole run "
                    f"(missing/changed {lost[:3]}, unexpected {extra[:3]}, {len(got)} vs {len(whole[nm])} rows)")
        if cs[0][0] != first_start:
            return f"{nm}: output starts at {cs[0][0]}, the run at {first_start}"
        if cs[-1][1] != last_end:
            return f"{nm}: output ends at {cs[-1][1]}, the run at {last_end}"
        for x, y in zip(cs[:-1], cs[1:]):
            if x[1] != y[0]:
                return f"{nm}: output chunks not contiguous: [{x[0]},{x[1]}) then [{y[0]},{y[1]})"
        for a, b, rows in cs:
            if a > b or any(not (a <= r[0] and r[1] <= b) for r in rows):
                return f"{nm}: rows outside their chunk [{a},{b})"
    return None


def oracle_whole(case, out):
    # window-locality of the per-row computations: the output for a row computed on the whole run
    # equals the output computed on just its neighbourhood
    if case["comp"] not in ("ident", "count", "sum"):
        return None
    rows = [tuple(r) for r in case["rows"]]
    got = parse_rows(out[3:])
    fn = comp_fn(case["comp"])
    for r, o in zip(rows, got):
        nb = [n for n in rows if near(case["wl"], case["wr"], r, n)]
        alone = fn([nb], case["wl"], case["wr"])
        if alone[nb.index(r)] != o:
            return f"computation {case['comp']} is not local within its window at row {r}"
    return None


# ----------------------------------------------------------------------------- case generation
WINDOWS_SYM = list(range(0, 13))


def rand_window(rng):
    r = rng.random()
    if r < 0.45:
        w = rng.choice(WINDOWS_SYM)
        return w, w
    if r < 0.6:
        return 0, rng.randint(0, 12)
    if r < 0.75:
        return rng.randint(0, 12), 0
    return rng.randint(0, 12), rng.randint(0, 12)


def disjoint_rows(rng, n, max_len=4, max_gap=3, long_p=0.15, t0=None):
    rows = []
    t = rng.randint(0, 3) if t0 is None else t0
    for i in range(n):
        ln = rng.randint(1, max_len)
        if rng.random() < long_p:
            ln = rng.randint(max_len, 7 * max_len)       # rows longer than most windows
        rows.append((t, t + ln, i))
        t = t + ln + rng.choice([0, 0, 1, 1, 2, max_gap, rng.randint(0, 3 * max_gap)])
    return rows


def run_case(rng, n=None, style=None):
    n = rng.randint(0, 14) if n is None else n
    rows = disjoint_rows(rng, n, max_len=rng.choice([2, 4, 6]), max_gap=rng.choice([1, 3, 8]))
    s = max(0, (rows[0][0] if rows else rng.randint(0, 4)) - rng.randint(0, 3))
    e = (rows[-1][1] if rows else s) + rng.randint(0, 6)
    style = style or rng.choice(["tiny", "tiny", "mixed", "few", "one", "dups"])
    if style == "one":
        cuts = [s, e]
    else:
        cand = [t for t in range(s + 1, e) if gen.admissible(rows, t)]
        p = {"tiny": 0.85, "mixed": 0.4, "few": 0.12, "dups": 0.5}[style]
        cuts = [s]
        for t in cand:
            if rng.random() < p:
                cuts.append(t)
                if rng.random() < (0.3 if style == "dups" else 0.05):
                    cuts.append(t)               # zero-duration (empty) chunk
        if rng.random() < 0.1:
            cuts.insert(0, s)
        if rng.random() < 0.1:
            cuts.append(e)
        cuts.append(e)
    return rows, [[a, b, [list(r) for r in rs]] for a, b, rs in gen.chunk_rows(rows, cuts)]


def pick_comp(rng, wl, wr, groups=True):
    r = rng.random()
    m = min(wl, wr)
    if r < 0.35 or not groups:
        return rng.choice(["count", "count", "sum", "ident"])
    if r < 0.75:
        # mostly within min(wl, wr) (the property's wording), sometimes up to 2 * wr (what the theorem covers)
        # and beyond (not local: agreement with the model only)
        return f"gap:{rng.randint(0, m) if rng.random() < 0.7 else rng.randint(0, 2 * wr + 2)}"
    return f"{rng.choice(['pair0', 'pair1'])}:{rng.randint(0, m)}"


def malformed(rng, chunks):
    """break one law of the stream (the property says nothing then; model and code must still agree)"""
    chunks = [[a, b, [list(r) for r in rows]] for a, b, rows in chunks]
    kind = rng.choice(["gap", "overlap-chunks", "overlap-rows", "unsorted", "outside", "swap"])
    if not chunks:
        return chunks, "empty"
    i = rng.randrange(len(chunks))
    if kind == "gap":
        for c in chunks[i + 1:] if i + 1 < len(chunks) else []:
            c[0] += 2
            c[1] += 2
            c[2] = [[t + 2, e + 2, k] for t, e, k in c[2]]
    elif kind == "overlap-chunks" and i + 1 < len(chunks):
        chunks[i + 1][0] -= 1
    elif kind == "overlap-rows":
        rows = chunks[i][2]
        if len(rows) >= 2:
            rows[0][1] = rows[1][0] + 1
    elif kind == "unsorted":
        chunks[i][2].reverse()
    elif kind == "outside":
        if chunks[i][2]:
            chunks[i][2][-1][1] = chunks[i][1] + 1
    elif kind == "swap" and len(chunks) >= 2:
        chunks[i - 1], chunks[i] = chunks[i], chunks[i - 1]
    return chunks, kind


EPOCH_T0 = 1_700_000_000_000_000_000


def shifted(case, d):
    """the same case with every chunk bound and row time moved by d"""
    new = dict(case)
    new["chunks"] = [[a + d, b + d, [[t + d, e + d, i] for t, e, i in rows]] for a, b, rows in case["chunks"]]
    new["shift"] = d
    return new


def branch_of(case, out):
    if out.startswith("err"):
        return out
    n_chunks = len(case.get("chunks", case.get("calls", [])))
    w = case["wl"] + case["wr"]
    spans = [c[1] - c[0] for c in case.get("chunks", [])]
    short = sum(1 for s in spans if s < w)
    return f"chunks={min(n_chunks, 9)}{'+' if n_chunks > 9 else ''},shorter-than-window={'none' if not short else ('all' if short == len(spans) else 'some')}"


def nontrivial(case, out):
    chunks = case.get("chunks") or []
    return len(chunks) >= 2 and sum(len(c[2]) for c in chunks) >= 2


def run(ctx):
    rng = ctx.rng

    # 0. the computations: Python bodies of the harness plugins == Lean built-ins; locality of the per-row ones
    cases = []
    for _ in range(ctx.pick(600, 4000)):
        wl, wr = rand_window(rng)
        cases.append(dict(comp="batch" if rng.random() < 0.08 else pick_comp(rng, wl, wr), wl=wl, wr=wr,
                          rows=[list(r) for r in disjoint_rows(rng, rng.randint(0, 12))]))
    ctx.correspond("whole", cases, impl_whole, op_whole, oracle_whole, nontrivial=lambda c, o: len(c["rows"]) >= 2,
                   rule="random disjoint runs x windows 0..12 (sym/asym) x {ident,count,sum,batch,gap:g,pair0/1:g}: the plugin's compute on the whole run == the Lean computation; per-row ones re-evaluated on each row's neighbourhood alone",
                   branch=lambda c, o: c["comp"].split(":")[0])

    # 1. exhaustive small scope, directly through iter: all disjoint runs x all chunkings x small windows
    max_n, grid = ctx.pick((2, 5), (3, 6))
    wins = ctx.pick([(0, 0), (1, 1), (2, 2), (0, 2), (2, 0), (1, 3)], [(0, 0), (1, 1), (2, 2), (3, 3), (0, 2), (2, 0), (1, 3), (3, 1), (6, 6)])
    cases = []
    for rows in gen.all_sorted_rows(max_n, grid):
        if any(x[1] > y[0] for x, y in zip(rows[:-1], rows[1:])):
            continue
        for chunks in gen.all_chunkings(rows, 0, grid + 1, with_dups=True):
            chunks = [[a, b, [list(r) for r in rs]] for a, b, rs in chunks]
            for (wl, wr) in wins:
                for comp in ("count", f"gap:{min(wl, wr)}"):
                    cases.append(dict(comps=[comp], wl=wl, wr=wr, chunks=chunks, valid=True))
    pool = {"exhaustive": cases}
    ctx.correspond("iter/exhaustive", cases, impl_iter, op_iter, oracle_run, nontrivial=nontrivial, exhaustive=True,
                   rule=f"all disjoint runs of <= {max_n} rows on grid 0..{grid} x every law-abiding chunking of [0,{grid+1}) (+ zero-duration chunks) x windows {wins} x {{count, gap-grouping}}; non-trivial = >= 2 chunks and >= 2 rows",
                   branch=branch_of, in_hyp=lambda c, o: stream_ok(c["chunks"]))

    # 2. random, directly through iter: single output
    cases = []
    for _ in range(ctx.pick(6000, 60000)):
        rows, chunks = run_case(rng)
        wl, wr = rand_window(rng)
        cases.append(dict(comps=[pick_comp(rng, wl, wr)], wl=wl, wr=wr, chunks=chunks, valid=True))
    pool["single"] = cases
    ctx.correspond("iter/single", cases, impl_iter, op_iter, oracle_run, nontrivial=nontrivial,
                   rule="random disjoint runs (0..14 rows, rows up to 7x longer than the base length, gaps 0..24) x chunkings (every admissible cut with p in {.12,.4,.85}, zero-duration chunks, one giant chunk) x windows 0..12 symmetric / one-sided / asymmetric x {ident,count,sum,gap:g<=w,pair:g<=w}",
                   branch=branch_of, in_hyp=lambda c, o: stream_ok(c["chunks"]))

    # 2b. what `compute` is called with: a computation that encodes its batch into every output row (not
    #     window-local, so no oracle) makes the input cache rule visible to the correspondence
    cases = []
    for _ in range(ctx.pick(2500, 20000)):
        rows, chunks = run_case(rng, n=rng.randint(1, 14))
        wl, wr = rand_window(rng)
        comps = ["batch"] if rng.random() < 0.7 else ["batch", pick_comp(rng, wl, wr)]
        cases.append(dict(comps=comps, wl=wl, wr=wr, chunks=chunks, valid=True))
    pool["batches"] = cases
    ctx.correspond("iter/batches", cases, impl_iter, op_iter, oracle_run, nontrivial=nontrivial,
                   rule="as iter/single / iter/multi with a computation whose output rows carry the first id and the length of the batch `compute` received: agreement = same prepended input cache in every call",
                   branch=branch_of, in_hyp=lambda c, o: stream_ok(c["chunks"]))

    # 3. random, directly through iter: multi-output (2..3 outputs incl. interlocking group-forming ones)
    cases = []
    for _ in range(ctx.pick(3000, 30000)):
        rows, chunks = run_case(rng)
        wl, wr = rand_window(rng)
        k = rng.choice([2, 2, 3])
        comps = [pick_comp(rng, wl, wr) for _ in range(k)]
        if rng.random() < 0.25:
            g = rng.randint(0, min(wl, wr))
            comps[:2] = [f"pair0:{g}", f"pair1:{g}"]
        cases.append(dict(comps=comps, wl=wl, wr=wr, chunks=chunks, valid=True))
    pool["multi"] = cases
    ctx.correspond("iter/multi", cases, impl_iter, op_iter, oracle_run, nontrivial=nontrivial,
                   rule="as iter/single with 2..3 outputs of a multi_output plugin (per-row and group-forming computations mixed, 25% the interlocking pair0/pair1)",
                   branch=branch_of, in_hyp=lambda c, o: stream_ok(c["chunks"]))

    # 4. malformed streams and windows (outside the property: agreement only)
    cases = []
    for _ in range(ctx.pick(1500, 12000)):
        rows, chunks = run_case(rng, n=rng.randint(1, 8))
        wl, wr = rand_window(rng)
        why = "window"
        if rng.random() < 0.15:
            if rng.random() < 0.5:
                wl = -rng.randint(1, 3)
            else:
                wr = -rng.randint(1, 3)
        elif rng.random() < 0.05:
            chunks, why = [], "no-chunks"
        else:
            chunks, why = malformed(rng, chunks)
        multi = rng.random() < 0.3
        comps = [pick_comp(rng, max(wl, 0), max(wr, 0)) for _ in range(2 if multi else 1)]
        cases.append(dict(comps=comps, wl=wl, wr=wr, chunks=chunks, valid=False, why=why))
    ctx.correspond("iter/malformed", cases, impl_iter, op_iter, None, nontrivial=nontrivial,
                   rule="streams breaking one law (gap between chunks, overlapping chunks, overlapping / unsorted rows, row outside its chunk, swapped chunks, no chunk at all) and negative windows: model/implementation agreement on output or error kind",
                   branch=lambda c, o: c["why"] + ":" + (o if o.startswith("err") else "ok"))

    # 5. hypothesis predicate of the theorems == the harness's notion of a valid stream
    hcases = [dict(chunks=c["chunks"]) for c in cases[: ctx.pick(600, 4000)]]
    for _ in range(ctx.pick(300, 2000)):
        hcases.append(dict(chunks=run_case(rng)[1]))
    ctx.correspond("hypothesis", hcases, impl_hyp, op_hyp, None,
                   rule="Lean `streamB` (hypothesis of the C09 theorems) == the generator's validity predicate, on valid and malformed streams",
                   branch=lambda c, o: o)

    # 6. two data kinds, do_compute call by call on aligned inputs (alignment itself is property C08)
    cases = []
    for _ in range(ctx.pick(2000, 15000)):
        rows, chunks = run_case(rng, n=rng.randint(0, 10))
        other = disjoint_rows(rng, rng.randint(0, 10), t0=rng.randint(0, 3))
        calls = []
        for a, b, rs in chunks:
            calls.append({"k0": [a, b, rs], "k1": [a, b, [list(r) for r in other if a <= r[0] and r[1] <= b and a < b]]})
        # rows of the second kind that straddle a cut cannot be chunked this way: drop them from the run
        wl, wr = rand_window(rng)
        multi = rng.random() < 0.5
        comps = ["cross", pick_comp(rng, wl, wr)] if multi else ["cross"]
        if not calls:
            continue
        cases.append(dict(comps=comps, wl=wl, wr=wr, calls=calls, kinds=["k0", "k1"], valid=True))
    ctx.correspond("calls/two-kinds", cases, impl_calls, op_calls, oracle_run,
                   nontrivial=lambda c, o: len(c["calls"]) >= 2 and sum(len(x["k0"][2]) + len(x["k1"][2]) for x in c["calls"]) >= 2,
                   rule="two input kinds with independent disjoint rows, aligned calls fed to do_compute one by one, then the final cached_results; computation = rows of kind 2 within the window of each row of kind 1 (+ a second output in the multi-output half)",
                   branch=branch_of)

    # 7. through Context.get_iter, both processors
    cases = []
    procs = ["single_thread", "threaded_mailbox"]
    for j in range(ctx.pick(700, 5000)):
        rows, chunks = run_case(rng, n=rng.randint(1, 12))
        wl, wr = rand_window(rng)
        multi = rng.random() < 0.35
        comps = [pick_comp(rng, wl, wr) for _ in range(2 if multi else 1)]
        cases.append(dict(comps=comps, wl=wl, wr=wr, chunks=chunks, valid=True, multi=multi, proc=procs[j % 2], lazy=rng.random() < 0.7))
    pool["context"] = cases
    ctx.correspond("context", cases, impl_ctx, op_iter, oracle_run, nontrivial=nontrivial,
                   rule="a source plugin emitting the chosen chunking + the overlap plugin in a storage-less Context; get_iter of every output; single_thread and threaded_mailbox (lazy and eager) alternate",
                   branch=lambda c, o: c["proc"] + ":" + ("multi" if c["multi"] else "single") + ":" + ("err" if o.startswith("err") else "ok"))

    # 7b. the same at realistic absolute times: every time shifted by an epoch-scale offset (ns since 1970 ~ 1.7e18 >
    #     2**53, low bits not a multiple of 256). The model is translation invariant (unbounded Int; Lean:
    #     `runOverlap_shift`), the oracle is unchanged; arithmetic that leaves exact integers (float64 boundaries) shows.
    def sample(xs, n):
        xs = list(xs)
        return xs if len(xs) <= n else rng.sample(xs, n)

    ecases = []
    for name, n in (("exhaustive", ctx.pick(1000, 12000)), ("single", ctx.pick(1000, 12000)), ("multi", ctx.pick(700, 6000)),
                    ("batches", ctx.pick(300, 2500))):
        for c in sample(pool[name], n):
            ecases.append(shifted(c, EPOCH_T0 + rng.choice([137, 1, 255, 257, 2 ** 20 + 3, rng.randrange(1, 10 ** 9)])))
    ecases.append(shifted(pool["single"][0], 2 ** 53 + 1))
    ctx.correspond("iter/epoch", ecases, impl_iter, op_iter, oracle_run, nontrivial=nontrivial,
                   rule="a sample of iter/exhaustive, iter/single, iter/multi, iter/batches with every chunk bound and row time shifted by 1.7e18 + an odd offset (ns-since-epoch scale, beyond 2**53): same ops to the driver, same oracle",
                   branch=branch_of, in_hyp=lambda c, o: stream_ok(c["chunks"]))
    ccases = [shifted(c, EPOCH_T0 + rng.choice([137, 255, rng.randrange(1, 10 ** 9)])) for c in sample(pool["context"], ctx.pick(200, 2000))]
    ctx.correspond("context/epoch", ccases, impl_ctx, op_iter, oracle_run, nontrivial=nontrivial,
                   rule="a sample of the `context` cases (both processors) shifted to epoch-scale times",
                   branch=lambda c, o: c["proc"] + ":" + ("err" if o.startswith("err") else "ok"))

    # 7c. every form get_window_size() may return, through _get_window_size: a number (the documented primary form ->
    #     (w, w), no sign check), float, tuple, list, and the illegal ones (np.int64, three elements -> ValueError)
    wcases = []
    for j in range(ctx.pick(1800, 12000)):
        rows, chunks = run_case(rng, n=rng.randint(1, 12))
        r = rng.random()
        w = rng.choice(WINDOWS_SYM)
        if r < 0.5:
            decl, wl, wr, legal = ["s", w], w, w, True
        elif r < 0.6:
            decl, wl, wr, legal = ["f", w], w, w, True
        elif r < 0.75:
            a, b = rand_window(rng)
            decl, wl, wr, legal = ["l", a, b], a, b, True
        elif r < 0.85:
            w = -rng.randint(1, 3)
            decl, wl, wr, legal = ["s", w], w, w, False      # accepted by the code, outside the property
        elif r < 0.93:
            decl, wl, wr, legal = ["np", w], 0, 0, False
        else:
            decl, wl, wr, legal = ["t3"], 0, 0, False
        multi = rng.random() < 0.3
        comps = [pick_comp(rng, max(wl, 0), max(wr, 0)) for _ in range(2 if multi else 1)]
        c = dict(comps=comps, wl=wl, wr=wr, decl=decl, chunks=chunks, valid=legal)
        if legal and j % 9 == 0:
            c["proc"] = procs[(j // 9) % 2]
            c["lazy"] = True
        wcases.append(c)
    direct = [c for c in wcases if "proc" not in c]
    ctx.correspond("iter/window-forms", direct, impl_iter, op_iter, oracle_run, nontrivial=nontrivial,
                   rule="get_window_size() returning a number (50 %), a float, a list of two, a negative number, np.int64, a 3-tuple; the model normalises with `windowOf`; oracle on the legal non-negative forms",
                   branch=lambda c, o: c["decl"][0] + ":" + ("err" if o.startswith("err") else "ok"))
    ctx.correspond("context/window-forms", [c for c in wcases if "proc" in c], impl_ctx, op_iter, oracle_run, nontrivial=nontrivial,
                   rule="the legal forms through Context.get_iter (both processors)",
                   branch=lambda c, o: c["decl"][0] + ":" + c["proc"] + ":" + ("err" if o.startswith("err") else "ok"))

    # 7d. round 5: `_get_window_size` alone (exhaustive small scope; tied to `windowResult`, which Props/C09 proves equal to
    #     the definition regenerated from the source), and the two boundary times of every `do_compute` call
    gcases = ([dict(decl=["s", w]) for w in range(-4, 14)] + [dict(decl=["f", w]) for w in range(-2, 6)]
              + [dict(decl=[form, a, b]) for form in ("p", "l") for a in range(-2, 7) for b in range(-2, 7)]
              + [dict(decl=["np", w]) for w in (0, 3)] + [dict(decl=["t3"])])
    ctx.correspond("window/get-window-size", gcases, impl_getwin, op_getwin, oracle_getwin, nontrivial=lambda c, o: True,
                   exhaustive=True,
                   rule="_get_window_size on every declaration: numbers -4..13, floats -2..5, tuples and lists of two over -2..6 squared, np.int64, a 3-tuple",
                   branch=lambda c, o: c["decl"][0] + ":" + ("err" if o.startswith("err") else "ok"))
    bcases = []
    for _ in range(ctx.pick(500, 4000)):
        rows, chunks = run_case(rng, n=rng.randint(1, 12))
        wl, wr = rand_window(rng)
        comps = [pick_comp(rng, wl, wr, groups=rng.random() < 0.3) for _ in range(2)]
        bcases.append(dict(comps=comps, wl=wl, wr=wr, chunks=chunks, valid=True))
    # the spy reads internals (the arguments of cache_beyond): if a refactoring made them unobservable the component is
    # skipped rather than reported (the outputs stay tied by every other component)
    probe = impl_bounds(dict(comps=["count", "sum"], wl=1, wr=1, chunks=[[0, 4, [[0, 2, 0]]], [4, 9, [[5, 6, 1]]]]))
    if probe.startswith("err AssertionError") or probe.startswith("err TypeError"):
        bcases = []
    ctx.correspond("iter/boundaries", bcases, impl_bounds, op_bounds, oracle_bounds, nontrivial=nontrivial,
                   rule="two-output plugins whose cache_beyond records its prev_split argument: (invalid_beyond, cache_inputs_beyond) of every do_compute call against the model's invalidBeyond / cacheInputsBeyond",
                   branch=lambda c, o: ("err" if o.startswith("err") else f"calls={min(len(o.split()) - 1, 6)}"))


    # 8. corpus: hand-picked shapes that every run must see
    corpus = [
        dict(comps=["count"], wl=12, wr=12, chunks=[[i, i + 1, [[i, i + 1, i]]] for i in range(30)], valid=True),          # 30 chunks, all far shorter than the window
        dict(comps=["count"], wl=2, wr=2, chunks=[[0, 40, [[0, 40, 0]]], [40, 44, [[41, 43, 1]]], [44, 90, [[44, 90, 2]]]], valid=True),  # rows longer than the window
        dict(comps=["count"], wl=0, wr=0, chunks=[[0, 3, [[0, 3, 0]]], [3, 3, []], [3, 6, [[3, 6, 1]]]], valid=True),
        dict(comps=["gap:3"], wl=3, wr=3, chunks=[[3 * i, 3 * i + 3, [[3 * i, 3 * i + 1, i]]] for i in range(12)], valid=True),  # one group across all chunks
        dict(comps=["count"], wl=5, wr=0, chunks=[[5, 9, [[5, 7, 0]]], [9, 9, []], [9, 20, [[9, 10, 1], [15, 20, 2]]]], valid=True),  # run not starting at 0
        dict(comps=["pair0:1", "pair1:1"], wl=1, wr=1, valid=True,
             chunks=[[0, 8, [[i, i + 1, i] for i in range(8)]], [8, 12, [[i, i + 1, i] for i in range(8, 12)]]]),
    ]
    ctx.correspond("iter/corpus", corpus, impl_iter, op_iter, oracle_run, nontrivial=nontrivial,
                   rule="fixed shapes: 30 one-row chunks under a window of 12; rows 20x the window; zero window with an empty chunk; one gap-group spanning 12 chunks; run starting at 5; interlocking pair outputs")
    ten_trials(ctx)


def ten_trials(ctx):
    """open finding C09-ten-trials: two outputs of a multi-output plugin that interlock like bricks over a long
    stretch of touching rows exhaust `max_trials = 10` in cache_beyond -> ValueError instead of a result"""
    cases = []
    for n in (20, 24, 40):
        rows = [[i, i + 1, i] for i in range(n)]
        cases.append(dict(comps=["pair0:0", "pair1:0"], wl=0, wr=0, valid=True, chunks=[[0, n, rows]]))
        cases.append(dict(comps=["pair1:1", "pair0:1"], wl=1, wr=2, valid=True,
                          chunks=[[a, a + 4, rows[a:a + 4]] for a in range(0, n, 4)]))
    ctx.correspond("iter/ten-trials", cases, impl_iter, op_iter, oracle_run, nontrivial=lambda c, o: True,
                   rule="interlocking pair0/pair1 outputs over 20 / 24 / 40 touching rows, one chunk and 4-row chunks: from 24 rows on the ten trials of cache_beyond do not suffice (known finding C09-ten-trials)",
                   branch=lambda c, o: f"rows={sum(len(x[2]) for x in c['chunks'])}:" + (o if o.startswith("err") else "ok"))


def search(ctx):
    """an obligation broke: hunt for a failing input on the real code with the oracle only"""
    rng = ctx.rng
    cases = []
    for _ in range(8000):
        rows, chunks = run_case(rng)
        wl, wr = rand_window(rng)
        multi = rng.random() < 0.4
        comps = [pick_comp(rng, wl, wr) for _ in range(2 if multi else 1)]
        cases.append(dict(comps=comps, wl=wl, wr=wr, chunks=chunks, valid=True))
    ctx.check_oracle("search/iter", cases, impl_iter, oracle_run)


def replay(ctx, body):
    if body.get("case") is None:
        return f"obligation {body['component']} has no input to replay (no-failing-input-found); re-run the check"
    case = body["case"]["case"]
    comp = body["component"]
    if comp.startswith("whole"):
        out = impl_whole(case)
        print("implementation output:", out)
        return oracle_whole(case, out)
    if comp.startswith("hypothesis"):
        return None
    impl = impl_calls if "calls" in case else (impl_ctx if "proc" in case else impl_iter)
    out = impl(case)
    print("implementation output:", out)
    return oracle_run(case, out)
